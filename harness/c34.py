"""C34 — file inputs are staged according to their copy mode (pydra/engine/job.py Job.inputs,
pydra/utils/typing.py copy_nested_files, pydra/utils/mount_identifier.py narrowing)."""
import contextlib
import os
import shutil
import tempfile
import time
import typing as ty
from pathlib import Path

from .lib import coqio
from .lib.runner import Outcome, Failure
from . import c33 as base

PROP = "C34"
PROPS_FILE = "Props/C34.v"
IMPORTS = base.IMPORTS
MANIFEST = dict(
    text="PARTIAL (what a staged file is and where it goes is fileformats' FileSet.copy's: assumed as the explicit "
         "copy_contract, tested on every run). Theorems (Coq, closed under the global context), for every list of input "
         "fields (type gate, copy mode, nested value of lists/tuples/dicts with file leaves), every mount table and "
         "file system: C34_staged / C34_shape / C34_once / C34_mode — for any FileSet.copy meeting the contract, "
         "whenever Job.inputs' staging succeeds: values keep their shape and non-file leaves; every file leaf of a staged "
         "field was realised in a way permitted by the field's copy mode and by the mounts (no symlink from CIFS, no hard "
         "link across mounts) and behaves accordingly — a copy keeps the original content whatever is later written to "
         "the original, a link shows it, 'leave' is the original; equal file-sets of a field get one destination and "
         "FileSet.copy is called once per distinct file-set of the field (memo lemma); nothing that existed is altered. "
         "C34_total / C34_full — with the model of fileformats' algorithm, existing files and realisable modes, "
         "whatever the job directory already holds, staging never fails (this needed the repairs 0120a492 and 4dfb7ba7: "
         "one clash set shared by the fields, seeded with the directory's entries); C34_save_safe — no staged file bears "
         "a name the engine writes into the job directory later (`_result.pklz`, ...; repair), that write touches nothing else. "
         "Tie: Job.inputs of generated tasks is run on real temp files for every FileSet.CopyMode value and collation, "
         "inodes/paths/contents are observed before, after, and after modifying the originals in place, and the model and "
         "the executable spec are evaluated on the same cases inside Coq.",
    note="Trusted: Coq kernel + vm_compute; hand-written model; copy_contract about fileformats (correspondence only); "
         "multi-path file-sets (where collation matters) and fileformats' own mount checks are not modelled; a symlink is "
         "modelled as sharing the inode (only in-place modification of the original is considered).",
    technique="Coq proof (state-passing traversal model, memo and clash-set invariants, inode file-system model) + "
              "model/impl correspondence via generated cases.v on real files",
    design="§8 Group H / C33-C34",
)
TIE_NAME = "Model.CopyFiles.job_inputs(ff_copy) vs pydra.engine.job.Job.inputs + fileformats FileSet.copy"
TRUSTED = base.TRUSTED + [
    "the type gate TypeParser.contains_type(FileSet, field.type) and bool(value) are inputs of the model (observed, not modelled)",
    "template_update (the non-staging half of Job.inputs) is not modelled",
]
ASSUMPTIONS = base.ASSUMPTIONS[:1] + [
    "input files exist when the job is prepared (FileSet validates this on construction)",
    "copy_collation is irrelevant for single-path file-sets (fileformats resets it to `any`); generated and observed to be so",
]
RULE = ("tasks with 1-4 input fields whose types are derived from generated nested values (File/Directory/FsObject/"
        "TextFile leaves with colliding names from up to 4 directories, lists/tuples/dicts, Any-typed fields that must not "
        "be staged), every FileSet.CopyMode member and every CopyCollation, optional patched mount table (CIFS / foreign "
        "mounts); Job.inputs on a real Job in a temp cache_root; non-trivial = some staged field with a non-'leave' way "
        "and either a name collision between distinct sources or a repeated file-set")


def mode_bits(m):
    v = m.value
    return "(mkmode %s %s %s %s)" % tuple(coqio.boolean(bool(v & b)) for b in (1, 2, 4, 8))


def type_of(v, rng):
    """A type annotation the value conforms to and that contains a FileSet class wherever the value does."""
    from fileformats.generic import FileSet, FsObject
    import collections.abc as cabc
    if isinstance(v, FileSet):
        r = rng.random()
        if r < 0.15:
            return FsObject
        if r < 0.25:
            return ty.Optional[type(v)]
        return type(v)
    if base.is_container(v):
        if isinstance(v, cabc.Mapping):
            vals = [type_of(x, rng) for x in v.values()] or [int]
            return dict[str, _union(vals)]
        if isinstance(v, tuple):
            return tuple[tuple(type_of(x, rng) for x in v)] if v else tuple[()]
        return list[_union([type_of(x, rng) for x in v] or [int])]
    return type(v) if v is not None else type(None)


def _union(ts):
    out = []
    for t in ts:
        if t not in out:
            out.append(t)
    return out[0] if len(out) == 1 else ty.Union[tuple(out)]


ATOMS34 = [0, 3, "s", "f.txt", True, 2.5]


def gen_value34(rng, pool, depth):
    """Like c33.gen_value but homogeneous enough for pydra's type checker (dict keys are str)."""
    r = rng.random()
    if depth == 0 or r < 0.4:
        return rng.choice(pool) if rng.random() < 0.85 else rng.choice(ATOMS34)
    n = rng.choice([0, 1, 2, 2, 3])
    kind = rng.choice(["list", "list", "tuple", "dict"])
    items = [gen_value34(rng, pool, depth - 1) for _ in range(n)]
    if kind == "list":
        return items
    if kind == "tuple":
        return tuple(items)
    return {"k%d" % i: x for i, x in enumerate(items)}


def make_task(fields):
    """fields: [(type, copy_mode, collation, value)] -> an instance of a generated python task."""
    from pydra.compose import python
    names = ["a%d" % i for i in range(len(fields))]
    ns = {}
    exec("def Staged(%s) -> int:\n    return 0\n" % ", ".join(names), ns)
    inputs = {n: python.arg(type=t, copy_mode=m, copy_collation=c) for n, (t, m, c, _) in zip(names, fields)}
    cls = python.define(inputs=inputs)(ns["Staged"])
    return cls(**{n: f[3] for n, f in zip(names, fields)})


COQ_C34 = base.COQ_COMMON + r"""
Inductive ores := ORes (outs : list (value * nat)) (c1 : snap) (c2 : obs) (syms : list path) | OErr (e : oerr).
Definition case_t := (table * string * snap * list field * ores)%type.
Definition field_leaves (fields : list field) : list fileset := flat_map (fun fd => leaves (fd_value fd)) fields.
Definition out_eqb (a b : value * nat) : bool := value_eqb (fst a) (fst b) && Nat.eqb (snd a) (snd b).
Definition tie_ok (c : case_t) : bool :=
  let '(tab, dest, c0, fields, r) := c in
  match job_inputs ff_copy tab dest fields (fs_of c0), r with
  | Ok (outs, fs1, _), ORes outs' c1 c2 syms =>
      list_eqb out_eqb (map (fun o => (fst o, List.length (snd o))) outs) outs' && fs_matches dest fs1 c1
      && contents_match (write_all fs1 (field_leaves fields)) c2
      && list_eqb path_eqb (sort_paths (sym_dsts (flat_map snd outs))) (sort_paths syms)
  | Err e, OErr o => err_matches e o
  | _, _ => false
  end.
(* staging may fail only if some file of a staged field does not exist or its mode cannot be realised on the mounts *)
Definition ready_b (tab : table) (dest : string) (c0 : snap) (fields : list field) : bool :=
  forallb (fun fd => negb (is_staged fd) ||
     forallb (fun s => negb (ostr_eqb (look (strip c0) (snd s)) None)
                       && existsb (fun w => allowed w (fd_mode fd) && mount_ok_b tab dest w s) ways)
             (leaves (fd_value fd))) fields.
Definition spec_ok (c : case_t) : bool :=
  let '(tab, dest, c0, fields, r) := c in
  match r with
  | ORes outs' c1 c2 syms =>
      staged_b tab dest (strip c0) (strip c1) c2 fields outs'
      (* a symbolic link only where the field's mode allows one and the source is not on CIFS;
         a hard link / copy / left file is not a symbolic link *)
      && forallb (fun fo => let '(fd, o) := fo in
           negb (is_staged fd) ||
           forallb (fun sd => let '(s, d) := sd in
              if mem (snd d) syms then allowed Sym (fd_mode fd) && mount_ok_b tab dest Sym s
              else existsb (fun w => negb (way_eqb w Sym) && allowed w (fd_mode fd) && mount_ok_b tab dest w s
                                     && behaves_b w dest (strip c0) c2 s d) ways)
             (pairs_of (fd_value fd) (fst o))) (combine fields outs')
      (* no staged file bears a name the engine itself writes into the job directory *)
      && forallb (fun o => forallb (fun d => negb (String.eqb (fst (snd d)) dest)
                                             || negb (existsb (String.eqb (snd (snd d))) reserved_names))
                                   (leaves (fst o))) outs'
  | OErr _ => negb (ready_b tab dest c0 fields)
  end.
"""


def one_case(ctx, rng, basedir, spec=None):
    from fileformats.generic import FileSet
    from pydra.engine.job import Job
    from pydra.engine.submitter import Submitter
    from pydra.utils.general import get_fields, attrs_values
    from pydra.utils.typing import TypeParser
    from pydra.utils.mount_identifier import MountIndentifier as M
    import pydra.engine.job as jobmod

    sb = base.Sandbox(basedir)
    os.chdir("/tmp")
    try:
        modes = list(FileSet.CopyMode)
        colls = list(FileSet.CopyCollation)
        if spec is None:
            pool = base.gen_leaf_pool(rng, sb, rng.choice([2, 3, 4, 5]))
            flds = []
            for _ in range(rng.choice([1, 2, 2, 3, 4])):
                v = gen_value34(rng, pool, rng.choice([0, 0, 1, 2, 3]))
                t = ty.Any if rng.random() < 0.12 else type_of(v, rng)
                m = rng.choice(modes) if rng.random() < 0.8 else rng.choice([FileSet.CopyMode.copy, FileSet.CopyMode.link])
                flds.append((t, m, rng.choice(colls), v))
            table = base.gen_table(rng, sb)
        else:
            flds = []
            for f in spec["fields"]:
                v = base.rebuild(sb, f["value"])
                t = ty.Any if f.get("any") else type_of(v, rng)
                flds.append((t, FileSet.CopyMode[f["mode"]], FileSet.CopyCollation[f.get("collation", "any")], v))
            table = [(str(sb.root) + p[len("/T"):], t) for p, t in spec["table"]] if spec.get("table") is not None else None
        meta = {"fields": [{"value": base.describe(sb, v), "mode": m.name, "collation": c.name, "any": t is ty.Any}
                           for t, m, c, v in flds],
                "table": [[sb.canon(p), t] for p, t in table] if table is not None else None}
        try:
            task = make_task(flds)
        except Exception as e:  # the generated type does not accept the value: not a case
            meta.update(result="skipped", why="%s: %s" % (type(e).__name__, str(e)[:120]))
            return None, meta
        with Submitter(worker="debug", cache_root=sb.root / "cache") as sub:
            job = Job(task=task, submitter=sub, name="staged")
        sb.dest = Path(job.cache_dir)
        sb.dest_canon = "/T/JOB"
        sb.dest.mkdir(parents=True)
        # what a running job's directory holds when the inputs are staged (`_job.pklz` is written first),
        # sometimes also entries named like an input or like a counter name
        if spec is None:
            pre = ["_job.pklz"] if rng.random() < 0.6 else []
            if rng.random() < 0.15:
                lv = [Path(base.fsp(x)).name for _, _, _, v in flds for x in base.leaves_of(v)]
                pre = sorted(set(pre) | {rng.choice(lv + ["f (1).txt", "zz_unrelated"])})
        else:
            pre = spec.get("pre", [])
        for n in pre:
            (sb.dest / n).write_text("PRE")
        meta["pre"] = pre
        values = attrs_values(task)
        fields = [(f.name, bool(TypeParser.contains_type(FileSet, f.type)), f.copy_mode, values[f.name])
                  for f in get_fields(task)]
        leaves = [x for _, _, _, v in fields for x in base.leaves_of(v)]
        c0 = sb.snapshot()
        try:
            enc_fields = coqio.lst(["(mkfield %s %s %s)" % (
                coqio.boolean(g), mode_bits(FileSet.CopyMode[m] if isinstance(m, str) else m),
                base.enc_value(sb, v)) for _, g, m, v in fields])
        except base.OutOfModel as e:   # pydra's type coercion merged several paths into one file-set
            meta.update(result="skipped", why=str(e)[:120])
            return None, meta
        counts = []
        orig_cnf, orig_copy = jobmod.copy_nested_files, FileSet.copy
        ncalls = [0]

        def counting_copy(self, *a, **k):
            ncalls[0] += 1
            return orig_copy(self, *a, **k)

        def counting_cnf(*a, **k):
            before = ncalls[0]
            try:
                return orig_cnf(*a, **k)
            finally:
                counts.append((k.get("value", a[0] if a else None), ncalls[0] - before))

        err = None
        jobmod.copy_nested_files, FileSet.copy = counting_cnf, counting_copy
        try:
            with (M.patch_table(table) if table is not None else contextlib.nullcontext()):
                inputs = job.inputs
        except Exception as e:  # noqa: BLE001
            err = base.exc_kind(e)
            errtxt = "%s: %s" % (type(e).__name__, str(e)[:300].replace(str(sb.root), "/T"))
        finally:
            jobmod.copy_nested_files, FileSet.copy = orig_cnf, orig_copy
        names = [Path(base.fsp(x)).name for x in leaves]
        src_set = {base.fsp(x) for x in leaves}
        head = [base.enc_table(sb, table), coqio.string(sb.dest_canon), base.enc_snap(c0), enc_fields]
        meta["n_leaves"] = len(leaves)
        meta["gates"] = [g for _, g, _, _ in fields]
        if err is not None:
            meta.update(result="error", error=err, error_text=errtxt, nontrivial=False)
            return coqio.pair(*head, "(OErr %s)" % base.oerr(err)), meta
        outs, k = [], 0
        for name, g, m, v in fields:
            # the copy_nested_files calls were recorded in field order, with the value they were given
            if g and (v or isinstance(v, FileSet)) and k < len(counts) and counts[k][0] is v:
                n = counts[k][1]
                k += 1
            else:
                n = 0
            outs.append((inputs[name], n))
        if k != len(counts):
            outs = [(v, -1) for v, _ in outs]   # calls that match no field: cannot happen, shown as a tie failure
        c1 = sb.snapshot()
        syms = sb.symlinks()
        sb.modify_sources(sorted(src_set))
        c2 = sb.snapshot()
        staged_nonleave = any(base.fsp(x).startswith(str(sb.dest)) for _, _, _, v in [(0, 0, 0, inputs[f[0]]) for f in fields]
                              for x in base.leaves_of(v))
        meta.update(result="ok", outputs=[[base.describe(sb, v), n] for v, n in outs],
                    dest_listing=[x[0][1] for x in c1 if x[0][0] == sb.dest_canon],
                    nontrivial=bool(staged_nonleave and ((len(names) != len(set(names)) and len(src_set) > 1)
                                                         or len(leaves) != len(src_set))))
        meta["symlinks"] = ["/".join(p) for p in syms]
        term = coqio.pair(*head, "(ORes %s %s %s %s)" % (
            coqio.lst([coqio.pair(base.enc_value(sb, v), coqio.nat(max(n, 0)) if n >= 0 else "4999%nat") for v, n in outs]),
            base.enc_snap(c1), base.enc_obs2(c2), coqio.lst([base.enc_path(p) for p in syms])))
        return term, meta
    finally:
        sb.close()


def run(ctx):
    rng = ctx.rng
    basedir = tempfile.mkdtemp(prefix="verif-c34-", dir="/tmp")
    n = ctx.budget(200, 1500)
    # shared machine: also stop on a wall-clock limit (never below a floor); the evidence reports what was run
    limit = (60 if ctx.tier == "quick" else 330) * min(ctx.widen, 3)
    floor = 70 if ctx.tier == "quick" else 500
    cases, metas, skipped = [], [], 0
    try:
        for spec in ctx.corpus():
            t, m = one_case(ctx, rng, basedir, spec=spec)
            if t is not None:
                cases.append(t)
                metas.append(m)
        t0 = time.time()
        for i in range(n):
            if i >= floor and time.time() - t0 > limit:
                break
            t, m = one_case(ctx, rng, basedir)
            if t is None:
                skipped += 1
                continue
            cases.append(t)
            metas.append(m)
    finally:
        shutil.rmtree(basedir, ignore_errors=True)
    res = coqio.run_cases(ctx.scratch, "c34", IMPORTS, "case_t", cases, {"tie": "tie_ok", "spec": "spec_ok"},
                          extra=COQ_C34, shard=150)
    dist = {"ok": 0, "error_EUnsat": 0, "error_EExists": 0, "error_other": 0, "skipped_type_rejected": skipped,
            "with_mount_table": 0, "fields_not_staged_by_type": 0}
    seen, nontrivial = set(), 0
    for m in metas:
        if m["result"] == "ok":
            dist["ok"] += 1
        else:
            dist["error_" + m["error"] if m["error"] in ("EUnsat", "EExists") else "error_other"] += 1
        dist["with_mount_table"] += m["table"] is not None
        dist["fields_not_staged_by_type"] += sum(1 for f in m["fields"] if f["any"])
        for f in m["fields"]:
            dist["mode_" + f["mode"]] = dist.get("mode_" + f["mode"], 0) + 1
        key = repr((m["fields"], m["table"], m.get("pre")))
        if key not in seen:
            seen.add(key)
            nontrivial += bool(m.get("nontrivial"))
    out = Outcome(evaluations=len(metas), distinct_nontrivial=nontrivial, rule=RULE,
                  samples=[{k: m.get(k) for k in ("fields", "table", "result", "outputs")} for m in metas if m.get("nontrivial")][:4],
                  distribution=dist, traces_validated=len(metas))
    rf = base.reserved_names_failure()
    if rf is not None:
        out.failures.append(rf)
    spec_bad = set(res["spec"])
    for i in sorted(spec_bad)[:30]:
        m = metas[i]
        out.failures.append(Failure(
            case={"fields": m["fields"], "table": m["table"], "pre": m.get("pre", [])},
            observed={k: m.get(k) for k in ("result", "outputs", "error_text", "dest_listing")},
            expected="staged: shape kept; every file of a staged field realised in a way its copy mode and the mounts "
                     "permit (copy independent of the original, link shows it); one FileSet.copy per distinct file-set "
                     "of a field; no error when the files exist and the mode is realisable",
            kind="spec", finding=None,
            note="staging failed although realisable" if m["result"] == "error" else "staged result violates the spec"))
    for i in res["tie"][:10]:
        if i in spec_bad:
            continue
        m = metas[i]
        out.failures.append(Failure(case={"fields": m["fields"], "table": m["table"], "pre": m.get("pre", [])},
                                    observed={k: m.get(k) for k in ("result", "outputs", "error_text", "dest_listing")},
                                    expected="model: see --replay", kind="tie", note="model/impl"))
    return out


def replay(ctx, payload):
    basedir = tempfile.mkdtemp(prefix="verif-c34-", dir="/tmp")
    try:
        term, meta = one_case(ctx, ctx.rng, basedir, spec=payload["case"])
    finally:
        shutil.rmtree(basedir, ignore_errors=True)
    print("implementation:", {k: meta.get(k) for k in ("result", "outputs", "error_text", "dest_listing", "gates")})
    if term is None:
        return
    vals = coqio.eval_terms(ctx.scratch, "replay", IMPORTS, [
        "let '(tab, dest, c0, fields, r) := (%s : case_t) in "
        "match job_inputs ff_copy tab dest fields (fs_of c0) with "
        "| Ok (outs, fs1, _) => (Some (map (fun o => (fst o, List.length (snd o))) outs, f_ino fs1), None) "
        "| Err e => (None, Some e) end" % term,
        "tie_ok %s" % term, "spec_ok %s" % term], extra=COQ_C34)
    print("model (outputs with copy-call counts, paths->inodes | error):", vals[0])
    print("model = implementation:", vals[1])
    print("spec holds of the implementation's result:", vals[2])
