(* Model/FileHash.v — C09: pydra/utils/hash.py, the persistent file-hash cache.

   Part 1 (generic): hash_single's persistent-key branch + PersistentCache.get_or_calculate_hash,
     over an arbitrary file system, an arbitrary key projection K and an arbitrary content hash.
   Part 2 (concrete): a Unix file system (names, symlinks, a tree of directories of any depth
     given by a parent function on directory ids, inode table, hard links) with the operations of the property's alphabet, and the two key projections:
       K_pinned  = (type, paths, lstat mtime_ns of the paths)            -- before commit 39d1fa1f
       K_fixed   = (type, paths, (file, ino, mtime, ctime, size) of every file hashed) -- current code
   No proofs in this file. *)
From Pydra Require Import Base.Prelude.
Local Open Scope nat_scope.
Local Open Scope list_scope.

(* ------------------------------------------------------------------ association lists on nat *)
Fixpoint aget {A} (k : nat) (l : list (nat * A)) : option A :=
  match l with
  | [] => None
  | (k', v) :: r => if Nat.eqb k k' then Some v else aget k r
  end.
Fixpoint aset {A} (k : nat) (v : A) (l : list (nat * A)) : list (nat * A) :=
  match l with
  | [] => [(k, v)]
  | (k', v') :: r => if Nat.eqb k k' then (k, v) :: r else (k', v') :: aset k v r
  end.
Fixpoint adel {A} (k : nat) (l : list (nat * A)) : list (nat * A) :=
  match l with
  | [] => []
  | (k', v') :: r => if Nat.eqb k k' then adel k r else (k', v') :: adel k r
  end.

(* how a hash is requested:
   MFresh  hash_function(File(p))                 -> Cache() -> a new PersistentCache per call
   MObj    hash_object(File(p), persistent_cache=pc) with a PersistentCache object living in the process
   MTask   Task(x=File(p))._hash: _compute_hashes makes one Cache() per call, i.e. like MFresh *)
Inductive hmode := MFresh | MObj | MTask.

(* ================================================================== Part 1: the cache layers *)
Section CacheLayer.
  Variables FS Target Key Digest Fop : Type.
  Variable key_eqb : Key -> Key -> bool.
  Variable texists : Target -> FS -> bool.      (* File(p) / Directory(p) can be constructed *)
  Variable K : Target -> FS -> Key.             (* first item yielded by bytes_repr_fileset (+ type) *)
  Variable chash : Target -> FS -> Digest.      (* calc_hash(): blake2b over the chunks read now *)
  Variable fstep : FS -> Fop -> FS.

  Definition kv := list (Key * Digest).
  Fixpoint kv_get (k : Key) (l : kv) : option Digest :=
    match l with
    | [] => None
    | (k', d) :: r => if key_eqb k k' then Some d else kv_get k r
    end.

  (* c_store: the files in PersistentCache.location (shared by all processes);
     c_mems : per process, PersistentCache._hashes of its long-lived PersistentCache object *)
  Record cstate := mkC { c_store : kv; c_mems : list (nat * kv) }.
  Definition cempty : cstate := mkC [] [].
  Definition mem_of (p : nat) (ms : list (nat * kv)) : kv :=
    match aget p ms with Some m => m | None => [] end.

  (* get_or_calculate_hash: self._hashes, then the key file, then calculate + write file + memoise.
     A value read from the key file is returned without being memoised. *)
  Definition get_or_calc (mem store : kv) (k : Key) (calc : Digest) : Digest * kv * kv :=
    match kv_get k mem with
    | Some d => (d, mem, store)
    | None =>
        match kv_get k store with
        | Some d => (d, mem, store)
        | None => (calc, (k, calc) :: mem, (k, calc) :: store)
        end
    end.

  Definition do_hash (fs : FS) (cs : cstate) (proc : nat) (mode : hmode) (t : Target)
    : option Digest * cstate :=
    if texists t fs then
      let k := K t fs in
      let mem := match mode with MObj => mem_of proc (c_mems cs) | _ => [] end in
      let '(d, mem', store') := get_or_calc mem (c_store cs) k (chash t fs) in
      (Some d, mkC store' (match mode with MObj => (proc, mem') :: c_mems cs | _ => c_mems cs end))
    else (None, cs).

  Inductive gop :=
  | GFs (o : Fop)                                   (* a file-system operation (any process) *)
  | GHash (proc : nat) (mode : hmode) (t : Target)  (* a hash request in process proc *)
  | GCleanup.                                       (* PersistentCache.clean_up() removing every entry *)

  Definition gstep (st : FS * cstate) (g : gop) : (FS * cstate) * option (option Digest) :=
    let '(fs, cs) := st in
    match g with
    | GFs o => ((fstep fs o, cs), None)
    | GHash p m t => let '(out, cs') := do_hash fs cs p m t in ((fs, cs'), Some out)
    | GCleanup => ((fs, mkC [] (c_mems cs)), None)
    end.

  (* post-state and output of every step *)
  Fixpoint run_states (st : FS * cstate) (h : list gop) : list ((FS * cstate) * option (option Digest)) :=
    match h with
    | [] => []
    | g :: r => let x := gstep st g in x :: run_states (fst x) r
    end.

  Definition outs_of (l : list ((FS * cstate) * option (option Digest))) : list (option Digest) :=
    flat_map (fun x => match snd x with Some o => [o] | None => [] end) l.

  (* what the hash requests of a history return, starting with empty caches *)
  Definition outputs (fs0 : FS) (h : list gop) : list (option Digest) :=
    outs_of (run_states (fs0, cempty) h).

  Definition run_fs (fs : FS) (ops : list Fop) : FS := fold_left fstep ops fs.
End CacheLayer.

Arguments GFs {Target Fop} o.
Arguments GHash {Target Fop} proc mode t.
Arguments GCleanup {Target Fop}.
Arguments mkC {Key Digest} c_store c_mems.
Arguments c_store {Key Digest} c.
Arguments c_mems {Key Digest} c.

(* ================================================================== Part 2: the file system *)
Definition name := nat.
Definition ino := nat.
(* <root>/f<n>  |  <directory d>/f<n>; directories are identified by ids, their nesting is given by
   a parent function (directory d lives in directory p when parent d = Some p, in the root otherwise) *)
Inductive path := Top (n : name) | Sub (d : name) (n : name).

Record file := mkFile { f_content : string; f_mtime : nat; f_ctime : nat }.
Definition f_size (f : file) : nat := String.length (f_content f).

(* a name in the root: a link to a regular inode, or a symlink (target, lstat mtime of the link) *)
Inductive entry := EReg (i : ino) | ESym (q : path) (stamp : nat).
Record dirrec := mkDir { d_mtime : nat; d_ctime : nat; d_entries : list (name * ino) }.

Record fsys := mkFs {
  tops : list (name * entry);
  dirs : list (name * dirrec);
  itab : list (ino * file);
  clock : nat                      (* number of operations performed so far *)
}.
Definition fs_empty : fsys := mkFs [] [] [] 0.

Definition with_tops (s : fsys) (t : list (name * entry)) := mkFs t (dirs s) (itab s) (clock s).
Definition with_dirs (s : fsys) (d : list (name * dirrec)) := mkFs (tops s) d (itab s) (clock s).
Definition with_itab (s : fsys) (t : list (ino * file)) := mkFs (tops s) (dirs s) t (clock s).
Definition tick (s : fsys) := mkFs (tops s) (dirs s) (itab s) (S (clock s)).

Inductive node := NReg (i : ino) | NSym (q : path) (stamp : nat) | NNone | NErr.

(* lstat-like lookup: does not follow a symlink; NErr = the parent directory is missing *)
Definition lookup (s : fsys) (p : path) : node :=
  match p with
  | Top n => match aget n (tops s) with
             | Some (EReg i) => NReg i
             | Some (ESym q st) => NSym q st
             | None => NNone
             end
  | Sub d n => match aget d (dirs s) with
               | None => NErr
               | Some dr => match aget n (d_entries dr) with Some i => NReg i | None => NNone end
               end
  end.
(* stat/open-like lookup: follows symlinks; None = too many levels (a loop: ELOOP) *)
Fixpoint resolve_path_n (fuel : nat) (s : fsys) (p : path) : option path :=
  match fuel with
  | 0 => None
  | S f => match lookup s p with NSym q _ => resolve_path_n f s q | _ => Some p end
  end.
Definition resolve_path (s : fsys) (p : path) : option path := resolve_path_n 8 s p.
Definition resolve (s : fsys) (p : path) : node :=
  match resolve_path s p with Some q => lookup s q | None => NErr end.

Definition count_ino (i : ino) (l : list (name * ino)) : nat :=
  List.length (filter (fun e => Nat.eqb (snd e) i) l).
Definition refs (s : fsys) (i : ino) : nat :=
  List.length (filter (fun e => match snd e with EReg j => Nat.eqb j i | _ => false end) (tops s))
  + fold_right (fun d acc => count_ino i (d_entries (snd d)) + acc) 0 (dirs s).

(* namespace updates *)
Definition set_reg (s : fsys) (p : path) (i : ino) : fsys :=
  match p with
  | Top n => with_tops s (aset n (EReg i) (tops s))
  | Sub d n => match aget d (dirs s) with
               | Some dr => with_dirs s (aset d (mkDir (d_mtime dr) (d_ctime dr) (aset n i (d_entries dr))) (dirs s))
               | None => s
               end
  end.
Definition del_entry (s : fsys) (p : path) : fsys :=
  match p with
  | Top n => with_tops s (adel n (tops s))
  | Sub d n => match aget d (dirs s) with
               | Some dr => with_dirs s (aset d (mkDir (d_mtime dr) (d_ctime dr) (adel n (d_entries dr))) (dirs s))
               | None => s
               end
  end.
(* creating / removing / replacing a name stamps mtime and ctime of the directory holding it *)
Definition stamp_parent (t : nat) (s : fsys) (p : path) : fsys :=
  match p with
  | Top _ => s
  | Sub d _ => match aget d (dirs s) with
               | Some dr => with_dirs s (aset d (mkDir t t (d_entries dr)) (dirs s))
               | None => s
               end
  end.

(* inode updates; t is the kernel time of the operation and always becomes the ctime *)
Definition iset (t : nat) (i : ino) (c : string) (m : nat) (tab : list (ino * file)) :=
  aset i (mkFile c m t) tab.
Definition istamp (t : nat) (i : ino) (tab : list (ino * file)) :=
  match aget i tab with
  | Some f => aset i (mkFile (f_content f) (f_mtime f) t) tab
  | None => tab
  end.
(* a name of inode i went away: free it when that was the last one, else its link count changed *)
Definition idrop (t : nat) (s : fsys) (i : ino) : fsys :=
  with_itab s (if Nat.eqb (refs s i) 0 then adel i (itab s) else istamp t i (itab s)).

Definition path_eqb (a b : path) : bool :=
  match a, b with
  | Top n, Top m => Nat.eqb n m
  | Sub d n, Sub e m => Nat.eqb d e && Nat.eqb n m
  | _, _ => false
  end.
Definition live (s : fsys) (i : ino) : bool := match aget i (itab s) with Some _ => true | None => false end.

Inductive fop :=
| OWrite (p : path) (c : string) (newi : ino)   (* open(p,'wb').write(c); newi: inode number the kernel picks if it creates *)
| OUtime (p : path) (m : nat)                   (* os.utime(p, ns=(m, m)) *)
| ORename (src dst : path)                      (* os.replace(src, dst) *)
| OCopy (src dst : path) (newi : ino)           (* shutil.copy2(src, dst) *)
| OLink (src dst : path)                        (* os.link(src, dst) *)
| OUnlink (p : path)                            (* os.unlink(p) *)
| OSymlink (l : name) (q : path)                (* os.symlink(q, <root>/f<l>) *)
| OMkdir (d : name).                            (* os.mkdir(<root>/d<d>) *)

Section FsModel.
  (* now k: the kernel clock value stamped by the k-th operation *)
  Variable now : nat -> nat.
  (* where a directory id lives: Some p = inside directory p, None = in the root *)
  Variable parent : name -> option name.

  Definition create (t : nat) (s : fsys) (p : path) (i : ino) (c : string) (m : nat) : option fsys :=
    if live s i then None
    else Some (stamp_parent t (set_reg (with_itab s (iset t i c m (itab s))) p i) p).

  Definition op_write (t : nat) (s : fsys) (p : path) (c : string) (newi : ino) : option fsys :=
    match resolve s p with
    | NReg i => Some (with_itab s (iset t i c t (itab s)))
    | NNone => match resolve_path s p with Some q => create t s q newi c t | None => None end
    | _ => None
    end.

  Definition op_utime (t : nat) (s : fsys) (p : path) (m : nat) : option fsys :=
    match resolve s p with
    | NReg i => match aget i (itab s) with
                | Some f => Some (with_itab s (iset t i (f_content f) m (itab s)))
                | None => None
                end
    | _ => None
    end.

  Definition op_rename (t : nat) (s : fsys) (src dst : path) : option fsys :=
    if path_eqb src dst then None else
    match lookup s src, lookup s dst with
    | NReg i, NReg j =>
        if Nat.eqb i j then None      (* two names of one inode: rename does nothing *)
        else
          let s1 := set_reg (del_entry s src) dst i in
          let s2 := idrop t (with_itab s1 (istamp t i (itab s1))) j in
          Some (stamp_parent t (stamp_parent t s2 src) dst)
    | NReg i, NNone | NReg i, NSym _ _ =>
        let s1 := set_reg (del_entry s src) dst i in
        Some (stamp_parent t (stamp_parent t (with_itab s1 (istamp t i (itab s1))) src) dst)
    | NSym q st, NReg j =>
        match dst with
        | Top n => let s1 := with_tops (del_entry s src) (aset n (ESym q st) (tops (del_entry s src))) in
                   Some (idrop t s1 j)
        | Sub _ _ => None
        end
    | NSym q st, NNone | NSym q st, NSym _ _ =>
        match dst with
        | Top n => Some (with_tops (del_entry s src) (aset n (ESym q st) (tops (del_entry s src))))
        | Sub _ _ => None
        end
    | _, _ => None
    end.

  Definition op_copy (t : nat) (s : fsys) (src dst : path) (newi : ino) : option fsys :=
    match resolve s src with
    | NReg i =>
        match aget i (itab s) with
        | Some f =>
            match resolve s dst with
            | NReg j => if Nat.eqb i j then None     (* SameFileError *)
                        else Some (with_itab s (iset t j (f_content f) (f_mtime f) (itab s)))
            | NNone => match resolve_path s dst with
                       | Some q => create t s q newi (f_content f) (f_mtime f)
                       | None => None
                       end
            | _ => None
            end
        | None => None
        end
    | _ => None
    end.

  Definition op_link (t : nat) (s : fsys) (src dst : path) : option fsys :=
    match lookup s src, lookup s dst with
    | NReg i, NNone =>
        let s1 := set_reg s dst i in
        Some (stamp_parent t (with_itab s1 (istamp t i (itab s1))) dst)
    | _, _ => None
    end.

  Definition op_unlink (t : nat) (s : fsys) (p : path) : option fsys :=
    match lookup s p with
    | NReg i => Some (stamp_parent t (idrop t (del_entry s p) i) p)
    | NSym _ _ => Some (del_entry s p)
    | _ => None
    end.

  Definition op_symlink (t : nat) (s : fsys) (l : name) (q : path) : option fsys :=
    match lookup s (Top l) with
    | NNone => Some (with_tops s (aset l (ESym q t) (tops s)))
    | _ => None
    end.

  (* the directory holding the new one must exist, and gets its mtime/ctime stamped *)
  Definition op_mkdir (t : nat) (s : fsys) (d : name) : option fsys :=
    match aget d (dirs s) with
    | None =>
        match parent d with
        | None => Some (with_dirs s (aset d (mkDir t t []) (dirs s)))
        | Some p =>
            match aget p (dirs s) with
            | Some pr => Some (with_dirs s (aset d (mkDir t t []) (aset p (mkDir t t (d_entries pr)) (dirs s))))
            | None => None
            end
        end
    | Some _ => None
    end.

  Definition try_op (s : fsys) (o : fop) : option fsys :=
    let t := now (clock s) in
    match o with
    | OWrite p c ni => op_write t s p c ni
    | OUtime p m => op_utime t s p m
    | ORename a b => op_rename t s a b
    | OCopy a b ni => op_copy t s a b ni
    | OLink a b => op_link t s a b
    | OUnlink p => op_unlink t s p
    | OSymlink l q => op_symlink t s l q
    | OMkdir d => op_mkdir t s d
    end.

  (* an operation that fails (OSError) leaves the file system as it was; the clock counts it anyway *)
  Definition fstep (s : fsys) (o : fop) : fsys :=
    tick (match try_op s o with Some s' => s' | None => s end).
End FsModel.

(* ------------------------------------------------------------------ what is hashed *)
Inductive target := TFile (p : path) | TDir (d : name).   (* fileformats File(p) | Directory(d) *)

Definition target_exists (t : target) (s : fsys) : bool :=
  match t with
  | TFile p => match resolve s p with NReg i => live s i | _ => false end
  | TDir d => match aget d (dirs s) with Some _ => true | None => false end
  end.

(* relative name of a hashed file inside its fileset: (0, n) = file n directly in the target
   (the single file of a File is (0, 0)), (S x, n) = file n of the nested directory with id x *)
Definition rel := (nat * nat)%type.
Definition rel_leb (a b : rel) : bool :=
  Nat.ltb (fst a) (fst b) || (Nat.eqb (fst a) (fst b) && Nat.leb (snd a) (snd b)).
Fixpoint ins_rel (e : rel * ino) (l : list (rel * ino)) : list (rel * ino) :=
  match l with
  | [] => [e]
  | x :: r => if rel_leb (fst e) (fst x) then e :: x :: r else x :: ins_rel e r
  end.
Definition sort_rel (l : list (rel * ino)) : list (rel * ino) := fold_right ins_rel [] l.

(* directory x is the directory d or lies (at any depth) below it *)
Fixpoint under (parent : name -> option name) (fuel : nat) (d x : name) : bool :=
  Nat.eqb x d ||
  match fuel with
  | 0 => false
  | S f => match parent x with Some p => under parent f d p | None => false end
  end.

(* the files whose bytes enter the hash: (relative name, inode).  A Directory is walked
   recursively (os.walk): every regular file of the directory and of every directory below it. *)
Definition members (parent : name -> option name) (t : target) (s : fsys) : list (rel * ino) :=
  match t with
  | TFile p => match resolve s p with NReg i => [((0, 0), i)] | _ => [] end
  | TDir d =>
      match aget d (dirs s) with
      | Some _ =>
          sort_rel (flat_map (fun xd =>
                      if under parent 16 d (fst xd)
                      then map (fun e => ((if Nat.eqb (fst xd) d then 0 else S (fst xd), fst e), snd e))
                               (d_entries (snd xd))
                      else []) (dirs s))
      | None => []
      end
  end.

(* the content hash, kept symbolic: the type of the fileset and the (name, bytes) pairs that
   fileset.byte_chunks() yields.  blake2b of it is what pydra stores; nothing about blake2b is used. *)
Definition digest := (bool * list (rel * option string))%type.
Definition content_hash (parent : name -> option name) (t : target) (s : fsys) : digest :=
  (match t with TFile _ => false | TDir _ => true end,
   map (fun e => (fst e, option_map f_content (aget (snd e) (itab s)))) (members parent t s)).

(* key of the current code (hashed_file_stats): for every hashed file its inode, mtime, ctime, size *)
Definition kstat := (rel * ino * option (nat * nat * nat))%type.
Definition key := (target * list kstat)%type.
Definition K_fixed (parent : name -> option name) (t : target) (s : fsys) : key :=
  (t, map (fun e => (fst e, snd e,
                     option_map (fun f => (f_mtime f, f_ctime f, f_size f)) (aget (snd e) (itab s))))
          (members parent t s)).

(* a key that stats only the entries of a directory itself (files: as K_fixed; a nested directory:
   its own mtime/ctime), "a nested directory is covered by its own stat" — it is not *)
Definition K_shallow (parent : name -> option name) (t : target) (s : fsys) : key :=
  match t with
  | TFile _ => K_fixed parent t s
  | TDir d =>
      (t, flat_map (fun xd =>
             if Nat.eqb (fst xd) d
             then map (fun e => ((0, fst e), snd e,
                                 option_map (fun f => (f_mtime f, f_ctime f, f_size f)) (aget (snd e) (itab s))))
                      (d_entries (snd xd))
             else match parent (fst xd) with
                  | Some p => if Nat.eqb p d
                              then [((S (fst xd), 0), 0, Some (d_mtime (snd xd), d_ctime (snd xd), 0))]
                              else []
                  | None => []
                  end) (dirs s))
  end.

(* key before the repair: lstat().st_mtime_ns of the fileset's own paths *)
Definition lstat_mtime (t : target) (s : fsys) : option nat :=
  match t with
  | TFile p => match lookup s p with
               | NReg i => option_map f_mtime (aget i (itab s))
               | NSym _ st => Some st
               | _ => None
               end
  | TDir d => option_map d_mtime (aget d (dirs s))
  end.
Definition K_pinned (t : target) (s : fsys) : key :=
  (t, [((0, 0), 0, option_map (fun m => (m, 0, 0)) (lstat_mtime t s))]).

Definition target_eqb (a b : target) : bool :=
  match a, b with
  | TFile p, TFile q => path_eqb p q
  | TDir d, TDir e => Nat.eqb d e
  | _, _ => false
  end.
Definition triple_eqb (a b : nat * nat * nat) : bool :=
  let '(a1, a2, a3) := a in let '(b1, b2, b3) := b in Nat.eqb a1 b1 && Nat.eqb a2 b2 && Nat.eqb a3 b3.
Definition kstat_eqb (a b : kstat) : bool :=
  let '(n, i, x) := a in let '(m, j, y) := b in
  Nat.eqb (fst n) (fst m) && Nat.eqb (snd n) (snd m) && Nat.eqb i j && option_eqb triple_eqb x y.
Definition key_eqb (a b : key) : bool :=
  target_eqb (fst a) (fst b) && list_eqb kstat_eqb (snd a) (snd b).

(* the model of hashing histories with the current key, and with the key before the repair *)
Definition hist := list (@gop target fop).
Definition model_states (now : nat -> nat) (parent : name -> option name) (K : target -> fsys -> key) (h : hist) :=
  run_states fsys target key digest fop key_eqb target_exists K (content_hash parent) (fstep now parent)
             (fs_empty, cempty _ _) h.
Definition model_outputs (now : nat -> nat) (parent : name -> option name) (K : target -> fsys -> key) (h : hist)
  : list (option digest) :=
  outputs fsys target key digest fop key_eqb target_exists K (content_hash parent) (fstep now parent) fs_empty h.

(* ------------------------------------------------------------------ observations for the tie *)
Definition path_code (p : path) : nat := match p with Top n => n | Sub d n => 100 + 10 * d + n end.
(* (kind, ino | link target, content, mtime | link stamp, ctime, nlink); kind 0 absent, 1 regular, 2 symlink, 3 error *)
Definition snap := (nat * nat * string * nat * nat * nat)%type.
Definition snap_of (s : fsys) (p : path) : snap :=
  match lookup s p with
  | NReg i => match aget i (itab s) with
              | Some f => (1, i, f_content f, f_mtime f, f_ctime f, refs s i)
              | None => (3, i, EmptyString, 0, 0, 0)
              end
  | NSym q st => (2, path_code q, EmptyString, st, 0, 0)
  | NNone => (0, 0, EmptyString, 0, 0, 0)
  | NErr => (0, 0, EmptyString, 0, 0, 0)
  end.
Definition dsnap_of (s : fsys) (d : name) : nat * nat * nat :=
  match aget d (dirs s) with Some dr => (1, d_mtime dr, d_ctime dr) | None => (0, 0, 0) end.
Definition snap_eqb (a b : snap) : bool :=
  let '(a1, a2, a3, a4, a5, a6) := a in let '(b1, b2, b3, b4, b5, b6) := b in
  Nat.eqb a1 b1 && Nat.eqb a2 b2 && String.eqb a3 b3 && Nat.eqb a4 b4 && Nat.eqb a5 b5 && Nat.eqb a6 b6.
Definition digest_eqb (a b : digest) : bool :=
  Bool.eqb (fst a) (fst b) &&
  list_eqb (pair_eqb (pair_eqb Nat.eqb Nat.eqb) (option_eqb String.eqb)) (snd a) (snd b).
