"""C37 — DiGraph operations keep a valid topological order (pydra/engine/graph.py).

The driver applies generated histories of DiGraph calls to a real DiGraph of plain named node
objects, records the complete object state (or the exception) after the constructor and after
every call, and lets Coq evaluate, on exactly those histories,
  * tie  : Model.Graph.full_trace reproduces every observed state / exception, step by step;
  * spec : Spec.Graph.spec_ok — the observed order is a valid topological order (for the recorded
           predecessors always, for the edges inside the theorem's domain), nothing hangs, and a call
           that the reference reading requires to succeed did not raise.
"""
import json
import signal

from .lib import coqio
from .lib.runner import Outcome, Failure

PROP = "C37"
PROPS_FILE = "Props/C37.v"
MANIFEST = dict(
    text="Theorems (Coq, closed under the global context): C37_reachable — after the constructor and ANY list of "
         "add_nodes/add_edges/remove_nodes/remove_nodes_connections/remove_previous_connections/"
         "remove_successors_nodes/sorting/sorted_nodes/copy calls that all returned (add_nodes only given nodes that are "
         "not marked for removal and that no recorded edge points to), the recorded order lists every remaining node "
         "exactly once and puts the source of every edge between remaining nodes before its target; "
         "C37_reachable_preds — the same for the predecessors dictionary with no condition at all on the calls; "
         "C37_inv_step; C37_sorting_sound (sorting from any state whatsoever). No size bound, no acyclicity "
         "hypothesis (sorting raises on a cycle after repair F18). The model is tied to the code by replaying "
         "generated and exhaustively enumerated histories on a real DiGraph and comparing the full object state "
         "step by step inside Coq (vm_compute). Partial in one respect: that a well-formed call *succeeds* is proved "
         "for sorting and for construction histories (C18_sort_terminates_acyclic, C18_built_acyclic_sorts); for the "
         "removal operations: proved for remove_nodes (C37_wellformed_remove_nodes_succeeds, "
         "C37_wellformed_removals_never_raise: on a well-formed object a remove_nodes call meeting the computable "
         "precondition pre_opb returns, stays well-formed and leaves a valid order), for remove_nodes_connections and "
         "remove_previous_connections (C37_wellformed_remove_nodes_connections_succeeds, "
         "C37_wellformed_remove_previous_connections_succeeds) and for histories mixing the three "
         "(C37_wellformed_removal_history_never_raises); for remove_successors_nodes the analogous statement is "
         "machine-checked to be false (C37_wellformed_remove_successors_nodes_refuted: the call returns and keeps a "
         "valid order, but leaves a dangling connection of an already popped follower; same state on the "
         "implementation) and proved only for a node without successors "
         "(C37_wellformed_remove_successors_nodes_leaf_partial); the fuel of its traversal is proved irrelevant "
         "once sufficient (C37_successor_traversal_fuel_irrelevant) and its follower set is characterised "
         "(C37_followers_spec: exactly the graph's nodes met by the traversal, each once); otherwise the executable reference reading checks it "
         "(see design/C37.md).",
    note="Trusted: Coq kernel + vm_compute; hand-written model Model/Graph.v (nodes identified by name; a raising call "
         "ends the history); correspondence is differential testing.",
    technique="Coq proof (invariant over operation histories; soundness of the pass-wise sort from arbitrary state) + "
              "model/implementation correspondence on random and exhaustive-prefix histories",
    design="§8 Group D / C37",
)
TIE_NAME = "Model.Graph.full_trace (init/step) vs pydra.engine.graph.DiGraph"
TRUSTED = [
    "Model/Graph.v: hand-written model of DiGraph.__init__, nodes/edges setters, _create_connections, add_nodes, "
    "add_edges, sorting/_sorting, the sorted_nodes property, remove_nodes (head-of-list fast path and re-sorting "
    "path), remove_nodes_connections, remove_previous_connections, _checking_successors_nodes, "
    "remove_successors_nodes, copy",
    "modelled, not verified: node objects are identified by their name (one object per name); dictionaries are "
    "association lists in insertion order; exceptions are an enum; a call that raises ends the history (the partially "
    "mutated object is not modelled); RecursionError stands for any recursion deeper than the number of keys",
]
ASSUMPTIONS = ["node names are unique per node object (the harness uses a fixed pool of named objects)"]
RULE = ("histories = DiGraph(nodes, edges) followed by up to 12 calls on a pool of <= 6 named nodes: state-aware random "
        "generation (mostly valid calls incl. the remove_nodes+remove_nodes_connections protocol of test_graph.py, plus "
        "invalid ones: unknown nodes, back edges, self loops, duplicates, re-adding marked nodes) and an exhaustive "
        "enumeration of all call sequences of a fixed depth over a 25-call alphabet on 3 nodes from sampled base "
        "states; distinct = distinct (constructor, calls) JSON; non-trivial = at least 3 calls returned and some "
        "observed state has a recorded order of >= 2 nodes with >= 1 edge between remaining nodes")

IMPORTS = ["Model.Graph", "Spec.Graph"]
NPOOL = 6


class Hang(BaseException):
    pass


class Nd:
    __slots__ = ("name", "idx")

    def __init__(self, idx):
        self.idx = idx
        self.name = "n%d" % idx

    def __repr__(self):
        return self.name


def _alarm(signum, frame):
    raise Hang()


class Watch:
    """CPU-time watchdog (robust against a loaded machine): the graph code is pure Python."""

    def __init__(self, seconds=2.0):
        self.seconds = seconds

    def __enter__(self):
        self.old = signal.signal(signal.SIGVTALRM, _alarm)
        signal.setitimer(signal.ITIMER_VIRTUAL, self.seconds)

    def __exit__(self, *a):
        signal.setitimer(signal.ITIMER_VIRTUAL, 0)
        signal.signal(signal.SIGVTALRM, self.old)
        return False


def classify(exc):
    msg = str(exc)
    if isinstance(exc, RecursionError):
        return "ERecursion"
    if isinstance(exc, KeyError):
        return "EKey"
    if isinstance(exc, ValueError):
        if "Duplicate node names" in msg:
            return "EDupName"
        if "list.remove" in msg:
            return "ERemove"
        return "OOther"
    if type(exc) is Exception:
        if "can't be added to the graph" in msg:
            return "EEdgeNodes"
        if "is not present in the graph" in msg:
            return "ENotPresent"
        if "shouldn't be run, has to wait" in msg:
            return "ENotReady"
        if "cannot be sorted" in msg:
            return "ECycle"
    return "OOther"


def snapshot(g):
    return {
        "nodes": [n.idx for n in g._nodes],
        "edges": [[a.idx, b.idx] for a, b in g._edges],
        "preds": [[int(k[1:]), [n.idx for n in v]] for k, v in g.predecessors.items()],
        "succs": [[int(k[1:]), [n.idx for n in v]] for k, v in g.successors.items()],
        "sorted": None if g._sorted_nodes is None else [n.idx for n in g._sorted_nodes],
        "wip": [n.idx for n in g._node_wip],
    }


class Impl:
    """One real DiGraph driven call by call; `obs` is what the model has to reproduce."""

    def __init__(self, DiGraph, pool, nodes, edges):
        self.DiGraph, self.pool = DiGraph, pool
        self.obs = []
        self.g = None
        self.dead = False
        self._do(lambda: setattr(self, "g", DiGraph(name="g", nodes=[pool[i] for i in nodes],
                                                    edges=[(pool[a], pool[b]) for a, b in edges])))

    def _do(self, fn):
        try:
            with Watch():
                fn()
        except Hang:
            self.obs.append({"hang": True})
            self.dead = True
            return
        except Exception as e:  # noqa: BLE001 - every exception is an observation
            self.obs.append({"err": classify(e), "text": "%s: %s" % (type(e).__name__, str(e)[:120])})
            self.dead = True
            return
        self.obs.append(snapshot(self.g))

    def apply(self, op):
        p, g = self.pool, self.g
        k = op[0]

        def nodes_arg(ids, single):
            return p[ids[0]] if single and len(ids) == 1 else [p[i] for i in ids]

        if k == "add_nodes":
            fn = lambda: g.add_nodes(nodes_arg(op[1], op[2]))  # noqa: E731
        elif k == "add_edges":
            es = [(p[a], p[b]) for a, b in op[1]]
            fn = lambda: g.add_edges(es[0] if op[2] and len(es) == 1 else es)  # noqa: E731
        elif k == "remove_nodes":
            fn = lambda: g.remove_nodes(nodes_arg(op[1], op[3]), check_ready=op[2])  # noqa: E731
        elif k == "rnc":
            fn = lambda: g.remove_nodes_connections(nodes_arg(op[1], op[2]))  # noqa: E731
        elif k == "rpc":
            fn = lambda: g.remove_previous_connections(nodes_arg(op[1], op[2]))  # noqa: E731
        elif k == "rsn":
            fn = lambda: g.remove_successors_nodes(p[op[1]])  # noqa: E731
        elif k == "sort":
            fn = lambda: g.sorting()  # noqa: E731
        elif k == "get_sorted":
            fn = lambda: g.sorted_nodes  # noqa: E731
        elif k == "copy":
            fn = lambda: setattr(self, "g", g.copy())  # noqa: E731
        else:
            raise ValueError(op)
        self._do(fn)


# ------------------------------------------------------------------ generation
def gen_init(rng, n):
    k = rng.choice([0, 1, 2, 3, 3, 4, 4, 5, 6][: n + 3])
    k = min(k, n)
    nodes = rng.sample(range(n), k)
    if rng.random() < 0.04 and nodes:
        nodes.append(rng.choice(nodes))                       # duplicate name
    edges = []
    order = list(nodes)
    rng.shuffle(order)
    for i in range(len(order)):
        for j in range(i + 1, len(order)):
            if rng.random() < 0.3:
                edges.append([order[i], order[j]])
    if rng.random() < 0.05 and n:
        edges.append([rng.randrange(n), rng.randrange(n)])   # maybe unknown node / self loop / back edge
    if rng.random() < 0.05 and edges:
        edges.append(list(rng.choice(edges)))                 # duplicate edge
    return nodes, edges


def gen_op(rng, n, st, last):
    """One call chosen against the current implementation state `st` (a snapshot)."""
    nodes, wip = st["nodes"], st["wip"]
    keys = [k for k, _ in st["preds"]]
    preds = dict((k, v) for k, v in st["preds"])
    allids = list(range(n))
    single = rng.random() < 0.3
    # the documented protocol: remove_nodes(x) is followed by remove_nodes_connections(x)
    if last and last[0] == "remove_nodes" and rng.random() < 0.6:
        r = rng.random()
        if r < 0.75:
            return ["rnc", list(last[1]), single]
        if len(last[1]) == 1:
            return ["rsn", last[1][0]]
    r = rng.random()
    if r < 0.2:
        fresh = [i for i in allids if i not in nodes and i not in keys]
        cand = fresh if fresh and rng.random() < 0.93 else allids
        return ["add_nodes", rng.sample(cand, min(len(cand), rng.choice([1, 1, 1, 2]))), single]
    if r < 0.42:
        es = []
        for _ in range(rng.choice([1, 1, 1, 2])):
            if len(nodes) >= 2 and rng.random() < 0.95:
                a, b = rng.sample(nodes, 2)
                srt = st["sorted"]
                if srt and a in srt and b in srt and rng.random() < 0.9 and srt.index(a) > srt.index(b):
                    a, b = b, a                                # mostly forward edges: stays acyclic
                es.append([a, b])
            else:
                es.append([rng.choice(allids), rng.choice(allids)])
        return ["add_edges", es, single]
    if r < 0.64:
        ready = [i for i in nodes if not preds.get(i)]
        q = rng.random()
        if ready and q < 0.8:
            ids = rng.sample(ready, min(len(ready), rng.choice([1, 1, 1, 2])))
            if st["sorted"] and rng.random() < 0.5:
                ids = [i for i in st["sorted"] if i in ids]      # in sorted order: may hit the fast path
        elif nodes and q < 0.95:
            ids = rng.sample(nodes, min(len(nodes), rng.choice([1, 1, 2])))
        else:
            ids = [rng.choice(allids)]
        return ["remove_nodes", ids, rng.random() < 0.75, single]
    if r < 0.74:
        cand = wip if wip and rng.random() < 0.93 else allids
        return ["rnc", rng.sample(cand, min(len(cand), rng.choice([1, 1, 2]))), single]
    if r < 0.79:
        cand = wip if wip and rng.random() < 0.93 else allids
        return ["rpc", rng.sample(cand, min(len(cand), rng.choice([1, 1, 2]))), single]
    if r < 0.86:
        cand = wip if wip and rng.random() < 0.93 else allids
        return ["rsn", rng.choice(cand)]
    if r < 0.93:
        return ["get_sorted"]
    if r < 0.97:
        return ["sort"]
    return ["copy"]


def run_history(DiGraph, pool, init, ops):
    im = Impl(DiGraph, pool, init[0], init[1])
    done = []
    for op in ops:
        if im.dead:
            break
        im.apply(op)
        done.append(op)
    return done, im.obs


def gen_history(rng, DiGraph, pool, n, length):
    init = gen_init(rng, n)
    im = Impl(DiGraph, pool, init[0], init[1])
    ops, last = [], None
    while not im.dead and len(ops) < length:
        # an early sort makes the interesting paths (re-sorting, fast path) reachable
        op = ["get_sorted"] if (len(ops) == 0 and rng.random() < 0.7) else gen_op(rng, n, im.obs[-1], last)
        im.apply(op)
        ops.append(op)
        last = op
    return {"init": [init[0], init[1]], "ops": ops}, im.obs


def alphabet(n):
    al = []
    for i in range(n):
        al.append(["add_nodes", [i], False])
        al.append(["remove_nodes", [i], True, False])
        al.append(["remove_nodes", [i], False, False])
        al.append(["rnc", [i], False])
        al.append(["rpc", [i], False])
        al.append(["rsn", i])
        for j in range(n):
            if i != j:
                al.append(["add_edges", [[i, j]], False])
    al.append(["get_sorted"])
    return al


def enumerate_from(DiGraph, pool, init, prefix, depth, al, out):
    """All call sequences prefix+w, |w| <= depth, that are maximal (end at depth or at an exception)."""
    def rec(ops, d):
        done, obs = run_history(DiGraph, pool, init, ops)
        dead = len(obs) and ("err" in obs[-1] or "hang" in obs[-1])
        if d == 0 or dead:
            out.append(({"init": init, "ops": done}, obs))
            return
        for a in al:
            rec(ops + [a], d - 1)
    rec(list(prefix), depth)


# ------------------------------------------------------------------ Coq encoding
def enc_nodes(l):
    return coqio.lst([coqio.nat(i) for i in l])


def enc_edges(l):
    return coqio.lst([coqio.pair(coqio.nat(a), coqio.nat(b)) for a, b in l])


def enc_dict(d):
    return coqio.lst([coqio.pair(coqio.nat(k), enc_nodes(v)) for k, v in d])


def enc_op(op):
    k = op[0]
    if k == "add_nodes":
        return coqio.app("AddNodes", enc_nodes(op[1]))
    if k == "add_edges":
        return coqio.app("AddEdges", enc_edges(op[1]))
    if k == "remove_nodes":
        return coqio.app("RemoveNodes", enc_nodes(op[1]), coqio.boolean(op[2]))
    if k == "rnc":
        return coqio.app("RemoveNodesConnections", enc_nodes(op[1]))
    if k == "rpc":
        return coqio.app("RemovePreviousConnections", enc_nodes(op[1]))
    if k == "rsn":
        return coqio.app("RemoveSuccessorsNodes", coqio.nat(op[1]))
    return {"sort": "Sort", "get_sorted": "GetSorted", "copy": "Copy"}[k]


def enc_obs(o):
    if "hang" in o:
        return "OHang"
    if "err" in o:
        return "OOther" if o["err"] == "OOther" else coqio.app("OErr", o["err"])
    return coqio.app("OState", coqio.app(
        "mkG", enc_nodes(o["nodes"]), enc_edges(o["edges"]), enc_dict(o["preds"]), enc_dict(o["succs"]),
        coqio.option(None if o["sorted"] is None else enc_nodes(o["sorted"])), enc_nodes(o["wip"])))


def enc_case(case, obs):
    return coqio.pair(enc_nodes(case["init"][0]), enc_edges(case["init"][1]),
                      coqio.lst([enc_op(o) for o in case["ops"]]), coqio.lst([enc_obs(o) for o in obs]))


CASE_T = "(list node * list edge * list op * list obs)%type"


def nontrivial(case, obs):
    ok_calls = sum(1 for o in obs[1:] if "nodes" in o)
    if ok_calls < 3:
        return False
    for o in obs:
        if "nodes" in o and o["sorted"] and len(o["sorted"]) >= 2:
            if any(a in o["nodes"] and b in o["nodes"] for a, b in o["edges"]):
                return True
    return False


def finding_of(case, obs):
    """Classifier of the recorded findings (a predicate on the failing call and the state before it)."""
    if len(obs) < 2 or not ("err" in obs[-1] or "hang" in obs[-1]):
        return None
    return None   # F18, F37, F37b are repaired in /repo: nothing is excused


def run(ctx):
    from pydra.engine.graph import DiGraph
    import time
    rng = ctx.rng
    t_start = time.time()
    pool = [Nd(i) for i in range(NPOOL)]
    items = []                       # (case, obs, origin)
    for c in ctx.corpus():
        done, obs = run_history(DiGraph, pool, c["init"], c["ops"])
        items.append(({"init": c["init"], "ops": done}, obs, "corpus"))
    n_random = ctx.budget(900, 6000)
    for _ in range(n_random):
        n = rng.choice([3, 4, 5, 6, 6])
        case, obs = gen_history(rng, DiGraph, pool, n, rng.choice([4, 6, 8, 10, 12, 12]))
        items.append((case, obs, "random"))
    # exhaustive: every sequence of `depth` calls over the 25-call alphabet on 3 nodes, from sampled base states
    al = alphabet(3)
    depth = 2 if ctx.tier == "quick" else 3
    bases = [([[0, 1, 2], [[0, 1], [1, 2]]], [["get_sorted"]]),
             ([[0, 1, 2], [[0, 1], [0, 2]]], [["get_sorted"], ["remove_nodes", [0], True, False]]),
             ([[1, 0], [[1, 0]]], [])]
    nb = ctx.budget(2, 3)
    for _ in range(max(0, min(nb, 6) - len(bases))):
        case, _obs = gen_history(rng, DiGraph, pool, 3, rng.choice([1, 2, 3]))
        bases.append((case["init"], case["ops"]))
    exh = []
    for init, prefix in bases[:max(nb, 1) if ctx.tier == "quick" else len(bases)]:
        enumerate_from(DiGraph, pool, init, prefix, depth, al, exh)
    items += [(c, o, "exhaustive") for c, o in exh]

    t_gen = time.time() - t_start
    cases = [enc_case(c, o) for c, o, _ in items]
    t1 = time.time()
    res = coqio.run_cases(ctx.scratch, "c37", IMPORTS, CASE_T, cases, {"tie": "tie_ok", "spec": "spec_ok"})

    seen, nontriv = set(), 0
    dist = {"random": 0, "exhaustive": 0, "corpus": 0, "calls": 0, "calls_returned": 0, "hang": 0,
            "len_ge_8": 0, "resorted_states": 0}
    for c, o, origin in items:
        dist[origin] += 1
        dist["calls"] += len(c["ops"])
        dist["len_ge_8"] += len(c["ops"]) >= 8
        for x in o[1:]:
            if "nodes" in x:
                dist["calls_returned"] += 1
                dist["resorted_states"] += x["sorted"] is not None
        if "err" in o[-1]:
            dist["exc_" + o[-1]["err"]] = dist.get("exc_" + o[-1]["err"], 0) + 1
        if "hang" in o[-1]:
            dist["hang"] += 1
        for op in c["ops"]:
            dist["op_" + op[0]] = dist.get("op_" + op[0], 0) + 1
        key = json.dumps(c, sort_keys=True)
        if key not in seen:
            seen.add(key)
            nontriv += nontrivial(c, o)
    out = Outcome(evaluations=dist["calls"] + len(items), distinct_nontrivial=nontriv, rule=RULE,
                  samples=[{"case": c, "observed_last": o[-1]} for c, o, _ in items[len(ctx.corpus()):len(ctx.corpus()) + 3]],
                  distribution=dist, traces_validated=len(items),
                  extra={"seconds_generate_and_run_impl": round(t_gen, 1), "seconds_coq_cases": round(time.time() - t1, 1),
                         "exhaustive_depth": depth, "exhaustive_bases": len(bases), "alphabet": len(al)})
    for kind in ("spec", "tie"):
        for rank, i in enumerate(sorted(res[kind], key=lambda i: len(items[i][0]["ops"]))[:8]):
            c, o, _ = items[i]
            c2, o2 = shrink(DiGraph, pool, ctx, c, kind) if rank < 2 else (c, o)
            exp = model_values(ctx, c2, "x%s%d" % (kind, i))
            out.failures.append(Failure(
                case=c2, observed=o2, expected=exp, kind=kind,
                finding=finding_of(c2, o2) if kind == "spec" else None,
                note=("hang" if "hang" in o2[-1] else "valid-order / must-succeed reading violated")
                if kind == "spec" else "model/implementation"))
    return out


def check_one(ctx, case, obs, name):
    r = coqio.run_cases(ctx.scratch, name, IMPORTS, CASE_T, [enc_case(case, obs)], {"tie": "tie_ok", "spec": "spec_ok"})
    return {"tie": not r["tie"], "spec": not r["spec"]}


_shrink_n = [0]


def shrink(DiGraph, pool, ctx, case, kind):
    """Drop calls (keeping the last one) while the same check keeps failing; at most a few Coq calls."""
    best = case
    done, obs = run_history(DiGraph, pool, best["init"], best["ops"])
    best = {"init": best["init"], "ops": done}
    tries = 0
    i = 0
    while i < len(best["ops"]) - 1 and tries < 12:
        cand = {"init": best["init"], "ops": best["ops"][:i] + best["ops"][i + 1:]}
        d2, o2 = run_history(DiGraph, pool, cand["init"], cand["ops"])
        cand["ops"] = d2
        tries += 1
        _shrink_n[0] += 1
        if not check_one(ctx, cand, o2, "shr%d" % _shrink_n[0])[kind]:
            best, obs = cand, o2
        else:
            i += 1
    return best, obs


def model_values(ctx, case, name):
    try:
        v = coqio.eval_terms(ctx.scratch, name, IMPORTS, [
            "full_trace %s %s %s" % (enc_nodes(case["init"][0]), enc_edges(case["init"][1]),
                                     coqio.lst([enc_op(o) for o in case["ops"]]))])
        return {"model_trace": v[0]}
    except Exception as e:  # noqa: BLE001
        return {"model_trace": "unavailable: %s" % e}


def replay(ctx, payload):
    from pydra.engine.graph import DiGraph
    pool = [Nd(i) for i in range(NPOOL)]
    c = payload["case"]
    done, obs = run_history(DiGraph, pool, c["init"], c["ops"])
    print("constructor:", c["init"])
    for op, o in zip([["DiGraph"]] + done, obs):
        print("  %-40s -> %s" % (json.dumps(op), json.dumps(o)))
    case = {"init": c["init"], "ops": done}
    print("model:", model_values(ctx, case, "replay")["model_trace"])
    r = check_one(ctx, case, obs, "replaychk")
    print("tie (model reproduces the implementation):", r["tie"])
    print("spec (valid order / no hang / required calls succeed):", r["spec"])
    return 0 if r["spec"] else 1
