(* Base/SchedBase.v — data shared by the scheduling model and its specification (C14-C17):
   execution graphs, job identities, the start/finish event log. *)
From Pydra Require Import Base.Prelude.
Local Open Scope nat_scope.

Record node := mkNode { nid : nat; npreds : list nat; njobs : nat }.
Definition graph := list node.                     (* in graph.sorted_nodes order *)
Definition job := (nat * nat)%type.                (* node id, state index (0 for an unsplit node) *)

Definition job_eqb (a b : job) : bool := (fst a =? fst b) && (snd a =? snd b).
Definition mem_nat (x : nat) (l : list nat) : bool := existsb (Nat.eqb x) l.
Definition mem_job (x : job) (l : list job) : bool := existsb (job_eqb x) l.
Definition is_nil {A} (l : list A) : bool := match l with [] => true | _ => false end.

Fixpoint remove_nth {A} (i : nat) (l : list A) : list A :=
  match l, i with
  | [], _ => []
  | _ :: r, 0 => r
  | x :: r, S i' => x :: remove_nth i' r
  end.

Fixpoint find_node (g : graph) (n : nat) : option node :=
  match g with
  | [] => None
  | nd :: r => if nid nd =? n then Some nd else find_node r n
  end.
Definition njobs_of (g : graph) (n : nat) : nat :=
  match find_node g n with Some nd => njobs nd | None => 0 end.
Definition jobs_of (nd : node) : list job := map (fun i => (nid nd, i)) (seq 0 (njobs nd)).
Definition all_jobs (g : graph) : list job := flat_map jobs_of g.

(* start/finish log of the jobs: ELaunch = the worker is asked to run the job (asynchronous loop) /
   the body starts (sequential loop); EFinish = the job's future completes / the body returns *)
Inductive event := ELaunch (j : job) | EFinish (j : job) (ok : bool).

