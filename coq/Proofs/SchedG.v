(* Proofs/SchedG.v — what the invariant gives about the event log of run_async (C15, C16) and about
   runs that end by themselves (C14, C15 "every job", C17). *)
From Pydra Require Import Base.Prelude Base.SchedBase Model.Sched Spec.Sched Proofs.SchedA Proofs.SchedSpec Proofs.SchedB Proofs.SchedC Proofs.SchedD Proofs.SchedE Proofs.SchedF.
Local Open Scope nat_scope.

(* ------------------------------------------------------------------ log facts *)
Lemma safe_rev_suffix g l r : safe_rev g (l ++ r) -> safe_rev g r.
Proof. induction l as [|e l IH]; cbn; [auto|]. intros [_ H]; auto. Qed.

Lemma safe_rev_spec g tr : safe_rev g tr -> starts_after_upstream g (rev tr).
Proof.
  intros S l1 j l2 E q Hq.
  assert (E2 : tr = rev l2 ++ ELaunch j :: rev l1).
  { rewrite <- (rev_involutive tr), E, rev_app_distr. cbn. rewrite <- app_assoc. reflexivity. }
  rewrite E2 in S. apply safe_rev_suffix in S. cbn in S. destruct S as [S _].
  apply in_rev. apply S. exact Hq.
Qed.

Lemma flat_map_rev_length {A B} (f : A -> list B) l :
  List.length (flat_map f (rev l)) = List.length (flat_map f l).
Proof.
  induction l as [|e l IH]; [reflexivity|].
  cbn [rev flat_map]. rewrite flat_map_app, !app_length, IH. cbn [flat_map]. rewrite app_nil_r. lia.
Qed.
Lemma count_launch_rev l : count_launch (rev l) = count_launch l.
Proof. apply flat_map_rev_length. Qed.
Lemma count_finish_rev l : count_finish (rev l) = count_finish l.
Proof. apply flat_map_rev_length. Qed.

Lemma conc_rev_suffix k l r : conc_rev k (l ++ r) -> conc_rev k r.
Proof. induction l as [|e l IH]; [auto|]. cbn [app conc_rev]. intros [_ H]; auto. Qed.

Lemma conc_rev_spec k tr : conc_rev k tr -> concurrency_bounded k (rev tr).
Proof.
  intros C l1 l2 E.
  assert (E2 : tr = rev l2 ++ rev l1).
  { rewrite <- (rev_involutive tr), E, rev_app_distr. reflexivity. }
  rewrite E2 in C. apply conc_rev_suffix in C.
  rewrite <- (count_launch_rev l1), <- (count_finish_rev l1).
  destruct (rev l1) as [|e r]; [cbn; lia|]. destruct C as [C _]. exact C.
Qed.

Section Final.
Variable V : Type.
Variable body : nat -> nat -> list (list (option V)) -> V.
Variable fails : job -> bool.
Variable vr : variant.
Hypothesis F14 : fix14 vr = true.
Variable g : graph.
Hypothesis WF : wf_graph g.
Variable kmax : option nat.

Notation run := (run_async V body fails vr g kmax).
Notation LInv := (LInv V body fails vr g kmax).

Lemma inv orc fuel : LInv (o_final (run orc fuel)).
Proof. apply run_async_inv; assumption. Qed.

Theorem async_safety orc fuel : starts_after_upstream g (event_log (run orc fuel)).
Proof.
  unfold event_log. apply safe_rev_spec. apply (ti_safe _ _ _ _ _ _ _ _ _ _ (li_t _ _ _ _ _ _ _ (inv orc fuel))).
Qed.

Theorem async_at_most_once orc fuel : at_most_once (event_log (run orc fuel)).
Proof.
  unfold at_most_once, event_log.
  pose proof (li_t _ _ _ _ _ _ _ (inv orc fuel)) as T.
  rewrite (ti_fut _ _ _ _ _ _ _ _ _ _ T). apply (ti_nodup _ _ _ _ _ _ _ _ _ _ T).
Qed.

Theorem async_concurrency k orc fuel :
  fix16 vr = true -> kmax = Some k -> concurrency_bounded k (event_log (run orc fuel)).
Proof.
  intros F K. unfold event_log. apply conc_rev_spec.
  apply (ti_conc _ _ _ _ _ _ _ _ _ _ (li_t _ _ _ _ _ _ _ (inv orc fuel)) k F K).
Qed.

(* never an exception out of a poll once F14 is repaired *)
Theorem async_never_raises orc fuel : o_status (run orc fuel) <> Raised.
Proof.
  unfold run_async. generalize (ls_init V vr g kmax), (LInv_init V body fails vr F14 g WF kmax).
  revert orc. induction fuel as [|f IH]; intros orc ls I; cbn [run_loop]; [discriminate|].
  set (o := match orc with [] => (default_step, []) | o :: r => (o, r) end).
  destruct o as [o rest].
  pose proof (async_step_spec V body fails vr F14 g WF kmax o ls I) as S.
  unfold async_step in *.
  rewrite (gi_raised _ _ _ _ _ (li_g _ _ _ _ _ _ _ I)) in *.
  destruct (negb (loop_cond vr g ls)); [cbn; discriminate|].
  destruct (if is_nil (ls_tasks ls) && is_nil (ls_pending ls) then _ else _) as [[ss1 tasks1] stalled].
  destruct (raised ss1) eqn:R1.
  - exfalso. pose proof (gi_raised _ _ _ _ _ (li_g _ _ _ _ _ _ _ S)) as X. cbn in X. congruence.
  - destruct stalled; [cbn; discriminate|].
    destruct (launch vr kmax tasks1 (ls_futured ls) (ls_pending ls) (ls_trace ls) []) as [[[fut pend] tr] launched].
    destruct (match pend with [] => _ | _ :: _ => _ end) as [[[w2 pend2] errs2] tr2].
    destruct (poll vr g kmax w2 ss1) as [ss3 tasks3]. apply IH. exact S.
Qed.

End Final.
