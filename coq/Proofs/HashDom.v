(* Proofs/HashDom.v — computable (sufficient) checkers for the domains of the C08 theorems, with soundness
   proofs.  The correspondence run evaluates them on every generated value to report how many cases lie inside
   the theorems' domains; the Examples below use them to show the hypotheses are satisfiable. *)
From Coq Require Import Sorting.Permutation.
From Pydra Require Import Base.Prelude Base.PySort Model.Hash Spec.Hash Proofs.HashSort Proofs.HashCtx
     Proofs.HashInjStr Proofs.HashInj Proofs.HashOrder.
Local Open Scope list_scope.

Fixpoint nodupb {A} (eqb : A -> A -> bool) (l : list A) : bool :=
  match l with [] => true | x :: r => negb (existsb (eqb x) r) && nodupb eqb r end.

Lemma nodupb_sound {A} (eqb : A -> A -> bool) (Heq : forall x y, eqb x y = true <-> x = y) :
  forall l, nodupb eqb l = true -> NoDup l.
Proof.
  induction l as [|x l IH]; cbn; intros E; [constructor|].
  apply andb_true_iff in E. destruct E as [E1 E2]. constructor; auto.
  intros Hin. apply negb_true_iff in E1. assert (existsb (eqb x) l = true); [|congruence].
  apply existsb_exists. exists x. split; auto. now apply Heq.
Qed.

(* ------------------------------------------------------------------ inj_dom *)
Definition keyatomb (v : pyval) : bool :=
  match v with
  | VNone | VBool _ | VInt _ | VStr _ | VBytes _ => true
  | VFloat b => Nat.eqb (String.length b) 8
  | _ => false
  end.
Definition local_okb (v : pyval) : bool :=
  match v with
  | VNone | VBool _ | VInt _ | VStr _ | VBytes _ => true
  | VFloat b => Nat.eqb (String.length b) 8
  | VPath c _ => path_cls c
  | VList _ _ | VTuple _ _ | VSet _ _ | VFrozenset _ _ => true
  | VDict _ kvs => forallb keyatomb (map fst kvs)
  | VObj _ c _ => obj_cls c
  | VNd _ c dt _ _ => nd_cls c && nocolon dt
  | _ => false
  end.
Fixpoint inj_domb (f : nat) (v : pyval) : bool :=
  match f with 0 => false | S f' => local_okb v && forallb (inj_domb f') (subs v) end.

Lemma keyatomb_sound v : keyatomb v = true -> keyatom v.
Proof. destruct v; cbn; try discriminate; auto. apply Nat.eqb_eq. Qed.

Lemma local_okb_sound v : local_okb v = true -> local_ok v.
Proof.
  destruct v; cbn; try discriminate; auto.
  - apply Nat.eqb_eq.
  - intros E. rewrite Forall_forall. intros k Hk. apply keyatomb_sound. rewrite forallb_forall in E. auto.
  - intros E. now apply andb_true_iff in E.
Qed.

Lemma inj_domb_sound : forall f v, inj_domb f v = true -> inj_dom v.
Proof.
  induction f as [|f IH]; intros v E; [discriminate|]. cbn in E. apply andb_true_iff in E. destruct E as [E1 E2].
  constructor; [now apply local_okb_sound|]. intros x Hx. apply IH. rewrite forallb_forall in E2. auto.
Qed.

(* ------------------------------------------------------------------ sortable: keys all str, all bytes or all int *)
Fixpoint strs_of (ks : list pyval) : option (list string) :=
  match ks with
  | [] => Some []
  | VStr s :: r => option_map (cons s) (strs_of r)
  | _ => None
  end.
Fixpoint bytess_of (ks : list pyval) : option (list string) :=
  match ks with
  | [] => Some []
  | VBytes s :: r => option_map (cons s) (bytess_of r)
  | _ => None
  end.
Fixpoint ints_of (ks : list pyval) : option (list Z) :=
  match ks with
  | [] => Some []
  | VInt z :: r => option_map (cons z) (ints_of r)
  | _ => None
  end.
Definition keys_okb (ks : list pyval) : bool :=
  match strs_of ks, bytess_of ks, ints_of ks with
  | Some l, _, _ => nodupb String.eqb l
  | _, Some l, _ => nodupb String.eqb l
  | _, _, Some l => nodupb Z.eqb l
  | _, _, _ => false
  end.

Lemma strs_of_map ks l : strs_of ks = Some l -> ks = map VStr l.
Proof.
  revert l. induction ks as [|k ks IH]; intros l E; cbn in E; [inversion E; reflexivity|].
  destruct k; try discriminate. destruct (strs_of ks) as [l'|]; [|discriminate]. inversion E. cbn. f_equal. auto.
Qed.
Lemma bytess_of_map ks l : bytess_of ks = Some l -> ks = map VBytes l.
Proof.
  revert l. induction ks as [|k ks IH]; intros l E; cbn in E; [inversion E; reflexivity|].
  destruct k; try discriminate. destruct (bytess_of ks) as [l'|]; [|discriminate]. inversion E. cbn. f_equal. auto.
Qed.
Lemma ints_of_map ks l : ints_of ks = Some l -> ks = map VInt l.
Proof.
  revert l. induction ks as [|k ks IH]; intros l E; cbn in E; [inversion E; reflexivity|].
  destruct k; try discriminate. destruct (ints_of ks) as [l'|]; [|discriminate]. inversion E. cbn. f_equal. auto.
Qed.

Lemma keys_okb_sound ks : keys_okb ks = true -> keys_ok ks.
Proof.
  unfold keys_okb. intros E.
  destruct (strs_of ks) as [l|] eqn:E1.
  { apply strs_of_map in E1. subst ks. split.
    - apply FinFun.Injective_map_NoDup; [intros a b Hab; now inversion Hab|].
      apply (nodupb_sound String.eqb String.eqb_eq); auto.
    - exists is_str. split; [exact ordered_str|]. rewrite Forall_forall. intros x Hx.
      apply in_map_iff in Hx. destruct Hx as (s & <- & _). now eexists. }
  destruct (bytess_of ks) as [l|] eqn:E2.
  { apply bytess_of_map in E2. subst ks. split.
    - apply FinFun.Injective_map_NoDup; [intros a b Hab; now inversion Hab|].
      apply (nodupb_sound String.eqb String.eqb_eq); auto.
    - exists is_bytes. split; [exact ordered_bytes|]. rewrite Forall_forall. intros x Hx.
      apply in_map_iff in Hx. destruct Hx as (s & <- & _). now eexists. }
  destruct (ints_of ks) as [l|] eqn:E3; [|discriminate].
  apply ints_of_map in E3. subst ks. split.
  - apply FinFun.Injective_map_NoDup; [intros a b Hab; now inversion Hab|].
    apply (nodupb_sound Z.eqb Z.eqb_eq); auto.
  - exists is_int. split; [exact ordered_int|]. rewrite Forall_forall. intros x Hx.
    apply in_map_iff in Hx. destruct Hx as (s & <- & _). now eexists.
Qed.

Definition sort_okb (v : pyval) : bool :=
  match v with
  | VSet _ l | VFrozenset _ l => keys_okb l
  | VDict _ kvs => keys_okb (map fst kvs)
  | VObj _ _ ats => keys_okb (map (fun a : string * pyval => VStr (fst a)) ats)
  | _ => true
  end.
Fixpoint sortableb (f : nat) (v : pyval) : bool :=
  match f with 0 => false | S f' => sort_okb v && forallb (sortableb f') (subs v) end.

Lemma sortableb_sound : forall f v, sortableb f v = true -> sortable v.
Proof.
  induction f as [|f IH]; intros v E; [discriminate|]. cbn in E. apply andb_true_iff in E. destruct E as [E1 E2].
  constructor.
  - destruct v; cbn in E1 |- *; auto; now apply keys_okb_sound.
  - intros x Hx. apply IH. rewrite forallb_forall in E2. auto.
Qed.

(* ------------------------------------------------------------------ no reference cycle *)
Fixpoint norefb (f : nat) (v : pyval) : bool :=
  match f with
  | 0 => false
  | S f' => match v with VRef _ => false | _ => forallb (norefb f') (subs v) end
  end.

(* the three domains on one value, as the correspondence run reports them *)
Definition in_domains (v : pyval) : bool * bool * bool :=
  let f := S (vdepth v) in (norefb f v, sortableb f v, inj_domb f v).
