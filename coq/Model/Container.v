(* Model/Container.v — pydra/environments/base.py Container.get_bindings, docker.py Docker.execute,
   singularity.py Singularity.execute (argument vector handed to pydra.environments.base.execute).

   bindings is a Python dict keyed by the host directory (a Path, compared in normalised form):
   an insertion-ordered association list, a later write to an existing key keeps the position and
   replaces the value.  Each file value v of a FileSet-typed field is mapped by map_path:
       host = v.parent ; env = Path(root + str(host)) ; result = env / v.name
   and bindings[host] = (env, rw) with rw = copy_file or outarg, or already rw (since the fix commits).
   Last, bindings[cache_root] = (root.rstrip('/') + cache_root, rw).  The command is
   job.task._command_args(values updated with the mapped paths); _command_args itself belongs to
   C22-C25 and is represented by the template the harness extracts from it (tokens made of literal
   pieces and references to the i-th path of a field). *)
From Pydra Require Import Base.Prelude Base.PyPath.
Local Open Scope string_scope.
Local Open Scope list_scope.
Local Infix "^^" := String.append (at level 60, right associativity).

Inductive fvalue := VNone | VOne (p : string) | VMany (ps : list string).

Record field := {
  f_name : string;
  f_fileset : bool;      (* TypeParser.contains_type(FileSet, fld.type) *)
  f_rw : bool;           (* fld.copy_mode == copy  or  isinstance(fld, shell.outarg) *)
  f_value : fvalue       (* job.inputs[fld.name]: absolute host path(s), None, or a non-path value (VNone) *)
}.

Definition binding := (string * (string * bool))%type.     (* host dir, (dir in the container, read-write?) *)
Definition bindings := list binding.

Fixpoint b_lookup (k : string) (b : bindings) : option (string * bool) :=
  match b with [] => None | (k', v) :: r => if String.eqb k k' then Some v else b_lookup k r end.

Fixpoint b_set (b : bindings) (k : string) (v : string * bool) : bindings :=
  match b with
  | [] => [(k, v)]
  | (k', v') :: r => if String.eqb k k' then (k', v) :: r else (k', v') :: b_set r k v
  end.

(* pathlib *)
Definition path_parent (p : ppath) : ppath := {| p_anchor := p_anchor p; p_comps := removelast (p_comps p) |}.
Definition path_name (p : ppath) : list ascii := last (p_comps p) [].
Definition path_join (p : ppath) (name : list ascii) : ppath :=
  {| p_anchor := p_anchor p; p_comps := p_comps p ++ (if keep_comp name then [name] else []) |}.
Definition pstr (p : ppath) : string := str_of (render p).
Definition ppath_of (s : string) : ppath := parse (la_of s).

(* root.rstrip('/') *)
Fixpoint lstrip_slash (l : list ascii) : list ascii :=
  match l with c :: r => if Ascii.eqb c slash then lstrip_slash r else l | [] => [] end.
Definition rstrip_slash (s : string) : string := str_of (rev (lstrip_slash (rev (la_of s)))).

(* map_path for one path-like value; [keep_rw] distinguishes the tree before the mode fix *)
Definition map_path (keep_rw : bool) (root : string) (rw : bool) (b : bindings) (v : string) : bindings * string :=
  let pv := ppath_of v in
  let host := path_parent pv in
  let envp := ppath_of (root ^^ pstr host) in
  let rw' := rw || (keep_rw && match b_lookup (pstr host) b with Some (_, true) => true | _ => false end) in
  (b_set b (pstr host) (pstr envp, rw'), pstr (path_join envp (path_name pv))).

Fixpoint map_paths (keep_rw : bool) (root : string) (rw : bool) (b : bindings) (vs : list string)
  : bindings * list string :=
  match vs with
  | [] => (b, [])
  | v :: r => let '(b1, m) := map_path keep_rw root rw b v in
              let '(b2, ms) := map_paths keep_rw root rw b1 r in (b2, m :: ms)
  end.

Definition truthy (v : fvalue) : bool :=
  match v with VNone => false | VOne _ => true | VMany [] => false | VMany _ => true end.

(* the loop over get_fields(job.task): bindings and value_updates (field name -> new value) *)
Fixpoint scan_fields (keep_rw : bool) (root : string) (fs : list field) (b : bindings)
  : bindings * list (string * fvalue) :=
  match fs with
  | [] => (b, [])
  | f :: r =>
      if f_fileset f && truthy (f_value f) then
        match f_value f with
        | VOne p => let '(b1, m) := map_path keep_rw root (f_rw f) b p in
                    let '(b2, ups) := scan_fields keep_rw root r b1 in (b2, (f_name f, VOne m) :: ups)
        | VMany ps => let '(b1, ms) := map_paths keep_rw root (f_rw f) b ps in
                      let '(b2, ups) := scan_fields keep_rw root r b1 in (b2, (f_name f, VMany ms) :: ups)
        | VNone => scan_fields keep_rw root r b
        end
      else scan_fields keep_rw root r b
  end.

Definition get_bindings (keep_rw : bool) (root : string) (fs : list field) (cache_root : string)
  : bindings * list (string * fvalue) :=
  let '(b, ups) := scan_fields keep_rw root fs [] in
  (b_set b cache_root (rstrip_slash root ^^ cache_root, true), ups).

(* values = copy(job.inputs); values.update(value_updates) *)
Definition values := list (string * fvalue).
Fixpoint v_lookup (k : string) (vs : values) : fvalue :=
  match vs with [] => VNone | (k', v) :: r => if String.eqb k k' then v else v_lookup k r end.
Definition inputs_of (fs : list field) : values := map (fun f => (f_name f, f_value f)) fs.
(* the updates are consulted first: every updated name is a field name *)
Definition updated (fs : list field) (ups : values) : values := ups ++ inputs_of fs.

(* _command_args as extracted by the harness *)
Inductive piece := Lit (s : string) | Ref (fld : string) (idx : nat).
Definition token := list piece.
Definition nth_path (v : fvalue) (i : nat) : string :=
  match v with VNone => "" | VOne p => match i with 0 => p | _ => "" end | VMany ps => nth i ps "" end.
Definition inst_piece (vs : values) (p : piece) : string :=
  match p with Lit s => s | Ref f i => nth_path (v_lookup f vs) i end.
Definition inst_token (vs : values) (t : token) : string := fold_right String.append "" (map (inst_piece vs) t).
Definition instantiate (vs : values) (tmpl : list token) : list string := map (inst_token vs) tmpl.

Definition mode_str (rw : bool) : string := if rw then "rw" else "ro".
Definition mount_arg (b : binding) : string := fst b ^^ ":" ^^ fst (snd b) ^^ ":" ^^ mode_str (snd (snd b)).
Definition mount_args (flag : string) (b : bindings) : list string := flat_map (fun x => [flag; mount_arg x]) b.

Inductive runtime := Docker | Singularity.
Record config := {
  c_runtime : runtime; c_image : string; c_tag : string; c_root : string; c_xargs : list string;
  c_cache_root : string;        (* str(job.cache_root), absolute *)
  c_cache_dir : string          (* str(job.cache_dir.absolute()) *)
}.

Definition runtime_words (r : runtime) : list string :=
  match r with Docker => ["docker"; "run"] | Singularity => ["singularity"; "exec"] end.
Definition mount_flag (r : runtime) : string := match r with Docker => "-v" | Singularity => "-B" end.
Definition wd_flag (r : runtime) : string := match r with Docker => "-w" | Singularity => "--pwd" end.

(* Docker.execute / Singularity.execute: the vector handed to base.execute *)
Definition container_argv (c : config) (fs : list field) (tmpl : list token) : list string :=
  let '(b, ups) := get_bindings true (c_root c) fs (c_cache_root c) in
  runtime_words (c_runtime c) ++ c_xargs c ++ mount_args (mount_flag (c_runtime c)) b ++
  [wd_flag (c_runtime c); rstrip_slash (c_root c) ^^ c_cache_dir c] ++
  [c_image c ^^ ":" ^^ c_tag c] ++ instantiate (updated fs ups) tmpl.

Definition native_argv (fs : list field) (tmpl : list token) : list string := instantiate (inputs_of fs) tmpl.

(* ---- the pinned tree, before the fix commits (kept for the refutation lemmas) ---- *)
(* " ".join(f"-v {k}:{e}:{m}" ...).split()  — str.split() on ASCII whitespace *)
Definition is_space (c : ascii) : bool :=
  let n := nat_of_ascii c in (Nat.leb 9 n && Nat.leb n 13) || (Nat.leb 28 n && Nat.leb n 32).
Fixpoint py_split (l cur : list ascii) : list string :=
  match l with
  | [] => match cur with [] => [] | _ => [str_of (rev cur)] end
  | c :: r => if is_space c then match cur with [] => py_split r [] | _ => str_of (rev cur) :: py_split r [] end
              else py_split r (c :: cur)
  end.
Definition mount_args_pinned (flag : string) (b : bindings) : list string :=
  py_split (la_of (fold_right (fun x acc => flag ^^ " " ^^ mount_arg x ^^ match acc with "" => "" | _ => " " ^^ acc end) "" b)) [].
Definition container_argv_pinned (c : config) (fs : list field) (tmpl : list token) : list string :=
  let '(b, ups) := get_bindings false (c_root c) fs (c_cache_root c) in
  runtime_words (c_runtime c) ++ c_xargs c ++ mount_args_pinned (mount_flag (c_runtime c)) b ++
  [wd_flag (c_runtime c); (match c_runtime c with Docker => c_root c | Singularity => rstrip_slash (c_root c) end) ^^ c_cache_dir c] ++
  [c_image c ^^ ":" ^^ c_tag c] ++ instantiate (updated fs ups) tmpl.
