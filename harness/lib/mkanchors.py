"""Record the fingerprints of every anchored source file of /repo's current tree in /verif/anchors.json.
Run by hand after model and theorems have been validated against that tree; never at check time."""
import json, os
from harness.lib import runner
def main():
    files = set()
    for line in open(os.path.join(runner.VERIF, "properties.jsonl")):
        d = json.loads(line)
        files |= {x for x in d.get("anchors", {}).get("files", []) if x.endswith(".py")}
    out = {rel: runner.fingerprint(os.path.join("/repo", rel)) for rel in sorted(files)}
    json.dump(out, open(os.path.join(runner.VERIF, "anchors.json"), "w"), indent=1)
    print(len(out), "files")
if __name__ == "__main__":
    main()
