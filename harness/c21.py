"""C21 — accepted lazy connections are honoured at run time (pydra/utils/typing.py TypeParser.check_type vs
TypeParser.coerce).  Types, values, encoders and the world of temp files are shared with c20.py."""
import json

from .lib import coqio
from .lib.runner import Outcome, Failure
from . import c20
from .c20 import (World, t_py, t_coq, t_norm, t_str, t_has, v_norm, v_py, enc, enc_obs, observe, show, show_obs,
                  gen_type, gen_value, sibling, Unencodable)

PROP = "C21"
PROPS_FILE = "Props/C21.v"
MANIFEST = dict(
    text="Coq theorem C21_partial over the models of TypeParser.check_type (expand_and_check, superclass_auto_cast off) "
         "and TypeParser.coerce instantiated with the live coercion tables: if check_type accepts S -> T, S is not the "
         "unchecked typing.Any, and T's set-item / dict-key types are hashable ones, then every value conforming to S "
         "whose collections match T's fixed tuple lengths is not rejected by coerce T (in a file system where the "
         "named paths suit the formats); C21_refuted_unhashable shows the excluded class is a real static-accept / "
         "run-time-reject defect (finding F21b: list[list[int]] -> set[list[int]]). Partial: the statement at full "
         "strength is false on the tree. (Finding F21a, collections accepted into bytes, is repaired.)",
    note="Trusted: Coq kernel + vm_compute; hand-written models of expand_and_check and expand_and_coerce (tables "
         "translated from the live source); superclass_auto_cast=True static checking is not modelled; file "
         "existence/format is an explicit hypothesis of the theorem; correspondence is differential testing.",
    technique="Coq proof by induction on the target type over translated live tables + model/impl correspondence "
              "(check_type on generated type pairs, coerce on values drawn from the source type) via generated cases.v",
    design="§8 Group E / C21",
)
TIE_NAME = "Model.Typing.check_type vs TypeParser(T).check_type(S) (and coerce vs TypeParser(T)(v))"
TRUSTED = c20.TRUSTED + [
    "Model/Typing.v check / check_type: hand-written model of TypeParser.check_type / expand_and_check / check_basic / "
    "check_union / check_tuple / check_sequence / check_mapping with superclass_auto_cast=False, match_any_of_union=False",
]
ASSUMPTIONS = c20.ASSUMPTIONS + [
    "the static check is the one made with superclass_auto_cast=False (the property's 'without relying on permissive "
    "super-to-sub-class casting'); StateArray / lazy-field plumbing around check_type is not modelled",
]
RULE = ("(S, T, v): source type S from the grammar, target T = S, a sibling of S, a sibling of a sibling or an "
        "unrelated type; up to 3 values drawn from S per pair; distinct = distinct (S, T) pairs; non-trivial = "
        "the static check accepts a pair with S != T and S != Any (the cases the property speaks about), or rejects a "
        "pair whose T is a sibling of S")
IMPORTS = c20.IMPORTS


def generate_coq(ctx):
    c20.generate_coq(ctx)


FILEISH = ("File", "TextFile", "Directory")


def gen_pair(rng):
    S = gen_type(rng, rng.choice([0, 1, 1, 2, 2, 3]))
    r = rng.random()
    if r < 0.15:
        T, rel = S, "same"
    elif r < 0.55:
        T, rel = sibling(rng, S), "sibling"
    elif r < 0.75:
        T, rel = sibling(rng, sibling(rng, S)), "sibling2"
    else:
        T, rel = gen_type(rng, rng.choice([0, 1, 2])), "unrelated"
    return S, T, rel


def safe_value(rng, S, T):
    """A value of S; when T mentions exactly one kind of file format, strings and paths inside it name files
    that format accepts (DESIGN: 'File existence checks are satisfied by creating the files')."""
    ts = t_str(T)
    want_dir = "Directory" in ts
    want_file = "File" in ts            # File or TextFile
    if want_dir == want_file:           # neither, or both: nothing to arrange
        return gen_value(rng, S)
    saved = (c20.STRS, c20.PATHS, c20.FILES)
    try:
        if want_dir:
            c20.STRS = ["$R/d", "$R"]
            c20.PATHS = ["$R/d", "$R"]
        else:
            c20.STRS = ["$R/a.txt", "$R/c.txt", "$R//c.txt"]
            c20.PATHS = ["$R/a.txt", "$R/c.txt"]
            c20.FILES = {"File": ["$R/a.txt", "$R/c.txt"], "TextFile": ["$R/a.txt", "$R/c.txt"], "Directory": ["$R/d", "$R"]}
        return gen_value(rng, S)
    finally:
        c20.STRS, c20.PATHS, c20.FILES = saved


SEEDS = [
    # (S, T, [values])
    (("list", ("base", "int")), ("base", "bytes"), [("list", (("int", 1), ("int", 300)))]),
    (("list", ("list", ("base", "int"))), ("set", False, ("list", ("base", "int"))), [("list", (("list", (("int", 1),)),))]),
    (("dict", ("tuplevar", ("base", "int")), ("base", "int")), ("dict", ("list", ("base", "int")), ("base", "int")),
     [("dict", ((("tuple", (("int", 1),)), ("int", 2)),))]),
    (("list", ("base", "Any")), ("set", True, ("base", "Any")), [("list", (("list", ()),))]),
    (("multi", ("base", "str")), ("multi", ("base", "bytes")), [("list", (("str", "a"),))]),
    (("base", "str"), ("union", (("base", "File"), ("base", "str"))), [("str", "abc")]),
    (("union", (("base", "Directory"), ("base", "Path"))), ("union", (("base", "Directory"), ("base", "Path"))),
     [("path", "$R/missing.txt")]),
    (("list", ("base", "int")), ("tuple", (("base", "int"), ("base", "int"))), [("list", (("int", 1), ("int", 2))), ("list", (("int", 1),))]),
    (("set", False, ("base", "str")), ("multi", ("base", "str")), [("set", (("str", "a"), ("str", "b")))]),
    (("dict", ("base", "str"), ("base", "int")), ("multi", ("base", "Any")), [("dict", ((("str", "k"), ("int", 1)),))]),
    (("base", "Any"), ("base", "int"), [("str", "a")]),
    (("union", (("base", "int"), ("base", "str"))), ("multi", ("union", (("base", "int"), ("base", "str")))), [("str", "ab"), ("int", 3)]),
]

EXTRA = """
Definition vcase := (val * result val)%type.
Definition case_t := (ty * ty * result unit * list vcase)%type.
Definition is_ok {A} (r : result A) : bool := match r with Ok _ => true | Err _ => false end.
Definition is_any (s : ty) : bool := match s with TBase KAny => true | _ => false end.
Definition tie_static (c : case_t) : bool := let '(s, t, st, vs) := c in res_unit_eqb (check_type live t s) st.
Definition tie_dynamic (c : case_t) : bool :=
  let '(s, t, st, vs) := c in forallb (fun p => res_tie (coerce live W false t (fst p)) (snd p)) vs.
(* the premises of the property on one value *)
Definition premise (s t : ty) (st : result unit) (v : val) : bool :=
  is_ok st && negb (is_any s) && conformsb live s v && arity_ok t v.
(* the run-time rejection is the file system's doing: the same coercion succeeds where every path suits every
   format (and the model agrees with the implementation on this value) *)
Definition world_excuse (t : ty) (p : vcase) : bool :=
  is_ok (coerce live W_all false t (fst p)) && res_equiv (coerce live W false t (fst p)) (snd p).
Definition viol (s t : ty) (st : result unit) (p : vcase) : bool :=
  premise s t st (fst p) && negb (is_ok (snd p)) && negb (world_excuse t p).
Definition spec_full (c : case_t) : bool := let '(s, t, st, vs) := c in negb (existsb (viol s t st) vs).
(* ... outside the recorded finding class *)
Definition spec_partial (c : case_t) : bool :=
  let '(s, t, st, vs) := c in
  negb (existsb (fun p => viol s t st p && negb (unhash_hit t (fst p))) vs).
Definition n_premise (c : case_t) : bool :=      (* true when no value of the case meets the premises *)
  let '(s, t, st, vs) := c in negb (existsb (fun p => premise s t st (fst p)) vs).
Definition in_domain (c : case_t) : bool :=      (* false when the pair is in the domain of C21_partial *)
  let '(s, t, st, vs) := c in negb (is_ok st && negb (is_any s) && c21_target_ok t).
"""


def run(ctx):
    from pydra.utils.typing import TypeParser
    rng = ctx.rng
    world = World()
    try:
        n = ctx.budget(1500, 10000)
        todo = []
        for c in ctx.corpus():
            if "S" in c:
                todo.append((t_norm(c["S"]), t_norm(c["T"]), "corpus", [v_norm(v) for v in c.get("values", [])]))
        todo += [(S, T, "seed", vs) for S, T, vs in SEEDS]
        while len(todo) < n:
            S, T, rel = gen_pair(rng)
            todo.append((S, T, rel, None))
        terms, meta, early = [], [], []
        for S, T, rel, vs in todo:
            S, T = c20.canon(S), c20.canon(T)
            pS, pT = t_py(S), t_py(T)
            o_st = observe(lambda: TypeParser(pT).check_type(pS))
            st = "(Ok tt)" if o_st[0] == "ok" else ("(Err ETypeError)" if o_st[1] == "T" else "(Err EOther)")
            if vs is None:
                k = 3 if o_st[0] == "ok" else 1
                vs = [safe_value(rng, S, T) for _ in range(k)]
            vterms, vmeta = [], []
            try:
                for v in vs:
                    x = v_py(v, world)
                    o = observe(lambda: TypeParser(pT)(x))
                    vterms.append(coqio.pair(enc(x), enc_obs(o)))
                    vmeta.append({"value": v, "value_repr": show(x, world), "dynamic": show_obs(o, world)})
            except Unencodable as e:
                early.append(Failure(case={"S": S, "T": T}, observed=str(e), expected="a value of the modelled universe",
                                     note="implementation produced a value outside the model's universe", kind="tie"))
                continue
            terms.append(coqio.pair(t_coq(S), t_coq(T), st, coqio.lst(vterms)))
            meta.append({"S": S, "T": T, "S_str": t_str(S), "T_str": t_str(T), "rel": rel,
                         "static": "accepted" if o_st[0] == "ok" else "rejected (%s)" % ("TypeError" if o_st[1] == "T" else o_st[2]),
                         "values": vmeta})
        checks = {"tie_static": "tie_static", "tie_dynamic": "tie_dynamic", "spec_full": "spec_full",
                  "spec_partial": "spec_partial", "n_premise": "n_premise", "in_domain": "in_domain"}
        res = coqio.run_cases(ctx.scratch, "c21", IMPORTS, "case_t", terms, checks,
                              extra=world.coq_fs() + "Definition W_all : world := {| w_abs := fun p => p; w_check := fun _ _ => None |}.\n" + EXTRA,
                              shard=400)
        seen, nontrivial = set(), 0
        dist = {"static_accepted": 0, "static_rejected": 0, "S_is_Any": 0, "rel_same": 0, "rel_sibling": 0,
                "rel_sibling2": 0, "rel_unrelated": 0, "dynamic_accepted": 0, "dynamic_rejected": 0}
        for m in meta:
            acc = m["static"] == "accepted"
            dist["static_accepted" if acc else "static_rejected"] += 1
            dist["S_is_Any"] += m["S_str"] == "Any"
            if "rel_" + m["rel"] in dist:
                dist["rel_" + m["rel"]] += 1
            for vm in m["values"]:
                dist["dynamic_rejected" if vm["dynamic"].startswith("raises") else "dynamic_accepted"] += 1
            key = (m["S_str"], m["T_str"])
            if key not in seen:
                seen.add(key)
                if (acc and m["S_str"] != m["T_str"] and m["S_str"] != "Any") or (not acc and m["rel"] == "sibling"):
                    nontrivial += 1
        n_prem = len(meta) - len(res["n_premise"])
        out = Outcome(evaluations=len(meta) + sum(len(m["values"]) for m in meta), distinct_nontrivial=nontrivial, rule=RULE,
                      samples=[{"S": m["S_str"], "T": m["T_str"], "static": m["static"],
                                "values": [(v["value_repr"], v["dynamic"]) for v in m["values"]]} for m in meta[len(SEEDS):len(SEEDS) + 6]],
                      distribution=dist, traces_validated=len(meta))
        out.extra["distinct_pairs"] = len(seen)
        out.extra["pairs_with_a_value_meeting_the_premises"] = len(res["n_premise"])
        out.extra["pairs_in_domain_of_C21_partial"] = len(res["in_domain"])
        out.failures += early

        def case_of(m):
            return {"S": m["S"], "T": m["T"], "S_str": m["S_str"], "T_str": m["T_str"], "values": [v["value"] for v in m["values"]],
                    "values_repr": [v["value_repr"] for v in m["values"]]}
        for i in res["tie_static"][:8]:
            m = meta[i]
            try:
                exp = coqio.eval_terms(ctx.scratch, "xs", IMPORTS, ["check_type live %s %s" % (t_coq(m["T"]), t_coq(m["S"]))])[0]
            except Exception as e:      # noqa: BLE001
                exp = "?(%s)" % e
            out.failures.append(Failure(case=case_of(m), observed={"check_type": m["static"]}, expected=exp,
                                        note="model/impl: static check", kind="tie"))
        for i in res["tie_dynamic"][:8]:
            m = meta[i]
            out.failures.append(Failure(case=case_of(m), observed={"dynamic": [v["dynamic"] for v in m["values"]]},
                                        expected="Model.Typing.coerce live W false T v", note="model/impl: coercion", kind="tie"))
        shown = {"F21b": 0}
        for i in res["spec_full"]:
            m = meta[i]
            fid = None
            if i not in res["spec_partial"]:
                fid = "F21b"
                shown[fid] += 1
                if shown[fid] > 5:
                    continue
            out.failures.append(Failure(case=case_of(m), observed={"static": m["static"], "dynamic": [v["dynamic"] for v in m["values"]]},
                                        expected="every value of S is accepted by TypeParser(T) once check_type accepted S -> T",
                                        note="connection accepted statically, value of the source type rejected at run time",
                                        finding=fid, kind="spec"))
        out.extra["static_accept_dynamic_reject_pairs"] = len(res["spec_full"])
        return out
    finally:
        world.close()


def replay(ctx, payload):
    from pydra.utils.typing import TypeParser
    generate_coq(ctx)
    if "case" not in payload:          # a no-failing-input-found report: nothing to re-run, show it
        print(json.dumps(payload, indent=1)[:4000])
        return 0
    c = payload["case"]
    world = World()
    try:
        S, T = c20.canon(t_norm(c["S"])), c20.canon(t_norm(c["T"]))
        print("S:", t_str(S), "   T:", t_str(T))
        o = observe(lambda: TypeParser(t_py(T)).check_type(t_py(S)))
        print("implementation TypeParser(T).check_type(S):", "accepted" if o[0] == "ok" else "raises " + o[2][:200])
        terms = ["check_type live %s %s" % (t_coq(T), t_coq(S))]
        xs = []
        for v in c.get("values", []):
            x = v_py(v_norm(v), world)
            xs.append(x)
            print("implementation TypeParser(T)(%s): %s" % (show(x, world), show_obs(observe(lambda: TypeParser(t_py(T))(x)), world)))
            terms.append("(coerce live W false %s %s, conformsb live %s %s, arity_ok %s %s, unhash_hit %s %s)" % (
                t_coq(T), enc(x), t_coq(S), enc(x), t_coq(T), enc(x), t_coq(T), enc(x)))
        vals = coqio.eval_terms(ctx.scratch, "replay", IMPORTS, terms, extra=world.coq_fs())
        print("model check_type:", vals[0])
        for x, val in zip(xs, vals[1:]):
            print("model (coerce, value conforms to S, arity ok, F21b class) for %s: %s" % (show(x, world), world.collapse(val)))
    finally:
        world.close()
    return 0
