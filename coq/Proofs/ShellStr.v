(* Proofs/ShellStr.v — facts about the byte-string helpers of Model/Shell.v (str.replace, str.strip, str.format for
   plain fields) and about whitespace splitting, used by the per-field theorems. *)
From Pydra Require Import Base.Prelude Base.Shlex Model.Shell Spec.Shell Proofs.Shlex.
Local Open Scope char_scope.
Local Open Scope list_scope.

(* ------------------------------------------------------------------ prefixes, occurrences, replace *)
Lemma starts_with_app p r : starts_with p (p ++ r) = true.
Proof. unfold starts_with. induction p as [|c p IH]; cbn; [reflexivity|]. now rewrite Ascii.eqb_refl, IH. Qed.

Lemma starts_with_head c p d s : Ascii.eqb c d = false -> starts_with (c :: p) (d :: s) = false.
Proof. intros H. unfold starts_with. cbn. now rewrite H. Qed.

Lemma repl_absent pat rep : forall s, occurs pat s = false -> repl pat rep s 0 = s.
Proof.
  induction s as [|c s IH]; cbn [occurs repl]; [reflexivity|].
  intros H. apply orb_false_iff in H as [H1 H2]. rewrite H1, IH by exact H2. reflexivity.
Qed.

Lemma repl_skip pat rep : forall x b, repl pat rep (x ++ b) (List.length x) = repl pat rep b 0.
Proof. induction x as [|c x IH]; intros b; cbn; [destruct b; reflexivity|apply IH]. Qed.

(* text that does not contain the first character of the pattern is copied *)
Lemma repl_copy c pat rep : forall a b, forallb (fun d => negb (Ascii.eqb c d)) a = true ->
  repl (c :: pat) rep (a ++ b) 0 = a ++ repl (c :: pat) rep b 0.
Proof.
  induction a as [|d a IH]; intros b H; [reflexivity|]. cbn [forallb] in H. apply andb_true_iff in H as [H1 H2].
  apply negb_true_iff in H1. cbn [app repl]. rewrite (starts_with_head c pat d _ H1). now rewrite IH.
Qed.

Lemma repl_hit c pat rep b : repl (c :: pat) rep ((c :: pat) ++ b) 0 = rep ++ repl (c :: pat) rep b 0.
Proof.
  cbn [app repl]. change (c :: pat ++ b) with ((c :: pat) ++ b). rewrite starts_with_app.
  replace (List.length (c :: pat) - 1)%nat with (List.length pat) by (cbn [List.length]; lia). now rewrite repl_skip.
Qed.

Lemma repl_ellipsis_tail : forall s, has_char "." s = false -> replace_all ellipsis [] (s ++ ellipsis) = s.
Proof.
  unfold replace_all. induction s as [|c s IH]; intros H; [reflexivity|].
  cbn [has_char existsb] in H. apply orb_false_iff in H as [H1 H2].
  cbn [app repl]. unfold ellipsis at 1. rewrite (starts_with_head "." _ c _ H1). f_equal. apply IH, H2.
Qed.

Lemma ends_with_app suf s : ends_with suf (s ++ suf) = true.
Proof. unfold ends_with. rewrite rev_app_distr. apply starts_with_app. Qed.

Lemma occurs_mid pat : forall t u, occurs pat (t ++ pat ++ u) = true.
Proof.
  induction t as [|c t IH]; intros u.
  - cbn [app]. destruct pat as [|p pat]; [destruct u; reflexivity|]. cbn [occurs app].
    change (p :: pat ++ u) with ((p :: pat) ++ u). now rewrite starts_with_app.
  - cbn [app occurs]. rewrite IH. apply orb_true_r.
Qed.

Lemma ascii_eqb_iff x y : Ascii.eqb x y = true <-> x = y.
Proof. apply Ascii.eqb_eq. Qed.

Lemma ends_with_occurs suf s : ends_with suf s = true -> occurs suf s = true.
Proof.
  unfold ends_with, starts_with. intros H. apply (is_prefix_spec Ascii.eqb ascii_eqb_iff) in H as [r E].
  assert (s = rev r ++ suf) by (rewrite <- (rev_involutive s), E, rev_app_distr, rev_involutive; reflexivity).
  subst s. rewrite <- (app_nil_r suf) at 2. apply occurs_mid.
Qed.

(* ------------------------------------------------------------------ has_char / forallb over joins *)
Lemma has_char_app c a b : has_char c (a ++ b) = has_char c a || has_char c b.
Proof. unfold has_char. apply existsb_app. Qed.

Lemma forallb_join (p : ascii -> bool) sep : forall l, forallb p sep = true -> forallb (forallb p) l = true ->
  forallb p (join_sep sep l) = true.
Proof.
  induction l as [|a l IH]; intros Hs H; [reflexivity|]. cbn [forallb] in H. apply andb_true_iff in H as [H1 H2].
  destruct l as [|b l]; [exact H1|]. change (join_sep sep (a :: b :: l)) with (a ++ sep ++ join_sep sep (b :: l)).
  rewrite !forallb_app, H1, Hs, IH by assumption. reflexivity.
Qed.

Lemma forallb_concat (p : ascii -> bool) : forall l, forallb (forallb p) l = true -> forallb p (List.concat l) = true.
Proof.
  induction l as [|a l IH]; intros H; [reflexivity|]. cbn in *. apply andb_true_iff in H as [H1 H2].
  now rewrite forallb_app, H1, IH.
Qed.

Lemma forallb_impl {T} (p q : T -> bool) l : (forall x, p x = true -> q x = true) -> forallb p l = true -> forallb q l = true.
Proof. intros I H. rewrite forallb_forall in *. auto. Qed.

(* ------------------------------------------------------------------ strip *)
Definition edges_ok (s : la) : Prop :=
  match s with [] => True | c :: _ => py_ws c = false end /\ match rev s with [] => True | c :: _ => py_ws c = false end.

Lemma strip_id s : edges_ok s -> strip s = s.
Proof.
  intros [H1 H2]. unfold strip.
  assert (E : lstrip s = s) by (destruct s as [|c s]; [reflexivity|cbn; now rewrite H1]).
  rewrite E. destruct (rev s) as [|c r] eqn:R.
  - cbn. rewrite <- (rev_involutive s), R. reflexivity.
  - cbn [lstrip]. rewrite H2, <- R. apply rev_involutive.
Qed.

(* ------------------------------------------------------------------ whitespace splitting is compositional *)
Lemma words_aux_space : forall a b cur,
  words_aux (a ++ " " :: b) cur = words_aux a cur ++ words b.
Proof.
  induction a as [|c a IH]; intros b cur.
  - cbn [app words_aux is_ws]. destruct cur; reflexivity.
  - cbn [app words_aux]. destruct (is_ws c).
    + destruct cur; [apply IH|]. cbn [app]. f_equal. apply IH.
    + apply IH.
Qed.
Lemma words_space a b : words (a ++ " " :: b) = words a ++ words b.
Proof. apply words_aux_space. Qed.

Lemma words_join : forall l, words (join_sep [" "] l) = List.concat (map words l).
Proof.
  induction l as [|a l IH]; [reflexivity|]. destruct l as [|b l].
  - cbn. now rewrite app_nil_r.
  - change (join_sep [" "] (a :: b :: l)) with (a ++ " " :: join_sep [" "] (b :: l)).
    rewrite words_space, IH. reflexivity.
Qed.

Lemma words_aux_solid : forall w cur, forallb (fun c => negb (is_ws c)) w = true ->
  words_aux w cur = match rev w ++ cur with [] => [] | t => [rev t] end.
Proof.
  induction w as [|c w IH]; intros cur H.
  - cbn. destruct cur; reflexivity.
  - cbn [forallb] in H. apply andb_true_iff in H as [H1 H2]. apply negb_true_iff in H1.
    cbn [words_aux]. rewrite H1, IH by exact H2. cbn [rev]. rewrite <- app_assoc. reflexivity.
Qed.
Lemma words_solid w : w <> [] -> forallb (fun c => negb (is_ws c)) w = true -> words w = [w].
Proof.
  intros Hn H. unfold words. rewrite words_aux_solid by exact H. rewrite app_nil_r.
  destruct (rev w) eqn:E; [|rewrite <- E, rev_involutive; reflexivity].
  exfalso. apply Hn. rewrite <- (rev_involutive w), E. reflexivity.
Qed.
