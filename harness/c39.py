"""C39 — Lmod environments add module settings to the caller's environment
(pydra/environments/lmod.py Lmod.execute / run_lmod_cmd, pydra/environments/base.py execute)."""
import json
import os
import shutil
import subprocess
import sys
import tempfile

from .lib import coqio
from .lib.runner import Outcome, Failure

PROP = "C39"
PROPS_FILE = "Props/C39.v"
MANIFEST = dict(
    text="Coq theorems, closed under the global context. C39_partial: for every caller environment and every "
         "well-formed module-load program (assignments os.environ[K] = V in any of the quoting/spacing variants, "
         "other lines) whose values contain no quote character and no backslash, the model of Lmod.execute hands the "
         "child process the native argument vector and an environment in which every variable occurs once with the "
         "value of the last assignment to it, or the caller's value when the modules do not assign it. "
         "C39_child_env_any_output / C39_untouched_pass_through: for EVERY text lmod may print, the child environment is "
         "the caller's overridden by exactly the pairs the regex reads, nothing dropped. C39_refuted_quote_in_value: the "
         "property at full strength is false — a value containing ' \" or \\ is truncated / left escaped by the regex "
         "(known finding F39b). C39_pinned_refuted_env_dropped: the pinned tree (env = module variables only) violated "
         "the property; repaired by a fix: commit. The regex is modelled exactly as a backtracking scanner; the model is "
         "tied to the code on every run by executing Lmod.execute with a fake lmod executable and a child that dumps "
         "/proc/<pid>/environ and its argv, and evaluating model and executable spec on the same cases in Coq.",
    note="Partial with respect to quoting: values containing a quote or a backslash are outside C39_partial (F39b). "
         "Trusted: Coq kernel + vm_compute; hand-written byte-level model of the regex (ASCII whitespace class), of dict "
         "update order and of subprocess env passing; the fake lmod; correspondence is differential testing.",
    technique="Coq proof (regex scanner inverts the printer of assignment programs; association-list override lemma) + "
              "model/impl correspondence via generated cases.v with a fake lmod executable",
    design="§8 Group G / C39",
)
TIE_NAME = "Model.Lmod.execute/findall vs pydra.environments.lmod.Lmod.execute (fake lmod, child dumping its environment)"
TRUSTED = [
    "Model/Lmod.v: hand-written model of the regex in Lmod.execute (backtracking scanner on bytes; \\s = ASCII "
    "whitespace incl. \\x1c-\\x1f), of the dict built from os.environ and the scanned pairs (insertion-ordered "
    "association list), of run_lmod_cmd's two error exits, and of subprocess.run(env=) (exec_rejects: '=' in a name)",
    "Spec/Lmod.v render: the text of a module-load program (Python string-literal syntax as Lmod's Python shell prints "
    "it, plus single-quote/spacing/trailer variants); mirrored by the harness's fake lmod",
    "the lmod executable itself is simulated: $MODULESHOME/libexec/lmod is a shell script printing the generated program",
    "the executed command's environment is observed as /proc/<pid>/environ of a /bin/sh child (the initial execve block)",
]
ASSUMPTIONS = [
    "lmod output is valid UTF-8 without Unicode (non-ASCII) whitespace; variable names and values contain no NUL",
    "caller environment = os.environ of the process calling Lmod.execute (no duplicate names: it is a dict)",
]
RULE = ("structured stream: caller environment (4-12 variables incl. MODULESHOME, names/values with spaces, '=', ':', "
        "UTF-8) x module program (0-7 statements: assignments overriding caller variables, new variables, prepends, "
        "repeated assignments, double/single quoting, blanks, trailers, other lines; 15% of values with quote or "
        "backslash) x 0-3 extra arguments; raw stream: adversarial lmod outputs assembled from regex-relevant "
        "fragments; error stream: MODULESHOME unset, '_mlstatus = False'. Non-trivial = the program assigns at least one "
        "variable AND the caller has at least one variable the program does not assign; distinct by (caller, output text)")

WORKER = r'''
import json, os, sys, tempfile, traceback
cases = json.load(open(sys.argv[1]))
work = sys.argv[2]
from pydra.compose import shell
from pydra.environments.lmod import Lmod
from pydra.environments import native
from pydra.engine.job import Job
from pydra.engine.submitter import Submitter
from pydra.utils.general import attrs_values

home = os.path.join(work, "ms")
os.makedirs(os.path.join(home, "libexec"))
lmod = os.path.join(home, "libexec", "lmod")


def write_lmod(text):
    # the simulated lmod: one /bin/sh process, builtins only; logs its arguments, prints the program
    body = text.replace("'", "'\\''")
    with open(lmod + ".tmp", "w", encoding="utf-8") as f:
        f.write("#!/bin/sh\nd=${0%/libexec/lmod}\nfor a in \"$@\"; do printf '%s\\n' \"$a\"; done > \"$d/args.txt\"\n"
                "printf '%s' '" + body + "'\n")
    os.chmod(lmod + ".tmp", 0o755)
    os.replace(lmod + ".tmp", lmod)


dump = os.path.join(work, "dump.sh")
with open(dump, "w") as f:
    f.write('#!/bin/sh\n/bin/cat /proc/$$/environ\nprintf \'\\0ARGV\\0\'\nfor a in "$@"; do printf \'%s\\0\' "$a"; done\n')
os.chmod(dump, 0o755)
Dump = shell.define(dump)
sub = Submitter(cache_root=os.path.join(work, "cache"))
saved = dict(os.environ)


def parse(stdout):
    envpart, _, argpart = stdout.partition("\0\0ARGV\0")
    env = []
    for ent in (envpart.split("\0") if envpart else []):
        k, _, v = ent.partition("=")
        env.append([k, v])
    args = argpart.split("\0")[:-1] if argpart else []
    return env, args


results = []
native_memo = {}
for c in cases:
    res = {}
    try:
        task = Dump(append_args=c["args"])
        job = Job(task=task, submitter=sub, name="c39")
        native_argv = task._command_args(values=job.inputs)
        res["native_argv"] = [str(a) for a in native_argv]
        write_lmod(c["text"])
        if os.path.exists(os.path.join(home, "args.txt")):
            os.unlink(os.path.join(home, "args.txt"))
        caller = [[k, (home if v == "@HOME@" else v)] for k, v in c["caller"]]
        os.environ.clear()
        for k, v in caller:
            os.environ[k] = v
        res["caller"] = [[k, v] for k, v in os.environ.items()]
        try:
            if c.get("end_to_end"):
                outs = task(environment=Lmod(c["modules"]), cache_root=tempfile.mkdtemp(dir=work))
                out = attrs_values(outs)
            else:
                out = Lmod(c["modules"]).execute(job)
            env, args = parse(out["stdout"])
            res["kind"] = "ran"; res["env"] = env; res["child_args"] = args; res["rc"] = out["return_code"]
            key = tuple(c["args"])
            if key not in native_memo or c.get("native_env_check"):
                nat = native.Environment().execute(job)
                nenv, nargs = parse(nat["stdout"])
                native_memo[key] = nargs
                res["native_env"] = nenv
            res["native_child_args"] = native_memo[key]
        except RuntimeError as e:
            m = str(e)
            res["kind"] = ("no_lmod" if "Could not find Lmod installation" in m else
                           "module_error" if "Error running module cmd" in m else "runtime_error")
            res["msg"] = m[:300]
        except ValueError as e:
            res["kind"] = "value_error"; res["msg"] = str(e)[:300]
        if os.path.exists(os.path.join(home, "args.txt")):
            res["lmod_args"] = open(os.path.join(home, "args.txt")).read().split("\n")[:-1]
    except Exception as e:
        res["kind"] = "exception"; res["msg"] = traceback.format_exc()[-1500:]
    finally:
        os.environ.clear(); os.environ.update(saved)
    results.append(res)
json.dump(results, open(sys.argv[3], "w"))
'''

# ------------------------------------------------------------------ generators
NAMES = ["PATH", "HOME", "FOO", "BAR", "LD_LIBRARY_PATH", "_LMFILES_", "LOADEDMODULES", "lower_case", "A.B", "X Y",
         "LANG", "TMPDIR", "MANPATH", "_ModuleTable001_", "K9", "USER"]
VALS = ["/usr/bin:/bin", "/home/u", "bar", "", "a b", "x=y", "1", "/opt/m/1.0/lib", "C.UTF-8", "caf\u00e9", "\u03bb",
        "a;b", "$HOME/x", "[1]", "os.environ[", "#c", "a\tb", "  ", "(x)", "*"]
QVALS = ["it's", 'say "hi"', "back\\slash", "'", '"', "a'b\"c", "\\", "C:\\x", "trail'"]
OTHERS = ["_mlstatus = True", "# a comment", "", "import os", "  ", "x = 1;", "_mlstatus = False", "print('hi')"]
TRAILERS = ["", "", "", ";", " ;", "  # note", ";  ", " # it's"]
BLANKS = ["", " ", " ", "  ", "\t", " \t"]
RAW = ['os.environ[', '"', "'", ']', '=', ' ', '\n', '\t', 'A', 'b', 'os.', 'environ', '[', '\\', ';', 'x y', '\x0b',
       '\x1c', '\r', 'del ', 'os.environ["K"] = "v"', "os.environ['P']='q'\n", 'os.environ["X"] = \'\'\ndel os.environ["X"]\n',
       '"]', '="', "_mlstatus = False\n", "\u00e9", "K", "V"]


def plain(s):
    return not any(c in s for c in "'\"\\\n")


def esc(s, q):
    return "".join("\\" + c if c in ("\\", q) else c for c in s)


def render(stmts):
    out = []
    for st in stmts:
        if st[0] == "other":
            out.append(st[1] + "\n")
        else:
            _, sty, k, v = st
            qk = '"' if sty["key_dq"] else "'"
            qv = '"' if sty["val_dq"] else "'"
            out.append("os.environ[" + qk + esc(k, qk) + qk + "]" + sty["ws_before"] + "=" + sty["ws_after"]
                       + qv + esc(v, qv) + qv + sty["trailer"] + "\n")
    return "".join(out)


def gen_caller(rng, with_home=True):
    n = rng.randrange(3, 12)
    names = rng.sample(NAMES, n)
    env = [[k, rng.choice(VALS + (QVALS if rng.random() < 0.2 else []) + ["multi\nline"] * (rng.random() < 0.05))]
           for k in names]
    if with_home:
        env.insert(rng.randrange(len(env) + 1), ["MODULESHOME", "@HOME@"])
    return env


def gen_style(rng):
    real = rng.random() < 0.4          # what Lmod itself prints
    if real:
        return dict(key_dq=True, val_dq=True, ws_before=" ", ws_after=" ", trailer="")
    return dict(key_dq=rng.random() < 0.5, val_dq=rng.random() < 0.5, ws_before=rng.choice(BLANKS),
                ws_after=rng.choice(BLANKS), trailer=rng.choice(TRAILERS))


def gen_stmts(rng, caller):
    n = rng.choice([0, 1, 1, 2, 3, 3, 4, 5, 7])
    stmts = []
    cd = dict(caller)
    assigned = []
    for _ in range(n):
        r = rng.random()
        if r < 0.2:
            stmts.append(["other", rng.choice(OTHERS)])
            continue
        if r < 0.5 and caller:
            k = rng.choice([c[0] for c in caller if c[0] != "MODULESHOME"] or ["FOO"])
        elif r < 0.6 and assigned:
            k = rng.choice(assigned)
        else:
            k = rng.choice(NAMES + ["NEW1", "NEW_2", "new3"])
        if rng.random() < 0.25 and plain(cd.get(k, "")) and "\n" not in cd.get(k, ""):
            v = "/opt/" + rng.choice(["m", "n", "tool 2"]) + "/bin" + (":" + cd[k] if cd.get(k) else "")   # prepend_path
        elif rng.random() < 0.15:
            v = rng.choice(QVALS)
        else:
            v = rng.choice(VALS)
        cd[k] = v
        assigned.append(k)
        stmts.append(["assign", gen_style(rng), k, v])
    if rng.random() < 0.5:
        stmts.append(["other", "_mlstatus = True"])
    return stmts


# ------------------------------------------------------------------ Coq encoding
def enc_env(e):
    return coqio.lst([coqio.pair(coqio.string(k), coqio.string(v)) for k, v in e])


def enc_chars(s):
    return "(la_of %s)" % coqio.string(s)


def enc_stmts(stmts):
    out = []
    for st in stmts:
        if st[0] == "other":
            out.append("(Other %s)" % coqio.string(st[1]))
        else:
            _, sty, k, v = st
            out.append("(Assign {| key_dq := %s; val_dq := %s; ws_before := %s; ws_after := %s; trailer := %s |} %s %s)" % (
                coqio.boolean(sty["key_dq"]), coqio.boolean(sty["val_dq"]), enc_chars(sty["ws_before"]),
                enc_chars(sty["ws_after"]), enc_chars(sty["trailer"]), coqio.string(k), coqio.string(v)))
    return coqio.lst(out)


def enc_obs(res):
    if res["kind"] == "ran":
        return "(ORan %s %s)" % (enc_env(res["env"]), coqio.lst([coqio.string(a) for a in res["child_args"]]))
    return {"no_lmod": "ONoLmod", "module_error": "OModule", "value_error": "OValueError"}.get(res["kind"], "OOther")


EXTRA = """
Inductive obs := ORan (e : env) (args : list string) | ONoLmod | OModule | OValueError | OOther.
Definition kv_eqb := pair_eqb String.eqb String.eqb.
Definition env_eqb := list_eqb kv_eqb.
Definition args_eqb := list_eqb String.eqb.
(* caller env, structured program (if any), the text lmod printed, native argv, observation *)
Definition case_t := (env * option (list stmt) * string * list string * obs)%type.
Definition tie_ok (c : case_t) : bool :=
  let '(caller, stmts, text, argv, o) := c in
  match stmts with Some st => String.eqb (str_of (render st)) text | None => true end &&
  match execute caller text argv, o with
  | Ran child a, ORan e args => env_eqb child e && args_eqb (tl a) args
  | Ran child a, OValueError => exec_rejects child
  | ErrNoLmod, ONoLmod => true
  | ErrModule, OModule => true
  | _, _ => false
  end.
Definition spec_ok (c : case_t) : bool :=
  let '(caller, stmts, text, argv, o) := c in
  match stmts with
  | None => true
  | Some st =>
      if negb (forallb wf_stmt st) then true
      else match lookup "MODULESHOME"%string caller with
      | None => match o with ONoLmod => true | _ => false end
      | Some _ =>
          if String.eqb text mlstatus_false then match o with OModule => true | _ => false end
          else match o with
               | ORan e args => spec_env_ok caller st e && args_eqb (tl argv) args
               | _ => false
               end
      end
  end.
"""
IMPORTS = ["Model.Lmod", "Spec.Lmod"]


def run_worker(cases):
    repo = os.environ.get("VERIF_REPO", "/repo")
    work = tempfile.mkdtemp(prefix="c39-", dir="/tmp")
    try:
        with open(os.path.join(work, "worker.py"), "w") as f:
            f.write(WORKER)
        with open(os.path.join(work, "cases.json"), "w") as f:
            json.dump(cases, f)
        env = dict(os.environ, PYTHONPATH=repo, PYTHONHASHSEED="0", NO_ET="1", PYTHONDONTWRITEBYTECODE="1")
        p = subprocess.run([sys.executable, os.path.join(work, "worker.py"), os.path.join(work, "cases.json"), work,
                            os.path.join(work, "results.json")], env=env, cwd=work, stdout=subprocess.PIPE,
                           stderr=subprocess.STDOUT, text=True, timeout=3000)
        if p.returncode != 0:
            raise RuntimeError("C39 worker failed:\n" + p.stdout[-3000:])
        with open(os.path.join(work, "results.json")) as f:
            return json.load(f), os.path.join(work, "ms")
    finally:
        shutil.rmtree(work, ignore_errors=True)


def build_cases(ctx):
    rng = ctx.rng
    n_struct = ctx.budget(160, 900)
    n_raw = ctx.budget(80, 400)
    n_err = ctx.budget(12, 40)
    cases = []
    for c in ctx.corpus():
        cases.append(dict(c, corpus=True))
    for i in range(n_struct):
        caller = gen_caller(rng)
        stmts = gen_stmts(rng, caller)
        cases.append(dict(stream="structured", caller=caller, stmts=stmts, text=render(stmts),
                          args=[rng.choice(["a", "b c", "-x", "é", "it's", "--k=v"]) for _ in range(rng.randrange(0, 4))],
                          modules=rng.choice([["m/1.0"], ["a", "b/2"], ["gcc/12", "fsl/6.0.7", "x"]]),
                          end_to_end=(i % 40 == 7), native_env_check=(i % 10 == 3)))
    for i in range(n_raw):
        caller = gen_caller(rng)
        text = "".join(rng.choice(RAW) for _ in range(rng.randrange(1, 16)))
        cases.append(dict(stream="raw", caller=caller, stmts=None, text=text, args=[], modules=["m"]))
    for i in range(n_err):
        caller = gen_caller(rng, with_home=(i % 2 == 0))
        stmts = [["other", "_mlstatus = False"]] if i % 2 == 0 else gen_stmts(rng, caller)
        cases.append(dict(stream="error", caller=caller, stmts=stmts, text=render(stmts), args=[], modules=["zz"]))
    return cases


def nonplain(case):
    return bool(case.get("stmts")) and any(st[0] == "assign" and not plain(st[3]) for st in case["stmts"])


def encode(case, res):
    stm = "None" if case.get("stmts") is None else "(Some %s)" % enc_stmts(case["stmts"])
    return coqio.pair(enc_env(res["caller"]), stm, coqio.string(case["text"]),
                      coqio.lst([coqio.string(a) for a in res["native_argv"]]), enc_obs(res))


def run(ctx):
    cases = build_cases(ctx)
    results, home = run_worker(cases)
    out = Outcome(rule=RULE)
    dist = {"structured": 0, "raw": 0, "error": 0, "ran": 0, "no_lmod": 0, "module_error": 0, "value_error": 0,
            "programs_with_nonplain_value": 0, "assignments": 0, "overrides_of_caller_vars": 0, "end_to_end_runs": 0,
            "raw_outputs_with_match": 0}
    enc, keep = [], []
    seen = set()
    for case, res in zip(cases, results):
        dist[case["stream"]] = dist.get(case["stream"], 0) + 1
        dist[res["kind"]] = dist.get(res["kind"], 0) + 1
        if res["kind"] in ("exception", "runtime_error"):
            out.failures.append(Failure(case=strip(case), observed=res, expected="Lmod.execute returns or raises one of "
                                        "the modelled errors", kind="tie", note="driver could not run the case"))
            continue
        # direct (Python-side) checks of what the Coq model does not carry
        problems = []
        if res.get("lmod_args") is not None and res["lmod_args"] != ["python", "load"] + case["modules"]:
            problems.append("lmod invoked with %r" % res["lmod_args"])
        if res["kind"] == "ran":
            if "native_env" in res and res["native_env"] != res["caller"]:
                problems.append("native child environment differs from os.environ (observation broken)")
            if res["native_child_args"] != res["child_args"] or res["child_args"] != res["native_argv"][1:]:
                problems.append("argv differs from the native environment's: %r vs %r" % (res["child_args"], res["native_child_args"]))
            if res["rc"] != 0:
                problems.append("return code %r" % res["rc"])
        if problems:
            out.failures.append(Failure(case=strip(case), observed=res, expected="; ".join(problems), kind="spec",
                                        note="argv / lmod invocation"))
        enc.append(encode(case, res))
        keep.append((case, res))
        if case.get("stmts"):
            asg = [st for st in case["stmts"] if st[0] == "assign"]
            dist["assignments"] += len(asg)
            dist["programs_with_nonplain_value"] += nonplain(case)
            ck = {k for k, _ in res["caller"]}
            dist["overrides_of_caller_vars"] += sum(1 for st in asg if st[2] in ck)
            key = (json.dumps(res["caller"]), case["text"])
            if key not in seen:
                seen.add(key)
                if asg and ck - {st[2] for st in asg}:
                    out.distinct_nontrivial += 1
        elif case["stream"] == "raw" and res["kind"] == "ran" and res["env"] != res["caller"]:
            dist["raw_outputs_with_match"] += 1
        dist["end_to_end_runs"] += bool(case.get("end_to_end"))
    res_idx = coqio.run_cases(ctx.scratch, "c39", IMPORTS, "case_t", enc, {"tie": "tie_ok", "spec": "spec_ok"},
                              extra=EXTRA, shard=150)
    out.evaluations = len(enc)
    out.traces_validated = len(enc)
    out.distribution = dist
    out.samples = [{"caller": r["caller"][:4], "lmod_output": c["text"], "child_env": r.get("env", r["kind"]) if r["kind"] != "ran" else r["env"][:6],
                    "child_args": r.get("child_args")} for c, r in keep[:3]]
    todo = [(kind, i) for kind in ("spec", "tie") for i in res_idx[kind][:25]]
    exps = model_and_spec(ctx, [keep[i] for _, i in todo], "fails") if todo else []
    for (kind, i), exp in zip(todo, exps):
        case, res = keep[i]
        finding = "F39b" if (kind == "spec" and nonplain(case)) else None
        out.failures.append(Failure(
            case=strip(case), observed={"kind": res["kind"], "child_env": res.get("env"), "child_args": res.get("child_args"),
                                        "caller": res["caller"]},
            expected=exp, kind=kind, finding=finding,
            note=("value containing a quote or backslash is not read back" if finding else
                  "child environment = caller overridden by the module assignments; argv native" if kind == "spec"
                  else "model/impl")))
    return out


def strip(case):
    return {k: case[k] for k in ("stream", "caller", "stmts", "text", "args", "modules") if k in case}


def model_and_spec(ctx, pairs, name):
    """One coqc run printing, for every (case, result), the model's outcome and the spec's value of each variable."""
    terms = []
    for case, res in pairs:
        terms.append("execute %s %s %s" % (enc_env(res["caller"]), coqio.string(case["text"]),
                                           coqio.lst([coqio.string(a) for a in res["native_argv"]])))
        stm = case.get("stmts") or []
        keys = sorted({k for k, _ in res["caller"]} | {st[2] for st in stm if st[0] == "assign"})
        terms.append("map (fun k => (k, spec_lookup %s %s k)) %s" % (enc_env(res["caller"]), enc_stmts(stm),
                                                                       coqio.lst([coqio.string(k) for k in keys])))
    vals = coqio.eval_terms(ctx.scratch, name, IMPORTS, terms)
    return [{"model": vals[2 * j], "spec_lookup": vals[2 * j + 1] if pairs[j][0].get("stmts") is not None else None}
            for j in range(len(pairs))]


def replay(ctx, payload):
    case = payload["case"]
    case.setdefault("end_to_end", False)
    results, _ = run_worker([case])
    res = results[0]
    print("implementation:", json.dumps({k: res.get(k) for k in ("kind", "env", "child_args", "native_argv", "msg")}, ensure_ascii=False))
    if "caller" in res and "native_argv" in res:
        exp = model_and_spec(ctx, [(case, res)], "replay")[0]
        print("model:", exp["model"])
        print("spec :", exp["spec_lookup"])
