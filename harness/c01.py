"""C01 — a split task runs exactly the outer/inner product of its split inputs (pydra/engine/state.py,
Task.split, Submitter)."""
import itertools
import json
import shutil
import tempfile

from .lib import coqio
from .lib import state_gen as G
from .lib.runner import Outcome, Failure

PROP = "C01"
PROPS_FILE = "Props/C01.v"
MANIFEST = dict(
    text="Theorem C01_full (Coq, closed under the global context): for EVERY well-formed splitter - any number of "
         "fields, arbitrary nesting of n-ary lists (outer) and tuples (inner), one-element wrappers - and every "
         "assignment of shapes to the split fields, the model of splitter2rpn + State.splits + iter_splits + "
         "map_splits (the RPN stack machine with lazily forced operands and keys carried per operand) returns exactly "
         "the jobs of the structural reference expansion, in its order, and raises the shape error exactly when the "
         "reference rejects (C01_reject). C01_values/C01_job_inputs/C01_count/C01_empty/C01_outer_order/"
         "C01_inner_order state the consequences the property names (each job gets exactly the split fields with "
         "in-range indices, |jobs| = product of the shape, an empty field gives no jobs, left-most slowest, positional "
         "pairing). The model is tied to the code by running State.prepare_states and Task.split through "
         "Submitter(worker='debug') on generated splitters (every tree over <=4 fields x lengths 0-3 in the thorough "
         "tier, random permuted/wrapped trees, random 5-7 field trees; plain lists, one 2-d container case) and "
         "evaluating model and reference on the same cases in Coq.",
    note="Trusted: Coq kernel + vm_compute; hand-written model Model/State.v (lazy zip/product objects are eager "
         "lists, nested index tuples kept flattened, input_shape/flatten taken as the given shape); end-to-end value "
         "delivery to the task body is checked by differential testing only; for container_ndim > 1 the code's extra "
         "axis-count check in splits_groups is not part of this model (outside the quantifier). Findings F01 (global "
         "keys list out of order for >=5 fields) and F05 (one-element wrapper doubles the operator) were repaired in "
         "/repo; the theorem is about the repaired algorithm.",
    technique="Coq proof (compile-correctness of the RPN stack machine against a structural expansion, n-ary folds "
              "by associativity) + model/impl correspondence via generated cases.v, State level and end to end",
    design="§8 Group A / C01",
)
TIE_NAME = "Model.State.prepare_states vs pydra.engine.state.State.prepare_states (states_ind/states_val) and Task.split end to end"
TRUSTED = [
    "Model/State.v: hand-written model of splitter2rpn/_ordering/_iterate_list, State.splits/_processing_terms/"
    "_single_op_splits, iter_splits, map_splits (index level)",
    "itertools.product / zip objects modelled as eager lists; nested index tuples kept flattened (iter_splits' "
    "flatten(max_depth=1000) is the identity on them)",
    "input_shape(value, container_ndim) and flatten(value, container_ndim) are not modelled: a field enters the model "
    "as its shape (the harness builds rectangular values of that shape)",
    "delivery of the selected element to the task body (NodeExecution._split_task, StateArray wrapping, the implicit "
    "Split workflow) is observed end to end, not modelled",
]
ASSUMPTIONS = [
    "splitter fields are distinct (Task.split rejects duplicates) and no list/tuple in the splitter is empty",
    "split values are rectangular containers of the declared container_ndim",
]
RULE = ("a case = (splitter tree, shapes of its fields, level state|e2e); sources: corpus, every tree over <=4 fields "
        "with lengths 0-3 (all of them in the thorough tier, a seeded sample in quick), random permuted/wrapped trees "
        "over 1-4 fields, random trees over 5-7 fields with mostly length-consistent inner products (plain lists; one 2-d "
        "container_ndim case in the corpus), and end-to-end Task.split runs; non-trivial = at least two split fields and (at least two "
        "jobs or a rejection); distinct by (tree, shapes, level)")

IMPORTS = ["Model.State", "Spec.State"]
EXTRA = """
Definition case_t := (spl * list (list nat) * res (list (list nat)))%type.
Definition envof (sh : list (list nat)) : env := fun f => nth f sh [].
Definition rows (r : res (list assignment)) : res (list (list nat)) :=
  match r with Ok a => Ok (map (fun x => map snd (sort_kv x)) a) | Err x => Err x end.
Definition rres_eqb (a b : res (list (list nat))) : bool :=
  match a, b with
  | Ok x, Ok y => list_eqb (list_eqb Nat.eqb) x y
  | Err x, Err y => err_eqb x y
  | _, _ => false
  end.
Definition tie_ok (c : case_t) : bool := let '(s, sh, o) := c in rres_eqb (rows (prepare_states (envof sh) s)) o.
Definition spec_ok (c : case_t) : bool := let '(s, sh, o) := c in wfb s && rres_eqb (rows (spec_result (envof sh) s)) o.
"""
MAX_JOBS = 320


def coq_case(tree, shapes, obs):
    return coqio.pair(G.to_coq(tree), G.coq_shapes(shapes), G.coq_obs(obs))


def njobs(tree, shapes):
    e = G.py_expand(tree, shapes)
    return None if e is None else len(e[0])


def pad_shapes(tree, shapes):
    k = max(G.leaves(tree)) + 1
    return [list(shapes[i]) if i < len(shapes) else [1] for i in range(k)]


def gen_cases(ctx):
    """yield (tree, shapes, level, source)"""
    rng = ctx.rng
    for c in ctx.corpus():
        t = G.from_json(c["tree"])
        yield t, pad_shapes(t, c["shapes"]), c.get("level", "state"), "corpus"
        if c.get("level", "state") == "state" and c.get("also_e2e", True) and (njobs(t, c["shapes"]) or 0) <= 40:
            yield t, pad_shapes(t, c["shapes"]), "e2e", "corpus"
    # every tree over <= 4 fields x lengths 0..3
    small = []
    for k in (1, 2, 3, 4):
        for t in G.tree_shapes(k):
            for lens in itertools.product(range(4), repeat=k):
                small.append((t, [[n] for n in lens]))
    if ctx.tier == "thorough":
        chosen = small
    else:
        # quick: all of <=3 fields, and a seeded sample of the 4-field ones with accepted and rejected in equal parts
        k4 = [c for c in small if len(c[1]) == 4]
        acc = [c for c in k4 if G.py_expand(c[0], c[1]) is not None]
        rej = [c for c in k4 if G.py_expand(c[0], c[1]) is None]
        chosen = [c for c in small if len(c[1]) < 4] + rng.sample(acc, min(len(acc), 450)) + rng.sample(rej, min(len(rej), 250))
    for t, sh in chosen:
        yield t, sh, "state", "enum<=4"
    # permuted field order and one-element wrappers, 1-4 fields
    for _ in range(ctx.budget(300, 2000)):
        k = rng.choice([1, 2, 2, 3, 3, 4, 4, 4])
        t = G.random_tree(rng, k, p_wrap=0.25)
        yield t, G.assign_shapes(rng, t, k, lens=(0, 1, 2, 3), allow_nd=False), "state", "random<=4"
    # 5-7 fields
    n = ctx.budget(350, 3000)
    made = 0
    while made < n:
        k = rng.choice([5, 5, 5, 6, 6, 7])
        t = G.random_tree(rng, k)
        sh = G.assign_shapes(rng, t, k, lens=(0, 1, 1, 2, 2, 2, 3), allow_nd=False)
        nj = njobs(t, sh)
        if nj is not None and nj > MAX_JOBS:
            continue
        made += 1
        yield t, sh, "state", "random5-7"
    # end to end
    n = ctx.budget(55, 500)
    made = 0
    while made < n:
        k = rng.choice([1, 2, 2, 3, 3, 3, 4, 4, 4, 5, 5, 6])
        t = G.random_tree(rng, k, p_wrap=0.1)
        sh = G.assign_shapes(rng, t, k, lens=(0, 1, 2, 2, 3), allow_nd=False)
        nj = njobs(t, sh)
        if nj is not None and nj > 24:
            continue
        made += 1
        yield t, sh, "e2e", "e2e"
    # sequences: 2-3 submissions of the same task and the same values with different splitter trees into ONE cache root
    # (and one process): a neighbour with one bracket type flipped, a nested group spliced into its parent (equivalent
    # or not), an equivalent re-bracketing.  Each submission must still be its own splitter's expansion.
    for q in range(ctx.budget(16, 200)):
        k = rng.choice([2, 3, 3, 3, 4, 4])
        base = G.relabel(rng.choice(G.tree_shapes(k)), (lambda perm: (lambda i: perm[i]))(rng.sample(range(k), k)))
        n = rng.choice([2, 2, 3])
        sh = [[n]] * k
        seq = [base]
        for _ in range(rng.choice([1, 2])):
            src = rng.choice(seq)
            v = rng.choice([G.flip_node, G.flip_node, G.merge_nested, G.regroup])(rng, src)
            if v is not None and json.dumps(v) not in [json.dumps(x) for x in seq]:
                seq.append(v)
        if len(seq) < 2:
            continue
        rng.shuffle(seq)
        for t in seq:
            nj = njobs(t, sh)
            if nj is not None and nj > 81:
                break
        else:
            for t in seq:
                yield t, [list(x) for x in sh], "e2e", "e2e-sequence", "seq%d" % q


def observe(tree, shapes, level, cache_root=None):
    """run the implementation; returns (obs, python-side failure note or None, details).
    cache_root: shared cache directory of a sequence of submissions (results of earlier submissions with equal job
    inputs may legitimately be reused there, so the number of task-body executions is not compared)"""
    if level == "e2e":
        r = G.run_e2e(tree, shapes, cache_root=cache_root)
        note = None
        if r["obs"][0] == "exc":
            note = "unexpected exception"
        elif r["obs"][0] == "err" and r["bodies"] > 0:
            note = "a task body was executed although the split was rejected"
        elif r["obs"][0] == "ok" and not r["const_ok"]:
            note = "a job received a wrong value for a field (non-split field changed, or element of another field)"
        elif r["obs"][0] == "ok" and cache_root is None and r["bodies"] != len(r["obs"][1]):
            note = "number of task-body executions differs from the number of outputs"
        return r["obs"], note, {"bodies": r["bodies"], "exc": r["exc"], "leftover_dirs": r["leftover"], "out": r["out"]}
    r = G.run_state(tree, shapes)
    note = None
    if r["obs"][0] == "exc":
        note = "unexpected exception"
    elif not r["val_ok"]:
        note = "states_val does not hold the element selected by states_ind for every split field"
    return r["obs"], note, {"keys": r["keys"], "exc": r["exc"]}


def run(ctx):
    cases, meta, pyfail = [], [], []
    dist = {"source": {}, "fields": {}, "jobs": {"0": 0, "1": 0, "2-9": 0, "10-99": 0, "100+": 0}, "rejected_shape": 0,
            "with_inner": 0, "nd_shapes": 0, "wrapped_singletons": 0, "e2e_runs": 0, "e2e_rejections_leaving_workflow_dir": 0}
    seen, nontrivial = set(), 0
    groups, e2e_history = {}, {}
    for item in gen_cases(ctx):
        tree, shapes, level, source = item[:4]
        group = item[4] if len(item) > 4 else None
        croot = None
        if group is not None:
            if group not in groups:
                for d in groups.values():           # one sequence at a time: drop the previous sequence's cache
                    shutil.rmtree(d, ignore_errors=True)
                groups.clear()
                groups[group] = tempfile.mkdtemp(prefix="verif_c01_seq_")
            croot = groups[group]
        obs, note, det = observe(tree, shapes, level, cache_root=croot)
        m = {"tree": tree, "shapes": shapes, "level": level, "source": source, "obs": obs, "details": det}
        if level == "e2e":
            # earlier end-to-end submissions of this run (same process) with the same fields and values: what a leak
            # between splits could come from; stored with the case so that a replay is self-contained
            hkey = (tuple(sorted(G.leaves(tree))), json.dumps([shapes[f] for f in sorted(G.leaves(tree))]))
            m["before"] = [{"tree": t0, "same_cache_root": (g0 is not None and g0 == group)}
                           for t0, g0 in e2e_history.get(hkey, [])][-12:]
            e2e_history.setdefault(hkey, []).append((tree, group))
        if group is not None:
            m["sequence"] = group
            dist["sequence_submissions"] = dist.get("sequence_submissions", 0) + 1
        dist["source"][source] = dist["source"].get(source, 0) + 1
        k = len(G.leaves(tree))
        dist["fields"][str(k)] = dist["fields"].get(str(k), 0) + 1
        if obs[0] == "ok":
            nj = len(obs[1])
            dist["jobs"]["0" if nj == 0 else "1" if nj == 1 else "2-9" if nj < 10 else "10-99" if nj < 100 else "100+"] += 1
        elif obs == ("err", "EShape"):
            dist["rejected_shape"] += 1
        s = json.dumps(tree)
        dist["with_inner"] += '"I"' in s
        dist["nd_shapes"] += any(len(x) > 1 for x in shapes)
        dist["wrapped_singletons"] += G.show(tree) != G.show(strip(tree))
        if level == "e2e":
            dist["e2e_runs"] += 1
            dist["e2e_rejections_leaving_workflow_dir"] += bool(det.get("leftover_dirs"))
        key = (s, json.dumps(shapes), level)
        if key not in seen:
            seen.add(key)
            if k >= 2 and (obs[0] == "err" or (obs[0] == "ok" and len(obs[1]) >= 2)):
                nontrivial += 1
        if note is not None:
            pyfail.append((m, note))
            continue
        cases.append(coq_case(tree, shapes, obs))
        meta.append(m)
    for d in groups.values():
        shutil.rmtree(d, ignore_errors=True)
    # element VALUES beyond small ints (None, falsy values, containers, equal elements), per job, end to end; field names
    # alternate between the plain set and one whose names are substrings of one another
    vfail = value_stream(ctx, dist)
    res = coqio.run_cases(ctx.scratch, "c01", IMPORTS, "case_t", cases, {"tie": "tie_ok", "spec": "spec_ok"},
                          extra=EXTRA, shard=400)
    out = Outcome(evaluations=len(meta) + len(pyfail), distinct_nontrivial=nontrivial, rule=RULE,
                  samples=[sample(m) for m in pick(meta)], distribution=dist, traces_validated=len(meta),
                  exhaustive=(ctx.tier == "thorough"))
    out.extra["exhaustive_domain"] = ("every splitter tree over <=4 fields (canonical field order) x every length "
                                      "vector in 0..3 at State level" if ctx.tier == "thorough" else "sampled")
    out.evaluations += dist.get("value_runs", 0)
    out.failures += vfail[:6]
    for m, note in sorted(pyfail, key=lambda x: len(json.dumps(case_json(x[0]))))[:6]:
        out.failures.append(Failure(case=case_json(m), observed={"obs": m["obs"], **m["details"]},
                                    expected=expected(ctx, m, "spec"), kind="spec", note=note))
    spec_bad = set(res["spec"])
    for kind in ("spec", "tie"):
        for i in sorted(res[kind], key=lambda i: len(json.dumps(case_json(meta[i]))))[:6]:
            if kind == "tie" and i in spec_bad:
                continue
            m = meta[i]
            out.failures.append(Failure(
                case=case_json(m), observed={"obs": m["obs"], **m["details"]}, expected=expected(ctx, m, kind), kind=kind,
                note=("jobs / per-job inputs differ from the outer/inner product expansion (%s level%s)" % (
                    m["level"], ", after other splitters over the same values were submitted into the same cache root"
                    if m.get("sequence") else "")) if kind == "spec" else "model/impl"))
    return out


def value_stream(ctx, dist):
    """end-to-end runs whose split lists hold arbitrary values; every job must receive exactly the element the reference
    expansion selects (compared with a type-strict equality), every other field its default. The reference jobs are
    G.py_expand (the harness' transcription of Spec.State.expand; value delivery is outside the Coq model)."""
    rng = ctx.rng
    fails = []
    dist["value_runs"] = 0
    dist["value_kinds"] = {}
    try:
        for q in range(ctx.budget(30, 300)):
            G.use_names(q % 2)
            k = rng.choice([1, 1, 2, 2, 3])
            t = G.random_tree(rng, k, p_wrap=0.1)
            sh = G.assign_shapes(rng, t, k, lens=(1, 2, 3, 3), p_consistent=0.95, allow_nd=False)
            e = G.py_expand(t, sh)
            if e is None or len(e[0]) > 18:
                continue
            values = {f: [rng.choice(G.VALUE_POOL) for _ in range(sh[f][0])] for f in range(k)}
            for f in values:
                for v in values[f]:
                    kn = type(v).__name__ + ("(falsy)" if not v else "")
                    dist["value_kinds"][kn] = dist["value_kinds"].get(kn, 0) + 1
            r = G.run_e2e_values(t, values)
            dist["value_runs"] += 1
            case = {"splitter": G.show(t), "names": list(G.FIELDS), "values": {G.FIELDS[f]: repr(v) for f, v in values.items()},
                    "value_case": {"tree": t, "values": {str(f): repr(v) for f, v in values.items()}, "names": q % 2}}
            exp = [[values[f][job[f]] if f in job else G.CONST[f] for f in range(7)] for job in e[0]]
            bad = None
            if r["out"] is None:
                bad = "the split run failed: %s" % r["exc"]
            elif len(r["out"]) != len(exp):
                bad = "number of jobs"
            else:
                for j, (o, x) in enumerate(zip(r["out"], exp)):
                    for f in range(7):
                        if not G.same_value(o[f], x[f]):
                            bad = bad or "job %d received %r for field %s instead of %r" % (j, o[f], G.FIELDS[f], x[f])
            if bad:
                fails.append(Failure(case=case, observed={"per_job_inputs": repr(r["out"])[:1500], "exc": r["exc"]},
                                     expected=repr(exp)[:1500], kind="spec",
                                     note="a job did not receive exactly the selected element of a split field (element values "
                                          "such as None, falsy values, containers, repeated elements): " + bad.split(" received ")[0]))
    finally:
        G.use_names(0)
    return fails


def strip(t):
    if t[0] == "F":
        return t
    if len(t[1]) == 1:
        return strip(t[1][0])
    return (t[0], [strip(c) for c in t[1]])


def pick(meta):
    by = {}
    for m in meta:
        by.setdefault((m["source"], m["obs"][0]), m)
    return list(by.values())[:8]


def sample(m):
    return {"splitter": G.show(m["tree"]), "shapes": m["shapes"], "level": m["level"], "source": m["source"],
            "observed": m["obs"] if m["obs"][0] != "ok" else {"jobs": len(m["obs"][1]), "first": m["obs"][1][:4]}}


def case_json(m):
    c = {"tree": m["tree"], "splitter": G.show(m["tree"]), "shapes": m["shapes"], "level": m["level"]}
    if m.get("before"):
        # earlier submissions of the same task and values (same process; same cache root where flagged)
        c["submitted_before_in_the_same_process"] = [
            {"tree": b["tree"], "splitter": G.show(b["tree"]), "same_cache_root": b["same_cache_root"]} for b in m["before"]]
    return c


def expected(ctx, m, kind):
    fn = "spec_result" if kind == "spec" else "prepare_states"
    try:
        v = coqio.eval_terms(ctx.scratch, "x%d" % abs(hash(json.dumps(case_json(m)))), IMPORTS,
                             ["rows (%s (envof %s) %s)" % (fn, G.coq_shapes(m["shapes"]), G.to_coq(m["tree"]))], extra=EXTRA)
        return v[0]
    except Exception as e:  # noqa: BLE001
        return "coq evaluation failed: %r" % (e,)


def replay(ctx, payload):
    c = payload["case"]
    if "value_case" in c:
        import ast
        vc = c["value_case"]
        G.use_names(vc["names"])
        t = G.from_json(vc["tree"])
        values = {int(f): ast.literal_eval(v) for f, v in vc["values"].items()}
        r = G.run_e2e_values(t, values)
        print("splitter:", G.show(t), "values:", {G.FIELDS[f]: v for f, v in values.items()})
        print("implementation, per-job inputs:", r["out"], r["exc"] or "")
        e = G.py_expand(t, [[len(values.get(f, [0]))] for f in range(max(values) + 1)])
        print("reference:", [[values[f][job[f]] if f in job else G.CONST[f] for f in range(7)] for job in e[0]])
        G.use_names(0)
        return
    t = G.from_json(c["tree"])
    shapes = c["shapes"]
    print("splitter:", G.show(t), "shapes:", shapes, "level:", c.get("level", "state"))
    croot = None
    before = c.get("submitted_before_in_the_same_process") or []
    if any(b["same_cache_root"] for b in before):
        croot = tempfile.mkdtemp(prefix="verif_c01_seq_")
    for b in before:
        bt = G.from_json(b["tree"])
        print("  submitted first (%s):" % ("same cache root" if b["same_cache_root"] else "own cache root, same process"),
              G.show(bt), "->", observe(bt, shapes, "e2e", cache_root=croot if b["same_cache_root"] else None)[0])
    try:
        obs, note, det = observe(t, shapes, c.get("level", "state"), cache_root=croot)
    finally:
        if croot:
            shutil.rmtree(croot, ignore_errors=True)
    print("implementation:", obs, det, note or "")
    vals = coqio.eval_terms(ctx.scratch, "replay", IMPORTS,
                            ["rows (prepare_states (envof %s) %s)" % (G.coq_shapes(shapes), G.to_coq(t)),
                             "rows (spec_result (envof %s) %s)" % (G.coq_shapes(shapes), G.to_coq(t))], extra=EXTRA)
    print("model:", vals[0])
    print("spec :", vals[1])
