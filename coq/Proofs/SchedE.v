(* Proofs/SchedE.v — the asynchronous loop keeps its invariant, for every oracle. *)
From Pydra Require Import Base.Prelude Base.SchedBase Model.Sched Spec.Sched Proofs.SchedA Proofs.SchedSpec Proofs.SchedB Proofs.SchedC Proofs.SchedD.
Local Open Scope nat_scope.

Lemma remove_nth_length {A} (l : list A) i : i < List.length l -> S (List.length (remove_nth i l)) = List.length l.
Proof.
  revert i. induction l as [|x l IH]; intros i; cbn; [lia|].
  destruct i; [reflexivity|]. intros H. cbn. rewrite IH; [reflexivity|lia].
Qed.
Lemma remove_nth_In {A} (x : A) l i : In x (remove_nth i l) -> In x l.
Proof.
  revert i. induction l as [|y l IH]; intros i; cbn; [destruct i; tauto|].
  destruct i; [auto|]. intros [H|H]; [auto|right; eapply IH; eauto].
Qed.

Lemma count_launch_cons_l j tr : count_launch (ELaunch j :: tr) = S (count_launch tr).
Proof. reflexivity. Qed.
Lemma count_launch_cons_f j b tr : count_launch (EFinish j b :: tr) = count_launch tr.
Proof. reflexivity. Qed.
Lemma count_finish_cons_l j tr : count_finish (ELaunch j :: tr) = count_finish tr.
Proof. reflexivity. Qed.
Lemma count_finish_cons_f j b tr : count_finish (EFinish j b :: tr) = S (count_finish tr).
Proof. reflexivity. Qed.

Lemma NoDup_app_snoc {A} (l : list A) x : NoDup l -> ~ In x l -> NoDup (l ++ [x]).
Proof.
  induction l as [|y l IH]; cbn; intros ND Hx.
  - constructor; [tauto|constructor].
  - inversion ND; subst. constructor.
    + intros H. apply in_app_or in H. destruct H as [H|[H|[]]]; [contradiction|]. apply Hx. left; symmetry; exact H.
    + apply IH; auto.
Qed.

Section Inv.
Variable V : Type.
Variable body : nat -> nat -> list (list (option V)) -> V.
Variable fails : job -> bool.
Variable vr : variant.
Hypothesis F14 : fix14 vr = true.
Variable g : graph.
Hypothesis WF : wf_graph g.
Variable kmax : option nat.

Notation world := (world V).
Notation nstate := (nstate V).
Notation sstate := (sstate V).
Notation lstate := (lstate V).
Notation NInv := (NInv V fails g).
Notation GInv := (GInv V fails g).
Notation WInv := (WInv V fails).
Notation upstream_ok := (upstream_ok V g).
Notation task_ok := (task_ok V fails g).
Notation runs := (@runs V).
Notation wle := (wle V).
Notation safe_rev := (safe_rev g).

(* every successful result is the body applied to the successful results of the upstream jobs *)
Definition VInv (w : world) : Prop :=
  forall n i v, lookup (n, i) (results w) = Some (Some v) ->
  exists nd, find_node g n = Some nd /\ upstream_ok w n /\ v = body n i (inputs_from V g w nd).

Lemma VInv_mono_entry (w w' : world) n i v nd :
  wle w w' -> find_node g n = Some nd -> upstream_ok w n -> v = body n i (inputs_from V g w nd) ->
  upstream_ok w' n /\ v = body n i (inputs_from V g w' nd).
Proof.
  intros H F U E. split; [eapply upstream_ok_mono; eauto|].
  rewrite (inputs_from_mono V g w w' n nd H F U). exact E.
Qed.

(* the part of the loop invariant that speaks of futures, results and the event log *)
Record TInv (w : world) (fut pend errs : list job) (tr : list event) : Prop := {
  ti_ok_trace : forall j, is_ok w j = true -> In (EFinish j true) tr;
  ti_safe : safe_rev tr;
  ti_fut : launches_of (rev tr) = fut;
  ti_nodup : NoDup fut;
  ti_fut_ok : forall j, In j fut -> In j (all_jobs g) /\ tainted_b g fails (fst j) = false;
  ti_pend_fut : forall j, In j pend -> In j fut;
  ti_res_fut : forall j, is_none w j = false -> In j fut;
  ti_err_fut : forall j, In j errs <-> In (EFinish j false) tr;
  ti_err_res : forall j, is_err w j = true -> In j errs;
  ti_fin_fails : forall j b, In (EFinish j b) tr -> In j fut /\ fails j = negb b;
  ti_count : count_launch tr = count_finish tr + List.length pend;
  ti_pk : forall k, fix16 vr = true -> kmax = Some k -> List.length pend <= k;
  ti_conc : forall k, fix16 vr = true -> kmax = Some k -> conc_rev k tr
}.

Lemma launches_rev_cons e tr :
  launches_of (rev (e :: tr)) = launches_of (rev tr) ++ match e with ELaunch j => [j] | _ => [] end.
Proof. cbn [rev]. rewrite launches_of_app. cbn. rewrite app_nil_r. reflexivity. Qed.

Lemma launch_spec (w : world) errs tasks : forall fut pend tr acc,
  TInv w fut pend errs tr ->
  (forall j, In j tasks -> task_ok w j) ->
  let '(fut', pend', tr', acc') := launch vr kmax tasks fut pend tr acc in
  TInv w fut' pend' errs tr'
  /\ (forall j, In j pend' -> In j pend \/ In j tasks)
  /\ (forall j, In j fut -> In j fut')
  /\ (forall e, In e tr -> In e tr').
Proof.
  induction tasks as [|j tasks IH]; intros fut pend tr acc T Ht; cbn [launch].
  - split; [exact T|split; [|split]]; auto.
  - destruct (negb (mem_job j fut) && below_limit vr kmax pend) eqn:C.
    + apply andb_true_iff in C. destruct C as [C1 C2]. apply negb_true_iff in C1.
      assert (Hnf : ~ In j fut). { intros H. apply mem_job_In in H. congruence. }
      destruct (Ht j (or_introl eq_refl)) as [Hup [Hall Htn]].
      assert (T' : TInv w (fut ++ [j]) (pend ++ [j]) errs (ELaunch j :: tr)).
      { destruct T as [A B C D E F G H I J K L M]. constructor.
        - intros q Hq. right. apply A; exact Hq.
        - split; [|exact B]. intros q Hq. apply A. apply Hup. exact Hq.
        - rewrite launches_rev_cons, C. reflexivity.
        - apply NoDup_app_snoc; auto.
        - intros q Hq. apply in_app_or in Hq. destruct Hq as [Hq|[<-|[]]]; auto.
        - intros q Hq. apply in_app_or in Hq. apply in_or_app. destruct Hq as [Hq|Hq]; auto.
        - intros q Hq. apply in_or_app. left. apply G; exact Hq.
        - intros q. rewrite H. split; [intros X; right; exact X|intros [X|X]; [discriminate|exact X]].
        - exact I.
        - intros q b [X|X]; [discriminate|]. destruct (J q b X). split; [apply in_or_app; left|]; auto.
        - rewrite count_launch_cons_l, count_finish_cons_l, app_length, K. cbn. lia.
        - intros k Hf Hk. rewrite app_length. cbn. unfold below_limit in C2. rewrite Hf, Hk in C2.
          apply Nat.ltb_lt in C2. lia.
        - intros k Hf Hk. split; [|apply M; auto].
          rewrite count_launch_cons_l, count_finish_cons_l, K. unfold below_limit in C2. rewrite Hf, Hk in C2.
          apply Nat.ltb_lt in C2. lia. }
      specialize (IH (fut ++ [j]) (pend ++ [j]) (ELaunch j :: tr) (acc ++ [j]) T' (fun q Hq => Ht q (or_intror Hq))).
      destruct (launch vr kmax tasks (fut ++ [j]) (pend ++ [j]) (ELaunch j :: tr) (acc ++ [j])) as [[[f' p'] t'] a'].
      destruct IH as [A [B [C' D]]]. split; [exact A|split; [|split]].
      * intros q Hq. destruct (B q Hq) as [X|X]; [|right; right; exact X].
        apply in_app_or in X. destruct X as [X|[<-|[]]]; auto. right; left; reflexivity.
      * intros q Hq. apply C'. apply in_or_app; left; exact Hq.
      * intros e He. apply D. right; exact He.
    + specialize (IH fut pend tr acc T (fun q Hq => Ht q (or_intror Hq))).
      destruct (launch vr kmax tasks fut pend tr acc) as [[[f' p'] t'] a'].
      destruct IH as [A [B [C' D]]]. split; [exact A|split; [|split]]; auto.
      intros q Hq. destruct (B q Hq) as [X|X]; [left; exact X|right; right; exact X].
Qed.

Lemma all_jobs_node n i : In (n, i) (all_jobs g) -> exists nd, In nd g /\ nid nd = n /\ i < njobs nd.
Proof.
  unfold all_jobs. intros H. apply in_flat_map in H. destruct H as [nd [Hnd H]].
  unfold jobs_of in H. apply in_map_iff in H. destruct H as [k [E Hk]]. inversion E; subst.
  apply in_seq in Hk. exists nd. repeat split; auto. lia.
Qed.

Lemma lookup_app_cases (res : list (job * option V)) j v q x :
  lookup q (res ++ [(j, v)]) = Some x -> lookup q res = Some x \/ (lookup q res = None /\ q = j /\ x = v).
Proof.
  rewrite lookup_app. destruct (lookup q res) as [y|] eqn:E.
  - intros H; left; exact H.
  - destruct (job_eqb q j) eqn:Q; [|discriminate]. apply job_eqb_eq in Q. intros H. inversion H. right; auto.
Qed.

(* one completion *)
Lemma finish_spec (w0 : world) ss fut res vis pend pend' errs tr j :
  GInv w0 ss -> wle w0 (mkW res vis) -> WInv (mkW res vis) -> VInv (mkW res vis) ->
  TInv (mkW res vis) fut pend errs tr ->
  runs ss j -> In j pend ->
  (forall q, In q pend' -> In q pend) -> S (List.length pend') = List.length pend ->
  let v := job_result body fails ss j in
  let W' := mkW (res ++ [(j, v)]) vis in
  wle (mkW res vis) W' /\ WInv W' /\ VInv W'
  /\ TInv W' fut pend' (match v with None => errs ++ [j] | Some _ => errs end)
          (EFinish j (match v with None => false | Some _ => true end) :: tr).
Proof.
  intros G L W Vi T R Hj Hsub Hlen. cbv zeta.
  remember (job_result body fails ss j) as v eqn:Hv.
  set (W' := mkW (res ++ [(j, v)]) vis).
  assert (LW : wle (mkW res vis) W') by (apply (wle_app V (mkW res vis))).
  unfold job_result in Hv.
  assert (Hok : forall q, is_ok W' q = true -> is_ok (mkW res vis) q = true \/ (q = j /\ fails j = false)).
  { intros q. unfold is_ok, probe_job. cbn.
    destruct (lookup q (res ++ [(j, v)])) as [[x|]|] eqn:E; try discriminate. intros _.
    destruct (lookup_app_cases _ _ _ _ _ E) as [E1|[_ [-> E2]]]; [left; rewrite E1; reflexivity|].
    right. split; [reflexivity|]. rewrite Hv in E2. destruct (fails j); [discriminate|reflexivity]. }
  assert (Herr : forall q, is_err W' q = true -> is_err (mkW res vis) q = true \/ (q = j /\ fails j = true /\ v = None)).
  { intros q. unfold is_err, probe_job. cbn.
    destruct (lookup q (res ++ [(j, v)])) as [[x|]|] eqn:E; try discriminate. intros _.
    destruct (lookup_app_cases _ _ _ _ _ E) as [E1|[_ [-> E2]]]; [left; rewrite E1; reflexivity|].
    right. split; [reflexivity|]. rewrite Hv in E2. destruct (fails j) eqn:Fj; [|discriminate]. split; [reflexivity|]. first [exact Hv|rewrite Hv, Fj; reflexivity|congruence]. }
  assert (Hnone : forall q, is_none W' q = false -> is_none (mkW res vis) q = false \/ q = j).
  { intros q. unfold is_none, probe_job. cbn.
    destruct (lookup q (res ++ [(j, v)])) as [x|] eqn:E; [|discriminate]. intros _.
    destruct (lookup_app_cases _ _ _ _ _ E) as [E1|[_ [-> _]]]; [left; rewrite E1; destruct x; reflexivity|right; reflexivity]. }
  destruct T as [A B C D E F Gf H Ie J K Lk M].
  split; [exact LW|split; [|split]].
  - (* WInv *)
    intros q. split.
    + intros Q. destruct (Hok q Q) as [Q1|[-> Q1]]; [apply (proj1 (W q)); exact Q1|exact Q1].
    + intros Q. destruct (Herr q Q) as [Q1|[-> [Q1 _]]]; [apply (proj2 (W q)); exact Q1|exact Q1].
  - (* VInv *)
    intros n i x Hl. cbn in Hl. destruct (lookup_app_cases _ _ _ _ _ Hl) as [E1|[_ [Ej Ex]]].
    + destruct (Vi n i x E1) as [nd [Fn [U Ev]]]. exists nd. split; [exact Fn|].
      apply (VInv_mono_entry (mkW res vis) W' n i x nd LW Fn U Ev).
    + subst j. destruct (E (n, i) (F _ Hj)) as [Hall _].
      destruct (all_jobs_node n i Hall) as [nd [Hnd [Hn Hi]]]. subst n.
      pose proof (topo_b_find [] g nd WF Hnd) as Fn.
      destruct R as [Fl Un]. cbn in Fl, Un.
      pose proof (gi_node _ _ _ _ _ G (nid nd)) as In_.
      pose proof (ni_upstream _ _ _ _ _ _ In_ Fl Un) as U0.
      pose proof (ni_inputs _ _ _ _ _ _ In_ Fl Un nd Fn) as I0.
      exists nd. split; [exact Fn|].
      assert (L0 : wle w0 W') by (eapply wle_trans; eauto).
      apply (VInv_mono_entry w0 W' (nid nd) i x nd L0 Fn U0).
      rewrite Hv in Ex. cbn in Ex. destruct (fails (nid nd, i)); [discriminate|]. inversion Ex. rewrite I0. reflexivity.
  - (* TInv *)
    constructor.
    + intros q Q. destruct (Hok q Q) as [Q1|[-> Q1]]; [right; apply A; exact Q1|].
      left. rewrite Hv, Q1. reflexivity.
    + split; [exact I|exact B].
    + rewrite launches_rev_cons, C, app_nil_r. reflexivity.
    + exact D.
    + exact E.
    + intros q Hq. apply F. apply Hsub. exact Hq.
    + intros q Q. destruct (Hnone q Q) as [Q1|Q1]; [apply Gf; exact Q1|subst q; apply F; exact Hj].
    + intros q. rewrite Hv. destruct (fails j) eqn:Fj.
      * rewrite in_app_iff, H. cbn. split.
        -- intros [X|[<-|[]]]; auto.
        -- intros [X|X]; [inversion X; right; left; reflexivity|left; exact X].
      * rewrite H. cbn. split; [intros X; right; exact X|intros [X|X]; [discriminate|exact X]].
    + intros q Q. destruct (Herr q Q) as [Q1|[-> [_ Q1]]].
      * pose proof (Ie q Q1) as X. destruct v; [exact X|apply in_or_app; left; exact X].
      * rewrite Q1. apply in_or_app. right; left; reflexivity.
    + intros q b [X|X].
      * inversion X; subst q. split; [apply F; exact Hj|]. rewrite Hv. destruct (fails j); reflexivity.
      * apply J; exact X.
    + rewrite count_launch_cons_f, count_finish_cons_f, K. lia.
    + intros k Hf Hk. pose proof (Lk k Hf Hk). lia.
    + intros k Hf Hk. split; [|apply M; auto].
      rewrite count_launch_cons_f, count_finish_cons_f, K. pose proof (Lk k Hf Hk). lia.
Qed.

End Inv.
