"""C33 — workflow output files are collected without clashes or loss
(pydra/engine/result.py copyfile_workflow, pydra/utils/typing.py copy_nested_files / apply_to_instances).

Also holds the machinery shared with C34 (sandbox of real temp files, snapshots, encoders)."""
import collections.abc as cabc
import os
import shutil
import tempfile
import time
import typing as ty
from pathlib import Path

from .lib import coqio
from .lib.runner import Outcome, Failure

PROP = "C33"
PROPS_FILE = "Props/C33.v"
IMPORTS = ["Base.PyPath", "Model.Mount", "Model.CopyFiles", "Spec.CopyFiles"]
MANIFEST = dict(
    text="PARTIAL (the guarantees about destinations are fileformats' FileSet.copy's: assumed as an explicit contract, "
         "and tested on every run). Theorems (Coq, closed under the global context), for every value tree of "
         "lists/tuples/dicts with file leaves, every mount table and every initial file system: C33_collected / "
         "C33_shape / C33_injective / C33_content — for any FileSet.copy meeting copy_contract, whenever "
         "copyfile_workflow succeeds the result has the input's shape with equal non-file leaves, every file leaf is in "
         "the workflow directory with the source's class and content, sources are intact, each destination is a hard "
         "link or an independent copy as the mounts allow, and distinct sources never share a destination (invariant: "
         "all destinations so far are in the shared clashes_to_avoid set and pairwise distinct); C33_ff_contract — the "
         "model of fileformats' naming/clash-counter algorithm (single-path file-sets) meets the contract; C33_total / "
         "C33_full — with that model and existing sources, whatever the workflow directory already holds, collection never fails; "
         "C33_save_safe — no collected file bears a name the engine keeps in that directory (`_result.pklz`, ...), so the "
         "result pickle written afterwards is a new file and leaves every collected file and source intact "
         "(pigeonhole on the injective clash-counter names). Tie: copyfile_workflow / copy_nested_files are run on real "
         "temp files (directly and through real workflows under the debug worker) and the model and the executable spec "
         "are evaluated on the same cases inside Coq.",
    note="Trusted: Coq kernel + vm_compute; hand-written model; copy_contract is an assumption about fileformats "
         "(checked against the real FileSet.copy by correspondence only); multi-path file-sets, the id()-cache of "
         "apply_to_instances (provably dead code) and fileformats' own mount checks are not modelled.",
    technique="Coq proof (state-passing model of the traversal, invariant over the sequence of FileSet.copy calls, "
              "pigeonhole for the clash counter) + model/impl correspondence via generated cases.v on real files",
    design="§8 Group H / C33-C34",
)
TIE_NAME = "Model.CopyFiles.copyfile_workflow(ff_copy) vs pydra.engine.result.copyfile_workflow + fileformats FileSet.copy"
TRUSTED = [
    "Model/CopyFiles.v: hand-written model of apply_to_instances, copy_nested_files (memo keyed by FileSet equality = "
    "class + fspaths, mount narrowing), copyfile_workflow, Job.inputs; Model/Mount.v + Base/PyPath.v for the mount lookup",
    "copy_contract (Proofs/CopyFiles.v), the assumed behaviour of fileformats' FileSet.copy on success: the way used is "
    "within mode & supported_modes; 'leave' changes nothing; otherwise the result has the same class, lies directly in "
    "dest_dir, is not in avoid_clashes, did not exist, the set gains exactly it, no other path is created/removed, data "
    "of existing inodes is untouched, and the new path is the source's inode (link) or a fresh inode with the source's "
    "data (copy). Tested by the correspondence run on the real fileformats, not proved about it.",
    "ff_copy: model of fileformats' _src_dest_pairs/_new_copy_path/_destination_to_avoid for single-path file-sets "
    "(pathlib stem/suffix, '{stem} ({counter})' template, laziest-mode preference); its fuel stands for an unbounded loop",
    "file system abstraction: path -> inode -> content; a directory is one object whose content is its tree listing; "
    "symlinks are modelled as sharing the inode (in-place modification only)",
]
ASSUMPTIONS = [
    "file-sets have a single fspath (File, Directory, FsObject, TextFile); multi-path file-sets are outside the model",
    "output files exist when collection starts (FileSet validates this on construction)",
    "dict outputs are modelled as their flattened key/value sequence (file keys that collapse after copying are not modelled)",
]
RULE = ("nested list/tuple/dict values (depth <= 3) over real temp files and directories with colliding names from up "
        "to 4 directories, every single-path FileSet flavour (File, BinaryFile, TextFile, SetOf[TextFile], FsObject, "
        "Directory, TypedDirectory, DirectoryOf[TextFile], DirectoryOf[Optional[TextFile]] — the typed directories both "
        "truthy and falsy, i.e. holding only foreign files), falsy non-file leaves (0, '', (), b'', None) next to them; same "
        "object repeated, equal file-sets, different classes on one path, counter-like names, "
        "1-3 output fields, dict keys strs (direct mode: also file-sets), optional patched mount table, optional "
        "pre-existing entries in the target directory; run through copyfile_workflow directly, through real "
        "workflows returning the values, and through real workflows whose outputs are those of SPLIT and combined "
        "nodes over the values (Any and list[Any] typed); non-trivial = at least two file leaves sharing a name from different sources, or a file-set "
        "occurring in two places")

NAMES = ["f.txt", "f.txt", "f.txt", "g.txt", "f", "f (1).txt", ".hid", "a.b.c", "x.tar.gz", "d", "d.x", "f (1)",
         "_job.pklz", "_result.pklz", "_error.pklz"]
DIRS = ["d1", "d2", "d3", "d4"]


# ---------------------------------------------------------------- sandbox of real files
class Sandbox:
    """A temp root with source directories; knows how to canonicalise paths, snapshot and modify."""

    def __init__(self, base):
        self.root = Path(tempfile.mkdtemp(prefix="case", dir=base))
        self.sources = {}      # real path str -> kind ("file" | "dir")
        self.counter = 0
        self.dest = None       # real destination directory (Path)
        self.dest_canon = "/T/dest"
        self.inos = {}         # real st_ino -> small id
        self.engine = {}       # names of the engine's own files in the destination -> fixed inode id

    def mkfile(self, d, name):
        p = self.root / d / name
        p.parent.mkdir(parents=True, exist_ok=True)
        if str(p) not in self.sources:
            self.counter += 1
            p.write_text("C%d" % self.counter)
            self.sources[str(p)] = "file"
        return p

    def mkdir(self, d, name, rng):
        p = self.root / d / name
        if str(p) not in self.sources:
            p.mkdir(parents=True)
            self.counter += 1
            # half of the directories hold only "foreign" files: typed directories over them are falsy
            (p / ("in.txt" if rng.random() < 0.5 else "in.bin")).write_text("C%d" % self.counter)
            if rng.random() < 0.4:
                (p / "sub").mkdir()
                (p / "sub" / "deep").write_text("C%dd" % self.counter)
            self.sources[str(p)] = "dir"
        return p

    def canon(self, p):
        s = str(p)
        if self.dest is not None:
            ds = str(self.dest)
            if s == ds:
                return self.dest_canon
            if s.startswith(ds + "/"):
                return self.dest_canon + s[len(ds):]
        rs = str(self.root)
        if s == rs or s.startswith(rs + "/"):
            return "/T" + s[len(rs):]
        return s

    def cpath(self, p):
        c = self.canon(p)
        d, _, n = c.rpartition("/")
        return (d, n)

    @staticmethod
    def _files_under(p):
        out = []
        for dp, dns, fns in os.walk(p):
            dns.sort()
            for fn in sorted(fns):
                out.append(os.path.join(dp, fn))
        return out

    def content(self, p):
        p = str(p)
        if os.path.isdir(p):
            files = self._files_under(p)
            texts = [open(f).read() for f in files]
            if texts and all(t == texts[0] and t.startswith("MODIFIED:") for t in texts):
                return texts[0]
            return "DIR[" + ";".join("%s=%s" % (os.path.relpath(f, p), t) for f, t in zip(files, texts)) + "]"
        return open(p, errors="replace").read()

    def ino(self, p):
        p = str(p)
        if os.path.isdir(p):
            files = self._files_under(p)
            real = os.stat(files[0]).st_ino if files else os.stat(p).st_ino
        else:
            real = os.stat(p).st_ino
        return self.inos.setdefault(real, len(self.inos) + 1)

    def dest_entries(self):
        if self.dest is None or not self.dest.is_dir():
            return []
        return [self.dest / n for n in sorted(os.listdir(self.dest))]

    def snapshot(self, hide=()):
        """[(canonical (dir, name), inode id, content)] for every source and every entry of the destination."""
        out = []
        for p in list(self.sources):
            if os.path.lexists(p):
                out.append((self.cpath(p), self.ino(p), self.content(p)))
        for q in self.dest_entries():
            if q.name in hide:
                continue
            if q.name in self.engine:
                out.append((self.cpath(q), self.engine[q.name], "ENGINE"))
            else:
                out.append((self.cpath(q), self.ino(q), self.content(q)))
        return out

    def symlinks(self):
        """Canonical paths of the destination's entries that are symbolic links."""
        return [self.cpath(q) for q in self.dest_entries() if os.path.islink(q)]

    def modify_sources(self, leaves):
        """Overwrite, in place, every source that is a leaf with a marker naming it."""
        for real in leaves:
            marker = "MODIFIED:" + self.canon(real)
            if os.path.isdir(real):
                for f in self._files_under(real):
                    with open(f, "r+") as fh:
                        fh.seek(0)
                        fh.truncate()
                        fh.write(marker)
            else:
                with open(real, "r+") as fh:
                    fh.seek(0)
                    fh.truncate()
                    fh.write(marker)

    def close(self):
        shutil.rmtree(self.root, ignore_errors=True)


_CLASSES = None


def fileset_classes():
    """Every single-path FileSet flavour available here, under stable labels (two parametrised classes can share
    a __name__).  TypedDirectory / DirectoryOf[Optional[...]] are *falsy* when they hold none of their typed
    contents (len() == 0) although the directory exists and holds other files."""
    global _CLASSES
    if _CLASSES is None:
        from fileformats.generic import File, Directory, FsObject, TypedDirectory, DirectoryOf, SetOf, BinaryFile
        from fileformats.text import TextFile
        _CLASSES = {"File": File, "Directory": Directory, "FsObject": FsObject, "TextFile": TextFile,
                    "BinaryFile": BinaryFile, "TypedDirectory": TypedDirectory,
                    "DirectoryOfText": DirectoryOf[TextFile], "DirectoryOfOptText": DirectoryOf[ty.Optional[TextFile]],
                    "SetOfText": SetOf[TextFile]}
    return _CLASSES


def class_label(v):
    for k, c in fileset_classes().items():
        if type(v) is c:
            return k
    raise OutOfModel("file-set class %s" % type(v).__name__)


FALSY_OK = True   # C34's driver leaves this on as well; a flag so that a driver can restrict the pool


def gen_leaf_pool(rng, sb, n):
    """n file-set objects over colliding names; includes equal-but-distinct objects, class variants, and typed
    directories that are falsy (no typed contents) or truthy."""
    cls = fileset_classes()
    pool = []
    for _ in range(n):
        d = rng.choice(DIRS)
        name = rng.choice(NAMES)
        if pool and rng.random() < 0.15:
            other = rng.choice(pool)
            p = Path(fsp(other))
            kind = sb.sources[str(p)]
        elif rng.random() < 0.3:
            p, kind = sb.mkdir(d, name, rng), "dir"
            if sb.sources[str(p)] != "dir":
                kind = "file"
        else:
            p, kind = sb.mkfile(d, name), "file"
            if sb.sources[str(p)] != "file":
                kind = "dir"
        if kind == "dir":
            has_txt = (p / "in.txt").exists()
            c = rng.choice(["Directory", "Directory", "FsObject", "TypedDirectory", "TypedDirectory", "DirectoryOfOptText"]
                           + (["DirectoryOfText"] if has_txt else ["DirectoryOfOptText"]))
        else:
            c = rng.choice(["File", "File", "File", "FsObject", "BinaryFile"]
                           + (["TextFile", "SetOfText"] if p.name.endswith(".txt") else []))
        pool.append(cls[c](p))
    return pool


ATOMS = [0, 0, 1, 7, "", "", "s", "f.txt", None, True, False, 2.5, 0.0, b"ab", b"", ()]


def gen_value(rng, pool, depth, want_file=True, file_keys=False):
    r = rng.random()
    if depth == 0 or r < 0.35:
        if pool and (want_file or rng.random() < 0.6):
            return rng.choice(pool)
        return rng.choice(ATOMS)
    n = rng.choice([0, 1, 2, 2, 3, 4])
    kind = rng.choice(["list", "list", "tuple", "dict"])
    items = [gen_value(rng, pool, depth - 1, want_file=rng.random() < 0.7, file_keys=file_keys) for _ in range(n)]
    if kind == "list":
        return items
    if kind == "tuple":
        return tuple(items)
    keys = []
    for i in range(n):
        k = rng.choice(["k%d" % i, "%d" % i, "f.txt%d" % i])   # str keys: pydra's hashing sorts dict keys
        if file_keys and pool and rng.random() < 0.2:          # file-sets as keys (they are traversed too): direct mode only
            c = rng.choice(pool)
            if c not in keys:
                k = c
        keys.append(k)
    return dict(zip(keys, items))


def gen_table(rng, sb):
    """A patched mount table (real paths) and its canonical form; None = leave the real table."""
    if rng.random() < 0.55:
        return None
    ents = []
    for d in rng.sample(DIRS, rng.choice([1, 2, 3])):
        ents.append((str(sb.root / d), rng.choice(["cifs", "ext4", "nfs", "cifs"])))
    if rng.random() < 0.3:
        ents.append((str(sb.root), rng.choice(["ext4", "cifs"])))
    ents.sort(key=lambda e: -len(e[0]))
    return ents


# ---------------------------------------------------------------- encoders
def is_container(v):
    from fileformats.generic import FileSet
    return not isinstance(v, (str, FileSet)) and isinstance(v, (cabc.Mapping, cabc.Sequence)) and not isinstance(v, (bytes, bytearray))


class OutOfModel(Exception):
    pass


def fsp(v):
    """The (first) fspath of a file-set as a str (str(v) is not the path for every flavour)."""
    return str(sorted(v.fspaths)[0])


def enc_path(cp):
    return coqio.pair(coqio.string(cp[0]), coqio.string(cp[1]))


def enc_value(sb, v):
    from fileformats.generic import FileSet
    if isinstance(v, FileSet):
        if len(v.fspaths) != 1:
            raise OutOfModel("multi-path file-set %r" % (v,))
        (p,) = tuple(v.fspaths)
        return '(VFile (%s, %s))' % (coqio.string(class_label(v)), enc_path(sb.cpath(p)))
    if is_container(v):
        if isinstance(v, cabc.Mapping):
            items = []
            for k, x in v.items():
                items += [enc_value(sb, k), enc_value(sb, x)]
            return "(VCont CDict %s)" % coqio.lst(items)
        kind = "CTuple" if isinstance(v, tuple) else "CList"
        return "(VCont %s %s)" % (kind, coqio.lst([enc_value(sb, x) for x in v]))
    r = "<callable>" if callable(v) else repr(v)
    r = r.replace(str(sb.root), "/T")
    return "(VAtom %s %s)" % (coqio.string(type(v).__name__ + ":" + r), coqio.boolean(bool(v)))


def describe(sb, v):
    """JSON-able rendering of a value (for samples and replays)."""
    from fileformats.generic import FileSet
    if isinstance(v, FileSet):
        p = tuple(v.fspaths)[0]
        try:
            label = class_label(v)
        except OutOfModel:
            label = type(v).__name__
        return ({"fileset": label, "path": "/".join(sb.cpath(p))} | ({"dir": True} if os.path.isdir(p) else {})
                | ({"falsy": True} if not v else {}))
    if is_container(v):
        if isinstance(v, cabc.Mapping):
            return {"dict": [[describe(sb, k), describe(sb, x)] for k, x in v.items()]}
        return {"tuple" if isinstance(v, tuple) else "list": [describe(sb, x) for x in v]}
    return {"atom": "<callable>" if callable(v) else repr(v).replace(str(sb.root), "/T")}


def rebuild(sb, d, cls=None):
    """Inverse of describe against a sandbox (creates the files as needed) — used by replay/corpus."""
    cls = cls or fileset_classes()
    if "fileset" in d:
        rel = d["path"][len("/T/"):]
        dd, _, name = rel.rpartition("/")
        real = sb.root / dd / name
        if not real.exists():
            if d["fileset"] in ("Directory", "TypedDirectory", "DirectoryOfText", "DirectoryOfOptText") or d.get("dir"):
                real.mkdir(parents=True)
                sb.counter += 1
                (real / ("in.bin" if d.get("falsy") else "in.txt")).write_text("C%d" % sb.counter)
                sb.sources[str(real)] = "dir"
            else:
                sb.mkfile(dd, name)
        return cls[d["fileset"]](real)
    if "dict" in d:
        return {rebuild(sb, k, cls): rebuild(sb, x, cls) for k, x in d["dict"]}
    if "list" in d:
        return [rebuild(sb, x, cls) for x in d["list"]]
    if "tuple" in d:
        return tuple(rebuild(sb, x, cls) for x in d["tuple"])
    return eval(d["atom"], {"__builtins__": {}}, {})   # reprs of ints/strs/None/bools/bytes/floats only


def leaves_of(v, acc=None):
    from fileformats.generic import FileSet
    acc = [] if acc is None else acc
    if isinstance(v, FileSet):
        acc.append(v)
    elif is_container(v):
        if isinstance(v, cabc.Mapping):
            for k, x in v.items():
                leaves_of(k, acc)
                leaves_of(x, acc)
        else:
            for x in v:
                leaves_of(x, acc)
    return acc


def enc_snap(snap):
    return coqio.lst([coqio.pair(enc_path(p), coqio.nat(i), coqio.string(c)) for p, i, c in snap])


def enc_obs2(snap):
    return coqio.lst([coqio.pair(enc_path(p), coqio.string(c)) for p, i, c in snap])


def enc_table(sb, tab):
    return coqio.lst([coqio.pair(coqio.string(sb.canon(p)), coqio.string(t)) for p, t in (tab or [])])


def exc_kind(e):
    n = type(e).__name__
    if isinstance(e, FileExistsError):
        return "EExists"
    if n == "UnsatisfiableCopyModeError":
        return "EUnsat"
    return "EOther:" + n


COQ_COMMON = r"""
Local Open Scope string_scope.
Definition snap := list (path * nat * string).
Definition fs_of (s : snap) : fsT :=
  mkfs (map (fun x => (fst (fst x), snd (fst x))) s) (map (fun x => (snd (fst x), snd x)) s).
Definition strip (s : snap) : obs := map (fun x => (fst (fst x), snd x)) s.
Definition onat_eqb := option_eqb Nat.eqb.
Fixpoint value_eqb (a b : value) : bool :=
  match a, b with
  | VAtom r t, VAtom r' t' => String.eqb r r' && Bool.eqb t t'
  | VFile f, VFile f' => fileset_eqb f f'
  | VCont k l, VCont k' l' =>
      ckind_eqb k k' &&
      (fix go (l l' : list value) : bool :=
         match l, l' with
         | [], [] => true
         | x :: r, x' :: r' => value_eqb x x' && go r r'
         | _, _ => false
         end) l l'
  | _, _ => false
  end.
(* the model's file system agrees with a snapshot: contents, the same-inode relation, and no path of the
   destination directory that the snapshot does not have *)
Definition fs_matches (dest : string) (fs : fsT) (s : snap) : bool :=
  forallb (fun x => ostr_eqb (read fs (fst (fst x))) (Some (snd x))) s
  && forallb (fun a => forallb (fun b =>
       Bool.eqb (onat_eqb (ino_of fs (fst (fst a))) (ino_of fs (fst (fst b)))) (Nat.eqb (snd (fst a)) (snd (fst b)))) s) s
  && forallb (fun pi => negb (String.eqb (fst (fst pi)) dest)
                        || existsb (fun x => path_eqb (fst (fst x)) (fst pi)) s) (f_ino fs).
Definition write_all (fs : fsT) (l : list fileset) : fsT := fold_left (fun fs s => write fs (snd s) (marker s)) l fs.
Definition contents_match (fs : fsT) (o : obs) : bool :=
  forallb (fun x => ostr_eqb (read fs (fst x)) (Some (snd x))) o.
(* destinations the model created as symbolic links, in the order of creation *)
Definition sym_dsts (lg : list log_entry) : list path :=
  map (fun e => snd (snd (fst e))) (filter (fun e => way_eqb (snd e) Sym) lg).
Fixpoint insert_path (p : path) (l : list path) : list path :=
  match l with
  | [] => [p]
  | q :: r => if String.leb (snd p) (snd q) then p :: l else q :: insert_path p r
  end.
Definition sort_paths (l : list path) : list path := fold_right insert_path [] l.
Inductive oerr := OExists | OUnsat | OOther.
Definition err_matches (e : err) (o : oerr) : bool :=
  match e, o with EExists, OExists | EUnsat, OUnsat => true | _, _ => false end.
"""

COQ_C33 = COQ_COMMON + r"""
Inductive ores := ORes (outs : list value) (c1 : snap) (c2 : obs) (syms : list path) | OErr (e : oerr).
Definition case_t := (table * string * snap * list value * ores)%type.
Definition all_leaves (vs : list value) : list fileset := flat_map leaves vs.
Definition tie_ok (c : case_t) : bool :=
  let '(tab, dest, c0, fields, r) := c in
  match copyfile_workflow ff_copy tab dest fields (fs_of c0), r with
  | Ok (outs, fs1, _), ORes outs' c1 c2 syms =>
      list_eqb value_eqb (map fst outs) outs' && fs_matches dest fs1 c1
      && contents_match (write_all fs1 (all_leaves fields)) c2
      && list_eqb path_eqb (sort_paths (sym_dsts (flat_map snd outs))) (sort_paths syms)
  | Err e, OErr o => err_matches e o
  | _, _ => false
  end.
Definition spec_ok (c : case_t) : bool :=
  let '(tab, dest, c0, fields, r) := c in
  match r with
  | ORes outs' c1 c2 syms =>        (* "copied or hard-linked": never a symbolic link *)
      collected_b tab dest (strip c0) (strip c1) c2 fields outs' && match syms with [] => true | _ => false end
      && forallb (fun d => negb (existsb (String.eqb (snd (snd d))) reserved_names)) (all_leaves outs')
  | OErr _ => false
  end.
"""


def oerr(kind):
    return {"EExists": "OExists", "EUnsat": "OUnsat"}.get(kind, "OOther")


# ---------------------------------------------------------------- running the implementation
def make_outputs(values):
    import attrs
    names = ["out%d" % i for i in range(len(values))]
    cls = attrs.make_class("VerifOutputs", names)
    return cls(*values), names


def run_direct(sb, values, table):
    """copyfile_workflow on an attrs object holding the values; returns the new values."""
    from pydra.engine.result import copyfile_workflow
    from pydra.utils.mount_identifier import MountIndentifier as M
    outs, names = make_outputs(values)
    if table is None:
        res = copyfile_workflow(sb.dest, outs)
    else:
        with M.patch_table(table):
            res = copyfile_workflow(sb.dest, outs)
    return [getattr(res, n) for n in names]


def wf_class(n):
    """A real workflow with n Any-typed inputs returned unchanged through an identity node."""
    # a fresh pair of classes per case: pydra keeps per-class caches of constructed workflows, and a case
    # that failed half-way must not influence the next one
    from pydra.compose import python, workflow
    names = ["o%d" % i for i in range(n)]
    args = ", ".join("x%d: ty.Any" % i for i in range(n))
    ret = "ty.Any" if n == 1 else "tuple[%s]" % ", ".join(["ty.Any"] * n)
    src = ("def Ident(%s) -> %s:\n    return %s\n" % (args, ret, ", ".join("x%d" % i for i in range(n)))
           + "def Wf(%s) -> %s:\n    n = workflow.add(Ident(%s))\n    return %s\n" % (
               args, ret, ", ".join("x%d=x%d" % (i, i) for i in range(n)), ", ".join("n.o%d" % i for i in range(n))))
    ns = {"ty": ty, "workflow": workflow}
    exec(src, ns)
    ident = python.define(outputs=names)(ns["Ident"])
    ns["Ident"] = ident
    wf = workflow.define(outputs=names)(ns["Wf"])
    return wf, names


def run_workflow(sb, values, table):
    from pydra.engine.submitter import Submitter
    from pydra.utils.mount_identifier import MountIndentifier as M
    import contextlib
    from pydra.engine.workflow import Workflow
    Workflow.clear_cache()   # pydra's process-wide cache of constructed workflows: cases must not share it
    wf, names = wf_class(len(values))
    task = wf(**{"x%d" % i: v for i, v in enumerate(values)})
    cm = M.patch_table(table) if table is not None else contextlib.nullcontext()
    with cm:
        with Submitter(worker="debug", cache_root=sb.root / "cache") as sub:
            # the workflow's own directory is only known from the result; find it for the snapshot even on failure
            try:
                res = sub(task, raise_errors=True)
            finally:
                cands = [p for p in (sb.root / "cache").glob("workflow-*") if p.is_dir()]
                if cands:
                    sb.dest = cands[0]
    if res.errored:
        raise RuntimeError("workflow errored: %r" % (res.errors,))
    sb.dest = Path(res.cache_dir)
    return [getattr(res.outputs, n) for n in names]


def run_split_workflow(sb, items, table):
    """A real workflow whose outputs are the outputs of SPLIT nodes over `items` (one generated value tree per
    element): the un-combined state array returned loosely typed (Any) and as list[Any], and the output of a
    combined node.  Every output must come back as the list of the items, shapes intact."""
    from pydra.compose import python, workflow
    from pydra.engine.submitter import Submitter
    from pydra.utils.mount_identifier import MountIndentifier as M
    from pydra.engine.workflow import Workflow
    import contextlib
    Workflow.clear_cache()
    ns = {"ty": ty, "workflow": workflow}
    exec("def Pick(x: ty.Any) -> ty.Any:\n    return x\n", ns)
    ns["Pick"] = python.define(outputs=["out"])(ns["Pick"])
    exec("def SplitWf(items: ty.Any) -> tuple[ty.Any, list[ty.Any], ty.Any]:\n"
         "    a = workflow.add(Pick().split(x=items), name='a')\n"
         "    b = workflow.add(Pick().split(x=items).combine('x'), name='b')\n"
         "    return a.out, a.out, b.out\n", ns)
    names = ["o0", "o1", "o2"]
    wf = workflow.define(outputs=names)(ns["SplitWf"])
    task = wf(items=list(items))
    cm = M.patch_table(table) if table is not None else contextlib.nullcontext()
    with cm:
        with Submitter(worker="debug", cache_root=sb.root / "cache") as sub:
            try:
                res = sub(task, raise_errors=True)
            finally:
                cands = [p for p in (sb.root / "cache").glob("workflow-*") if p.is_dir()]
                if cands:
                    sb.dest = cands[0]
    if res.errored:
        raise RuntimeError("workflow errored: %r" % (res.errors,))
    sb.dest = Path(res.cache_dir)
    return [getattr(res.outputs, n) for n in names]


BOOKKEEPING = ("_job.pklz", "_result.pklz", "_task.pklz", "_error.pklz", "_return_values.pklz")


def one_case(ctx, rng, base, mode, spec=None):
    """Generate (or rebuild from `spec`) one case, run it, return (coq_term, meta)."""
    sb = Sandbox(base)
    os.chdir("/tmp")   # a failed run can leave the process inside a directory that is removed afterwards
    try:
        if spec is None:
            pool = gen_leaf_pool(rng, sb, rng.choice([2, 3, 4, 5, 6]))
            nf = rng.choice([1, 1, 2, 3])
            if mode == "split":
                nf = rng.choice([1, 2, 3, 4])   # elements of the split
            values = [gen_value(rng, pool, rng.choice([0, 1, 2, 3]), file_keys=(mode == "direct")) for _ in range(nf)]
            table = gen_table(rng, sb)
            pre = []
            if mode == "direct" and rng.random() < 0.3:
                # entries the directory already holds: named like an output, like a counter name, or unrelated
                lv = [Path(fsp(x)).name for v in values for x in leaves_of(v)]
                pre = sorted({rng.choice(lv + ["zz_unrelated", "f (1).txt", "f (2).txt", "_job.pklz"])
                              for _ in range(rng.choice([1, 1, 2, 3]))})
        else:
            values = [rebuild(sb, d) for d in spec["values"]]
            table = [(str(sb.root) + p[len("/T"):], t) for p, t in spec["table"]] if spec.get("table") is not None else None
            pre = spec.get("pre", [])
            mode = spec.get("mode", mode)
        hide = ()
        if mode == "direct":
            sb.dest = sb.root / "dest"
            sb.dest.mkdir()
            sb.dest_canon = "/T/dest"
            for n in pre:
                (sb.dest / n).write_text("PRE")
        else:
            sb.dest_canon = "/T/WF"
            hide = ()
        items = values
        if mode == "split":
            # what the workflow must return: each of its three outputs is the list of the items
            values = [list(items), list(items), list(items)]
        leaves = [x for v in values for x in leaves_of(v)]
        c0 = sb.snapshot()
        enc_in = [enc_value(sb, v) for v in values]   # before dest is known (workflow mode): sources only, fine
        desc_in = [describe(sb, v) for v in (items if mode == "split" else values)]
        err = None
        try:
            outs = (run_direct(sb, values, table) if mode == "direct" else
                    run_split_workflow(sb, items, table) if mode == "split" else run_workflow(sb, values, table))
        except Exception as e:  # noqa: BLE001 — every failure of the implementation is an observation
            err = exc_kind(e)
            errtxt = "%s: %s" % (type(e).__name__, str(e)[:300].replace(str(sb.root), "/T"))
        if mode != "direct":
            # the engine's own files in the workflow directory are part of the initial state of the directory
            # (`_job.pklz` is there before collection) or are written after it (`_result.pklz`)
            hide = ("_result.pklz", "_error.pklz")
            pre = [q.name for q in sb.dest_entries() if q.name in ("_job.pklz", "_task.pklz")] if sb.dest else []
            if "_job.pklz" not in pre and sb.dest is not None:
                pre = sorted(set(pre) | {"_job.pklz"})    # it was there when collection started
            sb.engine = {n: 900 + i for i, n in enumerate(pre)}
            c0 = c0 + [((sb.dest_canon, n), 900 + i, "ENGINE") for i, n in enumerate(pre)]
        names = [Path(fsp(x)).name for x in leaves]
        src_set = {fsp(x) for x in leaves}
        nontrivial = (len(names) != len(set(names)) and len(src_set) > 1) or len(leaves) != len(set(map(fsp, leaves)))
        meta = {"mode": mode, "values": desc_in, "table": [[sb.canon(p), t] for p, t in table] if table is not None else None,
                "pre": pre, "n_leaves": len(leaves), "nontrivial": bool(nontrivial),
                "taken": False}
        head = coqio.pair(enc_table(sb, table), coqio.string(sb.dest_canon), enc_snap(c0), coqio.lst(enc_in))
        if err is not None:
            before = {p: c for p, _, c in c0}
            changed = ["/".join(sb.cpath(q)) for q in sb.sources
                       if os.path.lexists(q) and before.get(sb.cpath(q)) != sb.content(q)]
            meta.update(result="error", error=err, error_text=errtxt, sources_changed=changed)
            term = coqio.pair(head[1:-1], "(OErr %s)" % oerr(err))
        else:
            c1 = sb.snapshot(hide=hide)
            syms = sb.symlinks()
            sb.modify_sources(sorted(src_set))
            c2 = sb.snapshot(hide=hide)
            meta.update(result="ok", outputs=[describe(sb, v) for v in outs],
                        dest_listing=[x[0][1] for x in c1 if x[0][0] == sb.dest_canon])
            meta["symlinks"] = ["/".join(p) for p in syms]
            term = coqio.pair(head[1:-1], "(ORes %s %s %s %s)" % (
                coqio.lst([enc_value(sb, v) for v in outs]), enc_snap(c1), enc_obs2(c2),
                coqio.lst([enc_path(p) for p in syms])))
        return term, meta
    finally:
        os.chdir("/tmp")
        sb.close()


def classify(meta):
    """No known finding is left for C33 (F33a was repaired: the reserved names are in the initial clash set)."""
    return None


MODEL_RESERVED = ("_result.pklz", "_job.pklz", "_return_values.pklz", "_error.pklz")   # Model.CopyFiles.reserved_names


def reserved_names_failure():
    """The model's constant against the live pydra.engine.result.RESERVED_CACHE_NAMES (fail closed)."""
    try:
        from pydra.engine.result import RESERVED_CACHE_NAMES as live
    except ImportError:
        live = None
    if live is None or tuple(live) != MODEL_RESERVED:
        return Failure(case={"constant": "pydra.engine.result.RESERVED_CACHE_NAMES"}, observed=repr(live),
                       expected=repr(MODEL_RESERVED), kind="tie", note="reserved names differ from the model's")
    return None


def run(ctx):
    rng = ctx.rng
    base = tempfile.mkdtemp(prefix="verif-c33-", dir="/tmp")
    n_direct = int(os.environ.get('C33_DIRECT', ctx.budget(170, 1500)))
    n_wf = int(os.environ.get('C33_WF', ctx.budget(18, 150)))
    # the machine is shared: generation also stops on a wall-clock limit (never below a floor); the counts that
    # were actually run are what the evidence reports
    limit = (60 if ctx.tier == "quick" else 330) * min(ctx.widen, 3)
    floor_direct, floor_wf = (60, 8) if ctx.tier == "quick" else (400, 40)
    cases, metas = [], []
    try:
        for spec in ctx.corpus():
            t, m = one_case(ctx, rng, base, spec.get("mode", "direct"), spec=spec)
            cases.append(t)
            metas.append(m)
        t0 = time.time()
        for i in range(n_wf):
            if i >= floor_wf and time.time() - t0 > limit * 0.3:
                break
            t, m = one_case(ctx, rng, base, "split" if i % 3 == 1 else "workflow")
            cases.append(t)
            metas.append(m)
        for i in range(n_direct):
            if i >= floor_direct and time.time() - t0 > limit:
                break
            t, m = one_case(ctx, rng, base, "direct")
            cases.append(t)
            metas.append(m)
    finally:
        shutil.rmtree(base, ignore_errors=True)
    res = coqio.run_cases(ctx.scratch, "c33", IMPORTS, "case_t", cases, {"tie": "tie_ok", "spec": "spec_ok"},
                          extra=COQ_C33, shard=150)
    dist = {"direct": 0, "workflow": 0, "split": 0, "ok": 0, "error_EExists": 0, "error_other": 0, "with_mount_table": 0,
            "leaves_0": 0, "leaves_1_3": 0, "leaves_4_plus": 0, "fields_1": 0, "fields_2_plus": 0}
    seen = set()
    nontrivial = 0
    for m in metas:
        dist[m["mode"]] += 1
        dist["ok" if m["result"] == "ok" else ("error_EExists" if m.get("error") == "EExists" else "error_other")] += 1
        dist["with_mount_table"] += m["table"] is not None
        dist["leaves_0" if m["n_leaves"] == 0 else ("leaves_1_3" if m["n_leaves"] <= 3 else "leaves_4_plus")] += 1
        dist["fields_1" if len(m["values"]) == 1 else "fields_2_plus"] += 1
        key = repr((m["mode"], m["values"], m["table"], m["pre"]))
        if key not in seen:
            seen.add(key)
            nontrivial += m["nontrivial"]
    out = Outcome(evaluations=len(metas), distinct_nontrivial=nontrivial, rule=RULE,
                  samples=[{k: m[k] for k in ("mode", "values", "table", "result") if k in m} | (
                      {"outputs": m["outputs"]} if "outputs" in m else {"error": m.get("error_text")})
                      for m in metas if m["nontrivial"]][:4],
                  distribution=dist, traces_validated=len(metas))
    rf = reserved_names_failure()
    if rf is not None:
        out.failures.append(rf)
    spec_bad = set(res["spec"])
    for i in sorted(spec_bad)[:30]:
        m = metas[i]
        out.failures.append(Failure(
            case={k: m[k] for k in ("mode", "values", "table", "pre")},
            observed={k: m.get(k) for k in ("result", "outputs", "error_text", "dest_listing", "sources_changed")},
            expected="collected: same shape, every file in the workflow directory with its content, sources intact, "
                     "distinct sources -> distinct destinations; no error",
            kind="spec", finding=classify(m),
            note="collection failed or lost content" if m["result"] == "error" else "collected result violates the spec"))
    for i in res["tie"][:10]:
        if i in spec_bad and classify(metas[i]) is None:
            continue
        m = metas[i]
        if m["result"] == "error" and m.get("error", "").startswith("EOther") and classify(m):
            continue   # inside the known finding's region the engine fails in its own ways; spec comparison only
        out.failures.append(Failure(case={k: m[k] for k in ("mode", "values", "table", "pre")},
                                    observed={k: m.get(k) for k in ("result", "outputs", "error_text", "dest_listing")},
                                    expected="model: see --replay", kind="tie", note="model/impl"))
    return out


def replay(ctx, payload):
    c = payload["case"]
    base = tempfile.mkdtemp(prefix="verif-c33-", dir="/tmp")
    try:
        term, meta = one_case(ctx, ctx.rng, base, c.get("mode", "direct"), spec=c)
    finally:
        shutil.rmtree(base, ignore_errors=True)
    print("implementation:", {k: meta.get(k) for k in ("result", "outputs", "error_text", "dest_listing")})
    vals = coqio.eval_terms(ctx.scratch, "replay", IMPORTS, [
        "let '(tab, dest, c0, fields, r) := (%s : case_t) in "
        "match copyfile_workflow ff_copy tab dest fields (fs_of c0) with "
        "| Ok (outs, fs1, _) => (Some (map fst outs, f_ino fs1), None) | Err e => (None, Some e) end" % term,
        "tie_ok %s" % term, "spec_ok %s" % term], extra=COQ_C33)
    print("model (outputs, paths->inodes | error):", vals[0])
    print("model = implementation:", vals[1])
    print("spec holds of the implementation's result:", vals[2])
