(* Proofs/CacheProtoSpec.v — the model's observations satisfy the specs; the toy codec meets the codec
   hypotheses (they are satisfiable); witnesses for the refuted C35 statement. *)
From Pydra Require Import Base.Prelude.
From Pydra Require Import Model.CacheProto Spec.CacheProto Proofs.CacheProto Proofs.CacheProtoC35 Proofs.CacheProtoC10 Proofs.CacheProtoC12.
Local Open Scope nat_scope.

Lemma toy_codec_ok : codec_ok toy_pickle toy_unpickle.
Proof.
  split; [|split].
  - intros [e o]. unfold toy_pickle, toy_unpickle. cbn. destruct e, o; reflexivity.
  - intros r n L. unfold toy_pickle in *. cbn in L.
    destruct n as [|[|[|[|n]]]]; try lia; reflexivity.
  - intros r. unfold toy_pickle. discriminate.
Qed.

Section Bridge.
  Variable pickle : res -> list nat.
  Variable unpickle : list nat -> option res.
  Variable bv : val.
  Hypothesis codec : codec_ok pickle unpickle.
  Notation run := (run pickle unpickle bv).
  Notation init := (init bv).

  Let H1 := proj1 codec.
  Let H2 := proj1 (proj2 codec).
  Let H3 := proj2 (proj2 codec).

  Lemma ret_done pre tr s p : run (init pre) tr = Some s -> ret (procs s p) <> None -> pc (procs s p) = Done.
  Proof.
    intros R. destruct (c35_reachable pickle unpickle bv _ _ _ R) as [_ [HL _]].
    destruct (HL p) as (_ & _ & _ & _ & _ & _ & _ & L8). exact L8.
  Qed.

  Theorem c10_model_meets_spec pre tr s pids :
    clean_trace tr = true -> run (init pre) tr = Some s ->
    c10_spec bv (observe_g s pids) (map (observe_p s) pids).
  Proof.
    intros C R. destruct (once pickle unpickle bv H1 H2 H3 _ _ _ C R) as (Le & Hr & Hk).
    split; [exact Le|]. intros o Hin r Er. apply in_map_iff in Hin. destruct Hin as (p & <- & _).
    cbn in Er.
    assert (Ed : pc (procs s p) = Done) by (eapply ret_done; eauto; congruence).
    split.
    - apply (Hr p r Er Ed).
    - cbn. apply (Hk p). now rewrite Ed.
  Qed.

  Theorem c12_model_meets_spec pre tr s p (asy : bool) :
    det_trace tr = true -> run (init pre) tr = Some s ->
    alive s p -> (pc (procs s p) = Idle \/ pc (procs s p) = Done) ->
    (forall r, r <> p -> alive s r -> holds (pc (procs s r)) = false) ->
    exists tr' s', (forall e, In e tr' -> fst e = p) /\ run s tr' = Some s' /\
                   c12_spec bv (runs (gl s)) (observe_g s' [p]) (observe_p s' p).
  Proof.
    intros D R Ap Hpc Oth.
    destruct (recover pickle unpickle bv H1 H2 H3 _ _ _ _ asy D R Ap Hpc Oth) as (tr' & s' & F1 & F2 & F3 & F4 & F5).
    exists tr', s'. split; [exact F1|]. split; [exact F2|]. split; [exact F4|exact F5].
  Qed.
End Bridge.

Lemma others_untouched pickle unpickle bv p tr : forall s s',
  run pickle unpickle bv s tr = Some s' -> (forall e, In e tr -> fst e = p) ->
  forall r, r <> p -> procs s' r = procs s r.
Proof.
  induction tr as [|[p0 a] tr IH]; cbn [run]; intros s s' R F r Ne.
  - now inversion R.
  - destruct (step pickle unpickle bv s (p0, a)) as [s1|] eqn:E; [|discriminate].
    assert (p0 = p) by (apply (F (p0, a)); now left). subst p0.
    rewrite (IH s1 s' R (fun e H => F e (or_intror H)) r Ne).
    apply step_inv in E. destruct E as [_ [[_ ->]|(q' & g' & _ & ->)]]; cbn; [reflexivity|now apply upd_other].
Qed.

(* ---- C35 at full strength fails: witnesses (evaluated with the toy codec; no result file is ever read) *)
Definition pre_hook_raises_trace : list event :=
  map (pair 0) [APreRun false false; AAcquire; AChecked; AInfoWritten; ADirCleared; ADirCreated;
                ASaveAcq; AJobBefore; AJobOpened; AJobDumped; AJobAfter; ASaveRel; AJobSaved; APopulated;
                ACwdChanged; APreHookRaise; ARelease; ARaisedOut].
Definition post_hook_raises_trace : list event :=
  map (pair 0) [APreRun false false; AAcquire; AChecked; AInfoWritten; ADirCleared; ADirCreated;
                ASaveAcq; AJobBefore; AJobOpened; AJobDumped; AJobAfter; ASaveRel; AJobSaved; APopulated;
                ACwdChanged; APreHook; AAuditStarted; ABodyEnter; ABodyLeft; AOutputs; APostHookRaise;
                ARelease; ARaisedOut].

Lemma pre_hook_witness :
  exists s, run toy_pickle toy_unpickle 7 (init 7 false) pre_hook_raises_trace = Some s /\
            pc (procs s 0) = Done /\ cwd (procs s 0) = InDir /\ infos (procs s 0) = 1 /\ resf (gl s) = Absent /\
            dead (gl s) 0 = false.
Proof. eexists. split; [vm_compute; reflexivity|]. vm_compute. auto 10. Qed.

Lemma post_hook_witness :
  exists s, run toy_pickle toy_unpickle 7 (init 7 false) post_hook_raises_trace = Some s /\
            pc (procs s 0) = Done /\ cwd (procs s 0) = InDir /\ infos (procs s 0) = 1 /\ resf (gl s) = Absent /\
            runs (gl s) = 1.
Proof. eexists. split; [vm_compute; reflexivity|]. vm_compute. auto 10. Qed.
