(* Proofs/StateWfPair.v — C03 third pass: on workflows without an explicit pairing node the observable functions
   used by the harness (model_run3 / spec_run3) are the ones of C03_partial2. *)
From Pydra Require Import Base.Prelude Model.StateWf Spec.StateWf Proofs.StateWfLists Proofs.StateWfMain.
Local Open Scope nat_scope.

Lemma run_from3_nopair wf : forall nodes flags tab,
  forallb negb flags = true -> List.length flags = List.length nodes ->
  run_from3 wf tab (combine nodes flags) = run_from wf tab nodes.
Proof.
  induction nodes as [|nd nodes IH]; intros [|b flags] tab Hf HL; cbn in HL; try discriminate; [reflexivity|].
  cbn in Hf. apply andb_true_iff in Hf. destruct Hf as [Hb Hf]. destruct b; [discriminate Hb|].
  cbn [combine run_from3 run_from]. destruct (step wf tab (List.length tab) nd); [|reflexivity].
  apply IH; [exact Hf | lia].
Qed.
Lemma spec_from3_nopair wf : forall nodes flags tab,
  forallb negb flags = true -> List.length flags = List.length nodes ->
  spec_from3 wf tab (combine nodes flags) = spec_from wf tab nodes.
Proof.
  induction nodes as [|nd nodes IH]; intros [|b flags] tab Hf HL; cbn in HL; try discriminate; [reflexivity|].
  cbn in Hf. apply andb_true_iff in Hf. destruct Hf as [Hb Hf]. destruct b; [discriminate Hb|].
  cbn [combine spec_from3 spec_from]. apply IH; [exact Hf | lia].
Qed.
Lemma no_pair_flags (w3 : workflow3) : has_pair w3 = false -> forallb negb (map snd w3) = true.
Proof.
  unfold has_pair. induction w3 as [|[nd b] w3 IH]; cbn; [reflexivity|]. intros H. apply orb_false_iff in H.
  destruct H as [H1 H2]. rewrite H1. cbn. apply IH. exact H2.
Qed.
Lemma forallb_nopair {A} (p : A -> bool) (l : list A) flags :
  forallb negb flags = true -> forallb (fun x => negb (snd x) || p (fst x)) (combine l flags) = true.
Proof.
  revert flags. induction l as [|a l IH]; intros [|b flags] H; cbn; try reflexivity.
  cbn in H. apply andb_true_iff in H. destruct H as [Hb H]. destruct b; [discriminate Hb|]. cbn. apply IH. exact H.
Qed.

Theorem partial3 : forall w3 : workflow3, c03_class3 w3 = true -> model_run3 w3 = spec_run3 w3.
Proof.
  intros w3 H. unfold c03_class3 in H. apply andb_true_iff in H. destruct H as [HP HC].
  apply negb_true_iff in HP. pose proof (no_pair_flags w3 HP) as HF.
  assert (HL : List.length (map snd w3) = List.length (normalize (map fst w3))).
  { unfold normalize. rewrite !map_length. reflexivity. }
  pose proof (partial2 (map fst w3) HC) as P2. unfold model_run2, spec_run2 in P2.
  unfold model_run3, spec_run3, on_pairs.
  rewrite (run_from3_nopair _ _ _ [] HF HL), (spec_from3_nopair _ _ _ [] HF HL).
  rewrite (forallb_nopair (pair_len_ok (normalize (map fst w3)) (spec_from (normalize (map fst w3)) [] (normalize (map fst w3)))) _ _ HF).
  rewrite andb_true_r, zip_len_normalize.
  unfold model_run in P2. unfold spec_run, spec_table in P2.
  destruct (run_from (normalize (map fst w3)) [] (normalize (map fst w3))) as [tab|]; exact P2.
Qed.
