(* Proofs/ShellArgv.v — C22_partial: inside [c22_in_domain] the vector built by define + _command_args is the
   reference vector. *)
From Pydra Require Import Base.Prelude Base.Shlex Model.Shell Spec.Shell Proofs.Shlex Proofs.ShellStr
  Proofs.ShellOrder Proofs.ShellAssign Proofs.ShellOrderThm Proofs.ShellContrib.
From Coq Require Import Sorting.Permutation.
Local Open Scope list_scope.

(* ------------------------------------------------------------------ there are enough free slots *)
Local Open Scope Z_scope.
Lemma filter_ne_length u : forall m, NoDup m ->
  (List.length m <= S (List.length (filter (fun i => negb (Z.eqb i u)) m)))%nat.
Proof.
  induction m as [|x m IH]; intros H; [cbn; lia|]. inversion H; subst. cbn [filter].
  destruct (Z.eqb x u) eqn:E; cbn [negb List.length].
  - apply Z.eqb_eq in E. subst x.
    assert (Ef : filter (fun i => negb (Z.eqb i u)) m = m).
    { clear -H2. induction m as [|y m IH]; [reflexivity|]. cbn. destruct (Z.eqb y u) eqn:Ey.
      - apply Z.eqb_eq in Ey. subst. exfalso. apply H2. now left.
      - cbn. f_equal. apply IH. intros Hin. apply H2. now right. }
    rewrite Ef. lia.
  - specialize (IH H3). lia.
Qed.
Lemma filter_used_length : forall used l, NoDup l ->
  (List.length l <= List.length (filter (fun i => negb (zmem i used)) l) + List.length used)%nat.
Proof.
  induction used as [|u us IH]; intros l H.
  - cbn. assert (E : filter (fun _ : Z => true) l = l) by (clear; induction l as [|x l IHl]; cbn; [reflexivity|now rewrite IHl]).
    rewrite E. lia.
  - assert (E : filter (fun i => negb (zmem i (u :: us))) l
               = filter (fun i => negb (Z.eqb i u)) (filter (fun i => negb (zmem i us)) l)).
    { clear. induction l as [|x l IHl]; [reflexivity|]. cbn [filter].
      change (zmem x (u :: us)) with ((x =? u) || zmem x us).
      destruct (zmem x us) eqn:Em; destruct (Z.eqb x u) eqn:E1; cbn [orb negb filter]; rewrite ?E1; cbn [negb];
        rewrite IHl; reflexivity. }
    rewrite E. pose proof (filter_ne_length u _ (NoDup_filter (fun i => negb (zmem i us)) H)).
    specialize (IH l H). cbn [List.length]. lia.
Qed.
Local Close Scope Z_scope.

Lemma positioned_count fs :
  List.length fs = (List.length (filter pos_none fs)
     + List.length (flat_map (fun f => match f_pos f with Some p => [slot (num_args (map to_field fs)) p] | None => [] end) (map to_field fs)))%nat.
Proof.
  generalize (num_args (map to_field fs)) as n. intros n.
  induction fs as [|f fs IH]; [reflexivity|]. cbn [filter map flat_map List.length].
  change (f_pos (to_field f)) with (sf_pos f). change (pos_none f) with (match sf_pos f with None => true | Some _ => false end).
  destruct (sf_pos f); cbn [List.length app]; rewrite app_length || idtac; cbn [List.length]; lia.
Qed.

Lemma enough_free fs :
  (List.length (filter pos_none fs) <= List.length (free_slots (map to_field fs)))%nat.
Proof.
  unfold free_slots.
  pose proof (filter_used_length (used_slots (map to_field fs)) (map Z.of_nat (seq 0 (List.length (map to_field fs) + 1)))) as H.
  assert (ND : NoDup (map Z.of_nat (seq 0 (List.length (map to_field fs) + 1))))
    by (apply FinFun.Injective_map_NoDup; [intros a b; apply Nat2Z.inj|apply seq_NoDup]).
  specialize (H ND). rewrite map_length, seq_length in H. unfold used_slots in H at 2. cbn [List.length] in H.
  rewrite map_length in H. pose proof (positioned_count fs). rewrite map_length. lia.
Qed.

(* ------------------------------------------------------------------ presence after dropping unset values *)
Lemma present_lookup vals nm : forall F, is_present (drop_unset F vals) nm = true ->
  lookup (drop_unset F vals) nm = lookup vals nm /\ lookup vals nm <> VNone.
Proof.
  induction F as [|g F IH]; [discriminate|]. unfold drop_unset in *. cbn [flat_map].
  destruct (is_unset g (lookup vals (f_name g))) eqn:Eu; cbn [app]; [exact IH|].
  unfold is_present. cbn [existsb fst lookup]. destruct (la_eqb (f_name g) nm) eqn:En.
  - intros _. apply la_eqb_eq in En. subst nm. split; [reflexivity|]. intros E. rewrite E in Eu. discriminate.
  - cbn [orb]. exact IH.
Qed.
Lemma absent_unset vals nm : forall F, is_present (drop_unset F vals) nm = false ->
  forall g, In g F -> f_name g = nm -> is_unset g (lookup vals nm) = true.
Proof.
  induction F as [|h F IH]; intros H g Hin Hg; [contradiction|]. unfold drop_unset in H. cbn [flat_map] in H.
  unfold is_present in H. rewrite existsb_app in H. apply orb_false_iff in H as [H1 H2].
  destruct Hin as [->|Hin]; [|now apply IH].
  subst nm. destruct (is_unset g (lookup vals (f_name g))); [reflexivity|].
  cbn in H1. now rewrite la_eqb_refl in H1.
Qed.

Lemma sassign_In : forall fs free f', In f' (sassign fs free) ->
  exists f, In f fs /\ sf_name f' = sf_name f /\ sf_ty f' = sf_ty f /\ sf_argstr f' = sf_argstr f /\ sf_sep f' = sf_sep f.
Proof.
  induction fs as [|f fs IH]; intros free f' H; [contradiction|]. cbn [sassign] in H.
  assert (Hrec : forall fr, In f' (sassign fs fr) -> exists f0, In f0 (f :: fs) /\ sf_name f' = sf_name f0 /\
             sf_ty f' = sf_ty f0 /\ sf_argstr f' = sf_argstr f0 /\ sf_sep f' = sf_sep f0).
  { intros fr Hr. destruct (IH _ _ Hr) as (g & Hg & R). exists g. split; [now right|exact R]. }
  assert (Hhere : forall x, x = f \/ (exists q, x = set_spos f q) -> exists f0, In f0 (f :: fs) /\ sf_name x = sf_name f0 /\
             sf_ty x = sf_ty f0 /\ sf_argstr x = sf_argstr f0 /\ sf_sep x = sf_sep f0).
  { intros x [->|[q ->]]; exists f; repeat split; now left. }
  destruct (sf_pos f).
  - destruct H as [E|H]; [apply Hhere; now left|eapply Hrec, H].
  - destruct free as [|q free]; (destruct H as [E|H]; [apply Hhere; subst f'; eauto|eapply Hrec, H]).
Qed.
Lemma sassign_In_rev : forall fs free f, In f fs ->
  exists f', In f' (sassign fs free) /\ sf_name f' = sf_name f /\ sf_ty f' = sf_ty f.
Proof.
  induction fs as [|g fs IH]; intros free f H; [contradiction|]. cbn [sassign].
  destruct H as [->|H].
  - destruct (sf_pos f); [exists f; repeat split; now left|].
    destruct free as [|q free]; [exists f|exists (set_spos f q)]; repeat split; now left.
  - assert (Hrec : forall fr, exists f', In f' (sassign fs fr) /\ sf_name f' = sf_name f /\ sf_ty f' = sf_ty f)
      by (intros fr; apply IH, H).
    destruct (sf_pos g); [|destruct free as [|q free]].
    + destruct (Hrec free) as (f' & Hf' & R). exists f'. split; [now right|exact R].
    + destruct (Hrec []) as (f' & Hf' & R). exists f'. split; [now right|exact R].
    + destruct (Hrec free) as (f' & Hf' & R). exists f'. split; [now right|exact R].
Qed.

Lemma field_ok_indep f f' vals : sf_name f' = sf_name f -> sf_ty f' = sf_ty f -> sf_argstr f' = sf_argstr f ->
  sf_sep f' = sf_sep f -> field_ok f' vals = field_ok f vals.
Proof. intros A B C D. unfold field_ok. now rewrite A, B, C, D. Qed.
Lemma spec_contrib_indep f f' vals : sf_name f' = sf_name f -> sf_ty f' = sf_ty f -> sf_argstr f' = sf_argstr f ->
  sf_sep f' = sf_sep f -> spec_contrib f' vals = spec_contrib f vals.
Proof. intros A B C D. unfold spec_contrib. now rewrite A, B, C, D. Qed.

Lemma spec_contrib_unset f vals : is_unset (to_field f) (lookup vals (sf_name f)) = true -> spec_contrib f vals = [].
Proof.
  unfold is_unset, spec_contrib. change (f_ty (to_field f)) with (sf_ty f).
  destruct (sf_argstr f); [reflexivity|]. destruct (lookup vals (sf_name f)) as [| | |[|a l]]; try discriminate; [reflexivity|].
  destruct (optional_type (sf_ty f)); try discriminate. reflexivity.
Qed.

Lemma map_result_map {A B C} (k : A -> B) (f : B -> result C) l :
  map_result f (map k l) = map_result (fun x => f (k x)) l.
Proof. induction l as [|x l IH]; [reflexivity|]. cbn. now rewrite IH. Qed.

Lemma ents_flat (g : sfield -> option (list la)) L :
  flat_map (fun o : option entry => match o with Some x => [x] | None => [] end)
           (map (fun f => match g f with Some x => Some (sf_pos f, x) | None => None end) L) = ents g L.
Proof. unfold ents. induction L as [|f0 L0 IH]; [reflexivity|]. cbn [map flat_map]. rewrite IH. destruct (g f0); reflexivity. Qed.

(* ------------------------------------------------------------------ C22_partial *)
Theorem argv_in_domain : forall e fs vals app,
  c22_in_domain Functional e fs vals = true ->
  task_argv Functional e (map to_field fs) vals (AppList app) = Good (spec_argv e fs vals app).
Proof.
  intros e fs vals app H. unfold c22_in_domain in H.
  apply andb_true_iff in H as [H Hf]. apply andb_true_iff in H as [H Hord]. apply andb_true_iff in H as [H Hdup].
  apply negb_true_iff in Hdup. clear H.
  pose proof (enough_free fs) as Hl.
  unfold task_argv, define. rewrite Hdup. cbn [builder_order bind append_args_conv].
  rewrite (assign_to_field fs _ Hl). cbn [bind].
  set (free := free_slots (map to_field fs)). set (L := sassign fs free). set (F := map to_field L).
  unfold command_args. set (vals' := drop_unset F vals).
  (* what each field contributes *)
  set (g := fun f : sfield => if is_present vals' (sf_name f)
                              then match sf_argstr f with SANone => None | SA _ _ => Some (spec_contrib f vals) end
                              else None).
  assert (Hents : map_result (fun f => if is_present vals' (f_name f) then command_pos_args f vals' else Good None) F
                  = Good (map (fun f => match g f with Some x => Some (sf_pos f, x) | None => None end) L)).
  { unfold F. rewrite map_result_map. apply map_result_good. intros f0 Hin0.
    change (f_name (to_field f0)) with (sf_name f0). unfold g.
    destruct (is_present vals' (sf_name f0)) eqn:Ep; [|reflexivity].
    destruct (present_lookup vals (sf_name f0) F Ep) as [Elk Hnn]. fold vals' in Elk.
    destruct (sassign_In fs free f0 Hin0) as (f & Hfin & A & B & C & D).
    rewrite forallb_forall in Hf. specialize (Hf f Hfin). rewrite <- (field_ok_indep f f0 vals A B C D) in Hf.
    destruct (sf_argstr f0) as [|ws dots] eqn:Ea.
    - unfold command_pos_args, to_field. cbn. now rewrite Ea.
    - now apply (contrib_ok f0 vals' vals ws dots). }
  rewrite Hents. cbn [bind].
  rewrite (ents_flat g L).
  unfold L, free. rewrite (order_theorem g) by (assumption || (intros f0 p; reflexivity)).
  unfold spec_argv. rewrite <- app_assoc. f_equal. f_equal. f_equal. f_equal.
  apply map_ext_in. intros f Hin.
  assert (Hfs : In f fs).
  { unfold spec_order in Hin. rewrite !in_app_iff in Hin.
    destruct Hin as [Hin|[Hin|Hin]]; [eapply Permutation_in in Hin; [|apply sort_pos_perm]| |eapply Permutation_in in Hin; [|apply sort_pos_perm]];
      apply filter_In in Hin; tauto. }
  unfold payload, g. destruct (is_present vals' (sf_name f)) eqn:Ep.
  - destruct (sf_argstr f) eqn:Ea; [|reflexivity]. unfold spec_contrib. now rewrite Ea.
  - symmetry. apply spec_contrib_unset.
    destruct (sassign_In_rev fs free f Hfs) as (f' & Hf' & A & B).
    assert (Hu : is_unset (to_field f') (lookup vals (sf_name f)) = true).
    { apply (absent_unset vals (sf_name f) F Ep (to_field f')); [now apply in_map|exact A]. }
    unfold is_unset in *. change (f_ty (to_field f')) with (sf_ty f') in Hu. change (f_ty (to_field f)) with (sf_ty f).
    now rewrite <- B.
Qed.
