(* Spec/CmdTemplate.v — C25 reference semantics, read off the documentation of command-line templates
   (docs/source/tutorial/5-shell.ipynb, docstring of shell.define):
   - the task runs its executable followed by the template's options and arguments in template order;
   - "<name>" is an input, "<out|name>" an output written on the command line; ":type" gives the type, bare
     arguments and outputs are fs-objects, bare option arguments are text, "--flag<name>" is a boolean flag;
   - "?" optional (default None), "+" repeated (at least one), "*" repeated (default empty list), "=v" default v
     (a quoted default is the text between the quotes exactly as written: the tool, not the template parser, gives
     a meaning to sequences such as \t),
     "$t" path template t; without "$" an output's path template is its name plus the extension of its type;
   - for a repeated option the flag is printed before every item.
   Model.CmdTemplate is imported for the AST / field / value types only. *)
From Pydra Require Import Base.Prelude Model.CmdTemplate.
Local Open Scope string_scope.
Local Open Scope list_scope.

(* ------------------------------------------------------------------ well-formed templates of the documented grammar *)
Definition is_field_token (t : token) : bool :=
  match t with Arg _ _ _ | Out _ _ _ => true | _ => false end.

Definition written_base (flagged : bool) (ty : option tyexpr) : tbase :=
  match ty with
  | Some (TySingle (TP p)) => BPrim p
  | Some (TySingle (TF f)) => BFmt f
  | Some (TyTuple ts) => BTuple ts
  | Some (TyVar t) => BVarTuple t
  | None => if flagged then BPrim PStr else BFmt FFsObject
  end.

Definition wf_field (is_out flagged : bool) (ty : option tyexpr) (suf : suffix) : bool :=
  match suf with
  | STemplate _ => is_out
  | SStar => negb is_out
  | SDefault d => negb is_out && lit_ok (written_base (flagged && negb is_out) ty) d
  | _ => true
  end.

Definition wf_token (t : token) : bool :=
  match t with
  | Arg _ ty suf => wf_field false false ty suf
  | Out _ ty suf => wf_field true false ty suf
  | Opt _ (Arg _ ty suf) => wf_field false true ty suf
  | Opt _ (Out _ ty suf) => wf_field true true ty suf
  | Opt _ _ => false
  | Flag _ _ _ => true
  end.

Definition wf_template (ts : list token) : bool :=
  forallb wf_token ts && nodupb (map token_name ts).

(* ------------------------------------------------------------------ what each token says about its field *)
Definition tok_view (t : token) : (bool * option tyexpr * suffix * string) :=   (* is_out, type, suffix, flag *)
  match t with
  | Arg _ ty suf => (false, ty, suf, "")
  | Out _ ty suf => (true, ty, suf, "")
  | Opt fl (Arg _ ty suf) => (false, ty, suf, fl)
  | Opt fl (Out _ ty suf) => (true, ty, suf, fl)
  | Opt fl _ => (false, None, SNone, fl)
  | Flag fl _ _ => (false, Some (TySingle (TP PBool)), SNone, fl)
  end.

Definition says_output (t : token) : bool := let '(o, _, _, _) := tok_view t in o.
Definition says_flag (t : token) : string := let '(_, _, _, fl) := tok_view t in fl.
Definition says_optional (t : token) : bool :=
  let '(_, _, suf, _) := tok_view t in match suf with SOptional => true | _ => false end.
Definition says_repeated (t : token) : bool :=
  let '(_, _, suf, _) := tok_view t in match suf with SPlus | SStar => true | _ => false end.
Definition says_base (t : token) : tbase :=
  let '(o, ty, _, fl) := tok_view t in written_base (negb (String.eqb fl "") && negb o) ty.
Definition says_default (t : token) : dflt :=
  match t with
  | Flag _ _ d => DLit (LBool (match d with Some b => b | None => false end))
  | _ => let '(_, _, suf, _) := tok_view t in
         match suf with SOptional => DNone | SStar => DEmptyList | SDefault d => DLit d | _ => DNoDefault end
  end.
Definition base_ext (b : tbase) : string :=
  match b with BFmt f => match fmt_ext f with Some e => e | None => "" end | _ => "" end.
Definition says_template (t : token) : option string :=
  let '(o, _, suf, _) := tok_view t in
  if o then Some (match suf with STemplate p => p | _ => (token_name t ++ base_ext (says_base t))%string end)
  else None.

(* field f is the field token t spells out, at place i (0-based) of the template *)
Definition spells (i : nat) (t : token) (f : field) : Prop :=
  f_name f = token_name t /\
  f_is_out f = says_output t /\
  t_base (f_type f) = says_base t /\
  t_optional (f_type f) = says_optional t /\
  t_multi (f_type f) = says_repeated t /\
  f_default f = says_default t /\
  f_template f = says_template t /\
  f_argstr f = says_flag t /\
  f_position f = Z.of_nat (S i).

(* ------------------------------------------------------------------ the command line the template spells *)
Definition with_flag (flag : string) (words : list string) : list string :=
  match flag with EmptyString => words | _ => flag :: words end.
Definition sval_words (v : sval) : list string := match v with SText s => [s] | STuple l => l end.

Definition token_args (t : token) (v : fvalue) : list string :=
  match v with
  | VUnset => []
  | VFlag b => if b then [says_flag t] else []
  | VScalar s => with_flag (says_flag t) (sval_words s)
  | VMulti l => flat_map (fun s => with_flag (says_flag t) (sval_words s)) l
  end.

Definition expected_argv (executable : list string) (tvs : list (token * fvalue)) : list string :=
  executable ++ flat_map (fun tv => token_args (fst tv) (snd tv)) tvs.

(* values whose text reaches the command line as one word each (everything else is C23's business) *)
Fixpoint no_space (s : string) : bool :=
  match s with EmptyString => true | String c r => negb (Ascii.eqb c " ") && no_space r end.
Definition word (s : string) : bool := negb (String.eqb s "") && no_space s.
Definition sval_ok (v : sval) : bool :=
  match v with SText s => word s | STuple l => negb (Nat.eqb (List.length l) 0) && forallb word l end.
Definition value_ok (v : fvalue) : bool :=
  match v with
  | VUnset => true | VFlag _ => true
  | VScalar s => sval_ok s
  | VMulti l => forallb sval_ok l
  end.
Definition flag_ok (t : token) : bool :=
  match says_flag t with EmptyString => true | fl => word fl end.

(* ------------------------------------------------------------------ executable versions used on the cases *)
Definition prim_eqb (a b : prim) : bool :=
  match a, b with PInt, PInt | PFloat, PFloat | PStr, PStr | PBool, PBool => true | _, _ => false end.
Definition fmt_eqb (a b : fmt) : bool :=
  match a, b with
  | FFile, FFile | FDirectory, FDirectory | FFsObject, FFsObject | FTextPlain, FTextPlain
  | FPng, FPng | FGzip, FGzip | FCsv, FCsv | FJson, FJson => true
  | _, _ => false
  end.
Definition tname_eqb (a b : tname) : bool :=
  match a, b with TP p, TP q => prim_eqb p q | TF f, TF g => fmt_eqb f g | _, _ => false end.
Definition tbase_eqb (a b : tbase) : bool :=
  match a, b with
  | BPrim p, BPrim q => prim_eqb p q
  | BFmt f, BFmt g => fmt_eqb f g
  | BTuple l, BTuple m => list_eqb tname_eqb l m
  | BVarTuple t, BVarTuple u => tname_eqb t u
  | _, _ => false
  end.
Fixpoint lit_eqb (a b : lit) : bool :=
  match a, b with
  | LInt x, LInt y => Z.eqb x y
  | LFloat x, LFloat y => String.eqb x y
  | LStr x, LStr y => String.eqb x y
  | LBool x, LBool y => Bool.eqb x y
  | LTuple l, LTuple m =>
      (fix go (l m : list lit) : bool :=
         match l, m with
         | [], [] => true
         | x :: l', y :: m' => lit_eqb x y && go l' m'
         | _, _ => false
         end) l m
  | _, _ => false
  end.
Definition dflt_eqb (a b : dflt) : bool :=
  match a, b with
  | DNoDefault, DNoDefault | DNone, DNone | DEmptyList, DEmptyList => true
  | DLit x, DLit y => lit_eqb x y
  | _, _ => false
  end.
Definition ostring_eqb (a b : option string) : bool := option_eqb String.eqb a b.

Definition spellsb (i : nat) (t : token) (f : field) : bool :=
  String.eqb (f_name f) (token_name t) &&
  Bool.eqb (f_is_out f) (says_output t) &&
  tbase_eqb (t_base (f_type f)) (says_base t) &&
  Bool.eqb (t_optional (f_type f)) (says_optional t) &&
  Bool.eqb (t_multi (f_type f)) (says_repeated t) &&
  dflt_eqb (f_default f) (says_default t) &&
  ostring_eqb (f_template f) (says_template t) &&
  String.eqb (f_argstr f) (says_flag t) &&
  Z.eqb (f_position f) (Z.of_nat (S i)).

Fixpoint all_spell (i : nat) (ts : list token) (fs : list field) : bool :=
  match ts, fs with
  | [], [] => true
  | t :: ts', f :: fs' => spellsb i t f && all_spell (S i) ts' fs'
  | _, _ => false
  end.

Definition field_eqb (a b : field) : bool :=
  String.eqb (f_name a) (f_name b) && Bool.eqb (f_is_out a) (f_is_out b) &&
  tbase_eqb (t_base (f_type a)) (t_base (f_type b)) &&
  Bool.eqb (t_multi (f_type a)) (t_multi (f_type b)) && Bool.eqb (t_optional (f_type a)) (t_optional (f_type b)) &&
  dflt_eqb (f_default a) (f_default b) && Z.eqb (f_position a) (f_position b) &&
  String.eqb (f_argstr a) (f_argstr b) && ostring_eqb (f_template a) (f_template b).
