"""Per-property registry: what MANIFEST.json says about each claimed check.

`python -m harness.lib.mkmanifest` regenerates /verif/MANIFEST.json from this table; a property
is claimed only when harness/cNN.py and coq/Props/CNN.v both exist.
"""
CHECKS = {
    "C38": dict(
        text="Theorem C38_full (Coq, closed under the global context): for every list of parsed mount lines and every "
             "path, the entry get_mount selects from parse_mount_table's output is a longest entry whose mount point is a "
             "path-component prefix of the path (default when none); C38_sibling_never_confused; "
             "C38_table_longest_first. The model (Model/Mount.v, Base/PyPath.v) is tied to the code by running "
             "parse_mount_table/get_mount/on_cifs/on_same_mount on generated mount outputs and paths and evaluating model "
             "and executable spec on the same cases inside Coq (vm_compute).",
        note="Trusted: Coq kernel + vm_compute; hand-written model of get_mount/parse_mount_table and of PurePosixPath "
             "(lexical); per-line regex not modelled; correspondence is differential testing.",
        technique="Coq proof (first match in a length-sorted table is the longest component-prefix match) + model/impl correspondence via generated cases.v",
        design="§8 Group G / C38",
    ),
}
