"""Fresh-interpreter worker for C07 (and C06's seeds): python -m harness.lib.hashworker in.json out.json
Runs under a given PYTHONHASHSEED.  For every value tree: build it, hash it, hash it after a cloudpickle round trip,
compute the checksum of Ident(x=value) while recording blake2b, and report the value as this session sees it."""
import json
import sys


def main(inp, outp):
    import cloudpickle as cp
    from pydra.utils.hash import hash_object
    from . import hashmodel as hm
    from .hashtasks import Ident, checksum_fields

    def opaque_pre(obj):
        with hm.Recorder() as r:
            d = hash_object(obj)
        for p, dd in r.table:
            if dd == d:
                pre = p
        return pre

    def hx(obj):
        try:
            return hash_object(obj).hex()
        except TypeError:
            return None

    with open(inp) as f:
        job = json.load(f)
    res = []
    for item in job["items"]:
        t = item["tree"]
        r = {"key": item["key"]}
        try:
            obj = hm.build(t)
            r["hash"] = hx(obj)
            try:
                obj2 = cp.loads(cp.dumps(obj))
                r["hash_pickled"] = hx(obj2)
            except Exception as e:  # noqa
                r["hash_pickled"] = "unpicklable:%s" % type(e).__name__
            task = Ident(x=obj)
            try:
                with hm.Recorder() as rec:
                    cs = task._checksum
                r["checksum"] = cs
            except TypeError:
                r["checksum"] = None
                rec = None
            if r["hash_pickled"] is not None and not str(r["hash_pickled"]).startswith("unpicklable"):
                try:
                    r["checksum_pickled"] = cp.loads(cp.dumps(Ident(x=obj)))._checksum
                except TypeError:
                    r["checksum_pickled"] = None
            if item.get("model") and rec is not None:
                conv = hm.Conv(opaque_pre=opaque_pre)
                r["fields"] = [[n, conv.to_model(v)] for n, v in checksum_fields(task)]
                r["table"] = [[p.hex(), d.hex()] for p, d in rec.dedup()]
                r["task_type"] = task._task_type()
            r["session_tree"] = hm.to_model(obj)
        except hm.Unsupported as e:
            r["unsupported"] = str(e)
        res.append(r)
    with open(outp, "w") as f:
        json.dump({"seed": job.get("seed"), "results": res}, f)


if __name__ == "__main__":
    main(sys.argv[1], sys.argv[2])
