(* Spec/DictRT.v — C32 reference semantics: when are two task classes "the same definition".
   Same kind, name and executor; the same input and output fields in the same order, each of the same
   field class and name with every attribute (type, default, help, argstr, position, sep,
   allowed_values, requires, path_template, ...) equal in Python's sense of ==; the same xor groups
   as a set of sets.  Only the data types of Model/DictRT.v are used. *)
From Pydra Require Import Base.Prelude Model.DictRT.
Local Open Scope string_scope.

Definition attr_equiv (p q : string * aval) : Prop := fst p = fst q /\ aeq (snd p) (snd q) = true.

Definition field_equiv (a b : frec) : Prop :=
  fcls a = fcls b /\ fname a = fname b /\ Forall2 attr_equiv (fvals a) (fvals b).

(* groups as sets, the collection of groups as a set *)
Definition same_members (g h : list (option string)) : Prop := forall n, In n g <-> In n h.
Definition xor_equiv (x y : list (list (option string))) : Prop :=
  (forall g, In g x -> exists h, In h y /\ same_members g h) /\
  (forall h, In h y -> exists g, In g x /\ same_members g h).

Definition same_definition (c c' : taskcls) : Prop :=
  tkind c = tkind c' /\ tname c = tname c' /\ texec c = texec c' /\
  Forall2 field_equiv (cinputs c) (cinputs c') /\
  Forall2 field_equiv (coutputs c) (coutputs c') /\
  xor_equiv (cxor c) (cxor c').

(* ---------------------------------------------------------------- executable version *)
Definition fclass_eqb (a b : fclass) : bool :=
  match a, b with CArg, CArg | COut, COut | COutarg, COutarg => true | _, _ => false end.

Definition attr_equivb (p q : string * aval) : bool := String.eqb (fst p) (fst q) && aeq (snd p) (snd q).

Definition field_equivb (a b : frec) : bool :=
  fclass_eqb (fcls a) (fcls b) && String.eqb (fname a) (fname b) && list_eqb attr_equivb (fvals a) (fvals b).

Definition ostr_eqb := option_eqb String.eqb.
Definition subset_o (g h : list (option string)) : bool := forallb (fun n => existsb (ostr_eqb n) h) g.
Definition same_membersb (g h : list (option string)) : bool := subset_o g h && subset_o h g.
Definition xor_equivb (x y : list (list (option string))) : bool :=
  forallb (fun g => existsb (same_membersb g) y) x && forallb (fun h => existsb (fun g => same_membersb g h) x) y.

Definition same_definitionb (c c' : taskcls) : bool :=
  String.eqb (tkind c) (tkind c') && String.eqb (tname c) (tname c') && scalar_eqb (texec c) (texec c')
  && list_eqb field_equivb (cinputs c) (cinputs c')
  && list_eqb field_equivb (coutputs c) (coutputs c')
  && xor_equivb (cxor c) (cxor c').
