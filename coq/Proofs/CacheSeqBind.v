(* Proofs/CacheSeqBind.v — C13: PythonTask._run return-value binding provides every mandatory
   declared output or fails. *)
From Pydra Require Import Base.Prelude Model.CacheSeq Spec.CacheSeq.
Local Open Scope bool_scope.
Local Open Scope string_scope.

Notation okfield := (fun (d : decl) (o : string * oval) => fst o = fst d /\ (snd d = true -> provided (snd o) = true)).

Lemma Forall2_map_same (f : decl -> string * oval) ds :
  (forall d, In d ds -> okfield d (f d)) -> Forall2 okfield ds (map f ds).
Proof.
  induction ds as [|d ds IH]; intros H; cbn; constructor.
  - apply H. now left.
  - apply IH. intros d' Hd. apply H. now right.
Qed.

Lemma Forall2_tuple ds : forall vs, List.length vs = List.length ds ->
  Forall2 okfield ds (map (fun p : decl * value => (fst (fst p), Val (snd p))) (combine ds vs)).
Proof.
  induction ds as [|d ds IH]; intros [|v vs] H; cbn in *; try discriminate; constructor.
  - cbn. auto.
  - apply IH. now injection H.
Qed.

Lemma dict_get_none k kvs :
  dict_get k kvs = None <-> existsb (fun kv => String.eqb k (fst kv)) kvs = false.
Proof.
  induction kvs as [|[k' v] kvs IH]; cbn; [tauto|].
  destruct (dict_get k kvs) eqn:E.
  - split; [discriminate|]. intros H. apply orb_false_iff in H. destruct H as [_ H].
    apply IH in H. discriminate.
  - destruct (String.eqb k k'); cbn; [split; discriminate|]. tauto.
Qed.

(* after "fix: ... returned dict lacks a mandatory output": success implies completeness *)
Theorem bind_complete ds r outs :
  bind_outputs true ds r = Some outs -> outputs_complete ds outs.
Proof.
  unfold bind_outputs, outputs_complete. destruct r as [|vs|kvs|v].
  - intros [= <-]. apply Forall2_map_same. intros d _. cbn. auto.
  - destruct ds as [|d [|d' ds]]; [discriminate| |].
    + intros [= <-]. repeat constructor.
    + destruct (Nat.eqb_spec (List.length vs) (List.length (d :: d' :: ds))) as [E|]; [|discriminate].
      intros [= <-]. exact (Forall2_tuple (d :: d' :: ds) vs E).
  - destruct ds as [|d [|d' ds]]; [discriminate| |].
    + intros [= <-]. repeat constructor.
    + cbn [andb].
      match goal with |- (if ?b then _ else _) = _ -> _ => destruct b eqn:Ex end; [intros Hx; discriminate Hx|].
      intros [= <-].
      apply (Forall2_map_same (fun d0 : decl => (fst d0, match dict_get (fst d0) kvs with Some v => Val v | None => unset d0 end))
                              (d :: d' :: ds)).
      intros d0 Hd0. cbn. split; [reflexivity|]. intros Hm.
      destruct (dict_get (fst d0) kvs) eqn:G; [reflexivity|].
      exfalso. rewrite <- not_true_iff_false in Ex. apply Ex. apply existsb_exists.
      exists d0. split; [exact Hd0|]. now rewrite Hm, G.
  - destruct ds as [|d [|d' ds]]; [discriminate| |discriminate].
    intros [= <-]. repeat constructor.
Qed.

(* a return value that does not provide every mandatory output is a failure *)
Theorem bind_fails_when_not_provided ds r :
  provides ds r = false -> bind_outputs true ds r = None.
Proof.
  unfold provides, bind_outputs. destruct r as [|vs|kvs|v]; [discriminate| | |].
  - intros H. apply orb_false_iff in H. destruct H as [H1 H2].
    destruct ds as [|d [|d' ds]]; [reflexivity|discriminate|]. now rewrite H2.
  - intros H. apply orb_false_iff in H. destruct H as [H1 H2].
    destruct ds as [|d [|d' ds]]; [discriminate|discriminate|]. cbn [andb].
    rewrite <- not_true_iff_false in H2.
    match goal with |- (if ?b then _ else _) = _ => destruct b eqn:Ex end; [reflexivity|].
    exfalso. apply H2. apply forallb_forall. intros d0 Hd0.
    destruct (snd d0) eqn:Hm; [|reflexivity]. cbn.
    destruct (existsb (fun kv => String.eqb (fst d0) (fst kv)) kvs) eqn:Ek; [reflexivity|].
    apply dict_get_none in Ek. rewrite <- not_true_iff_false in Ex. exfalso. apply Ex.
    apply existsb_exists. exists d0. split; [exact Hd0|]. now rewrite Hm, Ek.
  - intros H. destruct ds as [|d [|d' ds]]; [reflexivity|discriminate|reflexivity].
Qed.

(* the tree before the repair (strict = false): declared a, b; returned {"a": 1} => success with b = NOTHING *)
Definition outputs_complete_or_error (strict : bool) : Prop :=
  forall ds r outs, bind_outputs strict ds r = Some outs -> outputs_complete ds outs.

Lemma dict_missing_witness :
  bind_outputs false [("a", true); ("b", true)] (RDict [("a", 1)]) = Some [("a", Val 1); ("b", Nothing)].
Proof. reflexivity. Qed.

Theorem lenient_binding_refuted : ~ outputs_complete_or_error false.
Proof.
  intros H. specialize (H _ _ _ dict_missing_witness).
  inversion H as [|? ? ? ? _ H2]; subst. inversion H2 as [|? ? ? ? [_ Hb] _]; subst.
  specialize (Hb eq_refl). discriminate.
Qed.

Example bind_examples :
  bind_outputs true [("a", true); ("b", true)] (RDict [("a", 1)]) = None /\
  bind_outputs true [("a", true); ("b", false)] (RDict [("a", 1)]) = Some [("a", Val 1); ("b", Default)] /\
  bind_outputs true [("a", true); ("b", true)] (RTuple [1; 2]) = Some [("a", Val 1); ("b", Val 2)] /\
  bind_outputs true [("a", true); ("b", true)] (RTuple [1; 2; 3]) = None /\
  bind_outputs true [("a", true)] (RTuple [1; 2; 3]) = Some [("a", Val 1003)] /\
  bind_outputs true [("a", true); ("b", true)] RNone = Some [("a", PyNone); ("b", PyNone)] /\
  bind_outputs true [] (ROther 4) = None.
Proof. repeat split; reflexivity. Qed.

(* ------------------------------------------------------------------ shell bodies: return code => outcome *)
From Pydra Require Import Proofs.CacheSeq.

Lemma shell_outcome_nonzero rc files v : rc <> 0%Z -> shell_outcome rc files v = Err.
Proof. intros H. unfold shell_outcome. destruct (Z.eqb_spec rc 0); [contradiction|reflexivity]. Qed.

Lemma shell_outcome_zero files v : files_present files = true -> shell_outcome 0 files v = Ok v.
Proof. intros H. unfold shell_outcome. cbn. now rewrite H. Qed.

(* a shell task whose body is executed: its stored result, what the submission reports and what a
   later submission does, from the command's return code *)
Theorem shell_nonzero_never_cached_as_success w cfg c s rr rc files v :
  body w c (clock s) (execs s c) = shell_outcome rc files v ->
  early_exit cfg rr (st s) c = None ->                       (* the body is entered *)
  let '(s1, evs, r) := submit w cfg rr (Leaf c) s in
  (rc <> 0%Z ->
     r = Err /\ st s1 (root cfg) c = Complete Err /\ last_run c evs = Some Err /\
     forall w2 cfg2 s2 rr2, root cfg2 = root cfg -> st s2 (root cfg) c = Complete Err ->
       let '(s3, evs3, r3) := run_job w2 cfg2 rr2 (Leaf c) s2 in last_run c evs3 = Some r3) /\
  (rc = 0%Z -> files_present files = true -> r = Ok v /\ st s1 (root cfg) c = Complete (Ok v)).
Proof.
  intros Hb He. rewrite (submit_reports_outcome w cfg rr (Leaf c) s eq_refl).
  destruct (run_job w cfg rr (Leaf c) s) as [[s1 evs] r] eqn:E.
  pose proof E as E0. cbn [run_job tid] in E0. rewrite He in E0. cbn [with_dir clock execs] in E0. rewrite Hb in E0.
  injection E0 as <- <- <-. cbn [bump with_dir st]. unfold set_dir. rewrite !Nat.eqb_refl. cbn [andb app].
  split.
  - intros Hrc. rewrite (shell_outcome_nonzero rc files v Hrc). repeat split.
    + cbn. now rewrite Nat.eqb_refl.
    + intros w2 cfg2 s2 rr2 Hroot Hs2.
      rewrite (shell_outcome_nonzero rc files v Hrc) in E.
      destruct (failure_reexecuted w cfg (Leaf c) s rr eq_refl _ _ E) as [_ H].
      exact (H w2 cfg2 s2 rr2 Hroot Hs2).
  - intros -> Hf. rewrite (shell_outcome_zero files v Hf). auto.
Qed.

Example shell_outcome_examples :
  shell_outcome (-9) [] 5 = Err /\ shell_outcome (-15) [] 5 = Err /\ shell_outcome 255 [] 5 = Err /\
  shell_outcome 127 [] 5 = Err /\ shell_outcome 126 [] 5 = Err /\ shell_outcome 3 [] 5 = Err /\
  shell_outcome 0 [] 5 = Ok 5 /\ shell_outcome 0 [(true, false)] 5 = Err /\
  shell_outcome 0 [(false, false); (true, true)] 5 = Ok 5.
Proof. repeat split; reflexivity. Qed.

(* the theorem's hypotheses are met: a world whose body for identity 3 is a command killed by SIGKILL
   at step 0 and exiting 0 afterwards, run twice from the empty store *)
Example shell_nonvacuous :
  let w := {| body := fun c k _ => shell_outcome (if Nat.eqb k 0 then (-9) else 0) [] 7; wfout := fun _ _ _ => Ok 0 |} in
  let cfg := {| root := 0; ro := []; prop := true |} in
  early_exit cfg false (st init_state) 3 = None /\
  (let '(s1, evs, r) := submit w cfg false (Leaf 3) init_state in
   r = Err /\ st s1 0 3 = Complete Err /\
   let '(s2, evs2, r2) := submit w cfg false (Leaf 3) (tick s1) in
   r2 = Ok 7 /\ st s2 0 3 = Complete (Ok 7) /\ last_run 3 evs2 = Some (Ok 7)).
Proof. vm_compute. repeat split; reflexivity. Qed.
