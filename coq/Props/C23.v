(* C23 — Field values reach the command intact. *)
From Pydra Require Import Base.Prelude Base.Shlex Model.Shell Spec.Shell Proofs.ShellRefute Proofs.ShellContrib Proofs.ShellCorollaries.
Local Open Scope list_scope.

(* the property at full strength: whatever characters the value contains *)
Definition C23_full_statement : Prop := C23_statement.

(* "a b" becomes two arguments (finding F23) *)
Theorem C23_refuted_space : ~ C23_full_statement.
Proof. exact refuted_space. Qed.
Print Assumptions C23_refuted_space.

(* "it's" makes _command_args raise ValueError("No closing quotation") *)
Theorem C23_refuted_quote :
  command_pos_args (to_field s_field) [sv "s" "it's"] = Bad ENoClosingQuote
  /\ spec_contrib s_field [sv "s" "it's"] = map la_of ["-s"; "it's"]%string.
Proof. exact refuted_quote. Qed.
Print Assumptions C23_refuted_quote.

(* strongest positive statement: for every field and every value inside field_ok (benign characters: no
   whitespace, quote, backslash, brace; non-empty; bracket clean-up patterns absent) what _command_pos_args returns
   is the reference contribution: each element verbatim as its own argument or inside its template/separator *)
Theorem C23_verbatim_benign : forall (f : sfield) (vals : vals_t) ws dots,
  sf_argstr f = SA ws dots ->
  field_ok f vals = true ->
  lookup vals (sf_name f) <> VNone ->
  command_pos_args (to_field f) vals = Good (Some (sf_pos f, spec_contrib f vals)).
Proof. intros f vals ws dots Ha Hok Hn. now apply (contrib_ok f vals vals ws dots). Qed.
Print Assumptions C23_verbatim_benign.

(* the two readings spelled out for a string field, for ALL benign strings *)
Theorem C23_own_argument : forall n flag v pos rest,
  valid_ident n = true -> benign_text flag = true -> occurs ellipsis flag = false -> benign_text v = true ->
  command_pos_args (to_field (mkS n TStr (SA [[Lit flag]] false) pos [" "%char])) ((n, VAtom (AStr v)) :: rest)
  = Good (Some (pos, [flag; v])).
Proof. exact own_argument. Qed.
Print Assumptions C23_own_argument.

Theorem C23_inside_template : forall n pre post v pos rest,
  valid_ident n = true -> forallb benign_char pre = true -> forallb benign_char post = true ->
  occurs ellipsis (pre ++ placeholder n ++ post) = false ->
  benign_text v = true -> bracket_inert (pre ++ v ++ post) = true ->
  command_pos_args (to_field (mkS n TStr (SA [[Lit pre; Self; Lit post]] false) pos [" "%char])) ((n, VAtom (AStr v)) :: rest)
  = Good (Some (pos, [pre ++ v ++ post])).
Proof. exact inside_template. Qed.
Print Assumptions C23_inside_template.

Example C23_benign_nontrivial :
  benign_text (la_of "$HOME/*.nii;rm&|<>()#~") = true /\
  command_pos_args (to_field (mkS (la_of "inp") TStr (SA [[Lit (la_of "--in")]] false) None [" "%char]))
                   [(la_of "inp", VAtom (AStr (la_of "$HOME/*.nii;rm&|<>()#~")))]
  = Good (Some (None, [la_of "--in"; la_of "$HOME/*.nii;rm&|<>()#~"])).
Proof. split; [reflexivity|exact own_argument_example]. Qed.
