(* C39 — Lmod environments add module settings to the caller's environment. *)
From Pydra Require Import Base.Prelude Model.Lmod Spec.Lmod Proofs.Lmod.

(* The property at full strength: for every caller environment and every well-formed module-load
   program (any single-line values, quoted and escaped as Python/Lmod do), the command runs with the
   native argument vector in the caller environment overridden by the program's assignments. *)
Definition C39_full_statement : Prop :=
  forall (caller : env) (stmts : list stmt) (argv : list string) (home : string),
    lookup "MODULESHOME"%string caller = Some home -> NoDup (map fst caller) ->
    forallb wf_stmt stmts = true -> str_of (render stmts) <> mlstatus_false ->
    exists child, execute caller (str_of (render stmts)) argv = Ran child argv /\
                  spec_child_env caller stmts child.

(* refuted: a value containing a quote character or a backslash is cut / kept escaped by the scanner *)
Theorem C39_refuted_quote_in_value : ~ C39_full_statement.
Proof. exact refuted_quote_in_value. Qed.
Print Assumptions C39_refuted_quote_in_value.

(* strongest positive theorem: excluded class = some assigned value contains a quote character or a backslash (plain_stmt false) *)
Theorem C39_partial :
  forall (caller : env) (stmts : list stmt) (argv : list string) (home : string),
    lookup "MODULESHOME"%string caller = Some home -> NoDup (map fst caller) ->
    forallb wf_stmt stmts = true -> forallb plain_stmt stmts = true ->
    str_of (render stmts) <> mlstatus_false ->
    exists child, execute caller (str_of (render stmts)) argv = Ran child argv /\
                  spec_child_env caller stmts child.
Proof. exact partial. Qed.
Print Assumptions C39_partial.

(* for EVERY text lmod prints: child = caller overridden by the scanned pairs, each variable once *)
Theorem C39_child_env_any_output :
  forall caller out argv child,
    NoDup (map fst caller) -> execute caller out argv = Ran child argv ->
    NoDup (map fst child) /\
    forall k, lookup k child = match last_of (findall out) k with Some v => Some v | None => lookup k caller end.
Proof. exact child_env_any_output. Qed.
Print Assumptions C39_child_env_any_output.

(* variables the modules do not touch are passed through unchanged (any output text) *)
Theorem C39_untouched_pass_through :
  forall caller out argv child k,
    execute caller out argv = Ran child argv ->
    last_of (findall out) k = None -> lookup k child = lookup k caller.
Proof. exact untouched_pass_through. Qed.
Print Assumptions C39_untouched_pass_through.

Theorem C39_partial_untouched :
  forall caller stmts argv home child,
    lookup "MODULESHOME"%string caller = Some home ->
    forallb wf_stmt stmts = true -> forallb plain_stmt stmts = true ->
    execute caller (str_of (render stmts)) argv = Ran child argv ->
    forall k, ~ In k (assigned stmts) -> lookup k child = lookup k caller.
Proof. exact partial_untouched. Qed.
Print Assumptions C39_partial_untouched.

Theorem C39_argv_native :
  forall caller out argv child argv', execute caller out argv = Ran child argv' -> argv' = argv.
Proof. exact argv_is_native. Qed.
Print Assumptions C39_argv_native.

Theorem C39_errors :
  forall caller argv,
    (lookup "MODULESHOME"%string caller = None -> forall out, execute caller out argv = ErrNoLmod) /\
    (forall home, lookup "MODULESHOME"%string caller = Some home -> execute caller mlstatus_false argv = ErrModule).
Proof. exact errors. Qed.
Print Assumptions C39_errors.

(* the tree before the fix commit (env = module variables only) violated even the plain class *)
Theorem C39_pinned_refuted_env_dropped : ~ pinned_statement.
Proof. exact pinned_refuted_env_dropped. Qed.
Print Assumptions C39_pinned_refuted_env_dropped.

(* observation (outside the statement, see design/C39.md): an Lmod unset reaches the command as the empty string *)
Theorem C39_unset_reads_as_empty :
  execute [("MODULESHOME", "/m"); ("X", "old"); ("HOME", "/h")]%string unset_text ["cmd"%string]
  = Ran [("MODULESHOME", "/m"); ("X", ""); ("HOME", "/h")]%string ["cmd"%string] /\
  findall unset_text = [("X", "")]%string.
Proof. exact unset_reads_as_empty. Qed.
Print Assumptions C39_unset_reads_as_empty.
