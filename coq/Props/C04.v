(* C04 — Splitting nested containers visits every inner element. *)
From Pydra Require Import Base.Prelude Model.Nested Spec.Nested Proofs.Nested.
Local Open Scope nat_scope.

(* the property at full strength: a one-field splitter over any list value, any container dimension >= 1 *)
Definition C04_full_statement : Prop :=
  forall (n : nat) (l : list value), 1 <= n -> single_ok n (Node l) (split1 (Some n) l).

Theorem C04_refuted : ~ C04_full_statement.
Proof. exact single_refuted. Qed.
Print Assumptions C04_refuted.

Theorem C04_rect :
  forall (n : nat) (l : list value),
    1 <= n -> rectangular n (Node l) -> split1 (Some n) l = Jobs (elements_at_depth n (Node l)).
Proof. exact split1_rect. Qed.
Print Assumptions C04_rect.

Theorem C04_count :
  forall (n : nat) (l : list value),
    split1 (Some n) l = Jobs (elements_at_depth n (Node l)) <->
    prod (input_shape l n) = List.length (flatten n l).
Proof. exact split1_iff_count. Qed.
Print Assumptions C04_count.

Theorem C04_shape_rect :
  forall (n : nat) (l : list value),
    1 <= n -> rectangular n (Node l) -> input_shape l n = dims n (Node l).
Proof. exact input_shape_rect. Qed.
Print Assumptions C04_shape_rect.
