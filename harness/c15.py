"""C15 — jobs start only after the jobs they consume have succeeded; every job exactly once
(pydra/engine/submitter.py: Submitter.get_runnable_tasks, NodeExecution.get_runnable_tasks, `futured`)."""
from .lib import coqio, fakes
from .lib.runner import Outcome, Failure

PROP = "C15"
PROPS_FILE = "Props/C15.v"
MANIFEST = dict(
    text="Coq theorems over the model of Submitter.expand_workflow_async / expand_workflow and NodeExecution "
         "(Model/Sched.v), for EVERY oracle (completion order, multi-completions, which launched jobs are seen "
         "running at each poll), every max_concurrent, every set of failing jobs, every topologically listed "
         "graph: C15_safety (in the start/finish log every launch is preceded by the successful finish of every "
         "job of every predecessor node), C15_at_most_once (no job is launched twice), C15_all_run (a run without "
         "failures that ends by itself has launched every job exactly once and every job finished successfully), "
         "C15_sync_* (same for the sequential loop), C15_every_job_exactly_once / C15_sync_every_job_exactly_once "
         "(termination included: no failing job, every node >= 1 job, max_concurrent >= 1 => for every oracle the "
         "loop ends by itself within |jobs|+1 iterations with every job launched exactly once and finished "
         "successfully). The model is tied to the code on every run by a fake "
         "asynchronous Worker that dictates completion order / failures / lock-file visibility and by comparing, "
         "inside Coq, every poll (returned tasks and all six status sets of every node), every launch list, the "
         "whole start/finish log, the error names and the outputs with run_async/run_sync on the same oracle.",
    note="Trusted: Coq kernel + vm_compute; the hand-written model; the world is frozen during one poll; job "
         "identity = (node, state index) instead of checksum; asyncio and the fake worker. Termination is proved "
         "only for runs without failing jobs (with failures: C14 / C18).",
    technique="Coq proof by loop invariant over an oracle-driven model + differential execution under a controlled fake worker",
    design="§8 Group D / C15",
)
TIE_NAME = "Model.Sched.run_async / run_sync vs Submitter.expand_workflow_async / expand_workflow (fake worker, debug worker)"
TRUSTED = [
    "Model/Sched.v (+Base/SchedBase.v): hand-written model of NodeExecution status sets, update_status, "
    "get_runnable_tasks (node and submitter), expand_workflow, expand_workflow_async",
    "modelled-not-verified: the file system/pool is frozen while one get_runnable_tasks call runs; a job is identified "
    "by (node, state index) (pydra: checksum); dict iteration order = insertion order; asyncio FIRST_COMPLETED "
    "wake-ups are the oracle; graph.sorted_nodes is taken from the implementation (DiGraph.sorting is C37/C18)",
    "Section variables: body (uninterpreted job function), fails (set of failing jobs) — no hypotheses",
    "harness/lib/fakeworker.py: fake Worker, hooks on Submitter.get_runnable_tasks / fetch_finished",
]
ASSUMPTIONS = ["graphs are listed in an order where every predecessor comes earlier and node names are distinct "
               "(wf_graph; what DiGraph.sorting produces)",
               "fresh cache directory per run; split nodes are combined so that the job count of a node is static"]
RULE = ("an observed run of a generated workflow (2-6 nodes, <=3 predecessors, nodes split 1-3 ways, <=10 jobs) under "
        "a generated oracle / max_concurrent / failing set; distinct = different (workflow, k, failing set, observed "
        "start/finish log, visibility pattern); non-trivial = >=2 nodes, >=1 edge, >=3 jobs")

SPEC = """
Definition spec_ok (c : case_t) : bool :=
  let g := c_graph c in let lg := c_log c in
  safe_log_b g [] lg && nodup_jobs_b (launches_of lg)
  && (if is_nil (c_fails c) && (c_status c =? 0) then every_job_once_b g lg else true).
"""


def run(ctx):
    out, cases, obs, usable, bad = fakes.drive(
        ctx, "c15", SPEC, ctx.budget(28, 300), ctx.budget(6, 50), ctx.budget(16, 768), RULE,
        "a job started before an upstream job succeeded / started twice / was never run")
    return out


def replay(ctx, payload):
    fakes.replay_case(ctx, payload, SPEC)
