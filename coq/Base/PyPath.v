(* Base/PyPath.v — lexical model of pathlib.PurePosixPath parsing (Python 3.12):
   anchor ("" | "/" | "//"), components with "" and "." dropped, str(), is_relative_to. *)
From Pydra Require Import Base.Prelude.
Local Open Scope char_scope.

Definition slash : ascii := "/".

(* split a char list on '/' *)
Fixpoint split_slash (l : list ascii) (cur : list ascii) : list (list ascii) :=
  match l with
  | [] => [rev cur]
  | c :: r => if Ascii.eqb c slash then rev cur :: split_slash r [] else split_slash r (c :: cur)
  end.

Definition is_dot (c : list ascii) : bool :=
  match c with ["."] => true | _ => false end.
Definition keep_comp (c : list ascii) : bool :=
  match c with [] => false | _ => negb (is_dot c) end.

Fixpoint leading_slashes (l : list ascii) : nat :=
  match l with c :: r => if Ascii.eqb c slash then S (leading_slashes r) else 0 | [] => 0 end.

Inductive anchor := ARel | ARoot | ARoot2.
Definition anchor_eqb (a b : anchor) : bool :=
  match a, b with ARel, ARel | ARoot, ARoot | ARoot2, ARoot2 => true | _, _ => false end.

Record ppath := { p_anchor : anchor; p_comps : list (list ascii) }.

Definition parse (l : list ascii) : ppath :=
  {| p_anchor := match leading_slashes l with 0 => ARel | 2 => ARoot2 | _ => ARoot end;
     p_comps := filter keep_comp (split_slash l []) |}.

Definition la_eqb (a b : list ascii) : bool := list_eqb Ascii.eqb a b.
Lemma la_eqb_spec a b : la_eqb a b = true <-> a = b.
Proof. apply list_eqb_spec. intros; apply Ascii.eqb_eq. Qed.

(* PurePath.is_relative_to: same anchor and component prefix *)
Definition rel_to (self other : ppath) : bool :=
  anchor_eqb (p_anchor self) (p_anchor other) && is_prefix la_eqb (p_comps other) (p_comps self).

Fixpoint join_slash (cs : list (list ascii)) : list ascii :=
  match cs with
  | [] => []
  | [c] => c
  | c :: r => c ++ slash :: join_slash r
  end.

Definition render (p : ppath) : list ascii :=
  match p_anchor p, p_comps p with
  | ARel, [] => ["."]
  | ARel, cs => join_slash cs
  | ARoot, cs => slash :: join_slash cs
  | ARoot2, cs => slash :: slash :: join_slash cs
  end.
