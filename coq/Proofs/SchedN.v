(* Proofs/SchedN.v — termination of the sequential loop without the hypothesis "every node has a job":
   nodes with zero jobs (split over an empty list) may sit anywhere in the graph.  Each of them costs one pass
   of the loop that runs nothing.  Potential: 2*(finished jobs) + 2*(started nodes) + [a task is waiting]. *)
From Pydra Require Import Base.Prelude Base.SchedBase Model.Sched Spec.Sched Proofs.SchedA Proofs.SchedSpec Proofs.SchedSpec2 Proofs.SchedB Proofs.SchedC Proofs.SchedD Proofs.SchedE Proofs.SchedF Proofs.SchedG Proofs.SchedH Proofs.SchedI Proofs.SchedJ Proofs.SchedK Proofs.SchedL.
Local Open Scope nat_scope.

Lemma filter_len_mono {A} (f f' : A -> bool) l :
  (forall x, In x l -> f x = true -> f' x = true) -> List.length (filter f l) <= List.length (filter f' l).
Proof.
  induction l as [|x l IH]; intros H; cbn; [lia|].
  assert (IH' := IH (fun y Hy => H y (or_intror Hy))).
  destruct (f x) eqn:E; [rewrite (H x (or_introl eq_refl) E); cbn; lia|destruct (f' x); cbn; lia].
Qed.
Lemma filter_len_strict {A} (f f' : A -> bool) l x :
  (forall y, In y l -> f y = true -> f' y = true) -> In x l -> f x = false -> f' x = true ->
  List.length (filter f l) < List.length (filter f' l).
Proof.
  induction l as [|y l IH]; intros H Hx Fx F'x; [destruct Hx|]. cbn.
  assert (M := filter_len_mono f f' l (fun z Hz => H z (or_intror Hz))).
  destruct Hx as [->|Hx].
  - rewrite Fx, F'x. cbn. lia.
  - assert (S := IH (fun z Hz => H z (or_intror Hz)) Hx Fx F'x).
    destruct (f y) eqn:E; [rewrite (H y (or_introl eq_refl) E); cbn; lia|destruct (f' y); cbn; lia].
Qed.

Lemma filter_len_le {A} (f : A -> bool) l : List.length (filter f l) <= List.length l.
Proof. induction l as [|x l IH]; cbn; [lia|]. destruct (f x); cbn; lia. Qed.

Section ZeroSync.
Variable V : Type.
Variable body : nat -> nat -> list (list (option V)) -> V.
Variable fails : job -> bool.
Variable vr : variant.
Hypothesis F14 : fix14 vr = true.
Variable g : graph.
Hypothesis WF : wf_graph g.
Variable kmax : option nat.
Hypothesis NF : forall j, fails j = false.
Hypothesis KP : forall k, kmax = Some k -> 1 <= k.

Notation world := (world V).
Notation nstate := (nstate V).
Notation sstate := (sstate V).
Notation lstate := (lstate V).
Notation GInv := (GInv V fails g).
Notation WInv := (WInv V fails).
Notation NInv := (NInv V fails g).
Notation Fresh := (@Fresh V).
Notation SyInv := (SyInv V body fails vr g).
Notation runs := (@runs V).

Definition nstarted (st : nstates V) : nat := List.length (filter (fun nd => started_flag (st (nid nd))) g).
Definition newly_started (st st' : nstates V) : Prop :=
  exists nd, In nd g /\ started_flag (st (nid nd)) = false /\ started_flag (st' (nid nd)) = true.

Lemma nstarted_mono st st' : flag_mono V st st' -> nstarted st <= nstarted st'.
Proof. intros M. apply filter_len_mono. intros nd _ H. now apply M. Qed.
Lemma nstarted_strict st st' : flag_mono V st st' -> newly_started st st' -> nstarted st < nstarted st'.
Proof. intros M [nd [A [B C]]]. apply (filter_len_strict _ _ g nd); [intros y _ H; now apply M|exact A|exact B|exact C]. Qed.
Lemma nstarted_le st : nstarted st <= List.length g.
Proof. unfold nstarted. apply filter_len_le. Qed.

Lemma scan_flag_mono (w : world) : forall rest ss ns acc,
  flag_mono V (nst ss) (nst (fst (scan vr g w rest ss ns acc))).
Proof.
  induction rest as [|nd rest IH]; intros ss ns acc; cbn [scan]; [apply flag_mono_refl|].
  pose proof (update_flag_mono V vr F14 w ss (nid nd)) as U.
  destruct (done_ns (nst (update vr w ss (nid nd)) (nid nd))).
  - eapply flag_mono_trans; [exact U|apply IH].
  - destruct (existsb _ (npreds nd)); [exact U|].
    pose proof (node_runnable_flag_mono V vr F14 g w (update vr w ss (nid nd)) nd) as N.
    destruct (node_runnable vr g w (update vr w ss (nid nd)) nd) as [ss2 tl]. cbn [fst] in N.
    eapply flag_mono_trans; [exact U|]. eapply flag_mono_trans; [exact N|apply IH].
Qed.
Lemma poll_flag_mono (w : world) ss : flag_mono V (nst ss) (nst (fst (poll vr g kmax w ss))).
Proof.
  unfold poll. pose proof (scan_flag_mono w g ss [] []) as S.
  destruct (scan vr g w g ss [] []) as [ss1 tasks]. exact S.
Qed.

(* the first node that is not done either yields a job or gets started now *)
Lemma node_runnable_progress (w : world) ss nd :
  GInv w ss -> WInv w -> In nd g ->
  (forall p, In p (npreds nd) -> Fresh w p (nst ss p) /\ done_ns (nst ss p) = true) ->
  Fresh w (nid nd) (nst ss (nid nd)) ->
  done_ns (nst ss (nid nd)) = false -> running (nst ss (nid nd)) = [] ->
  snd (node_runnable vr g w ss nd) <> []
  \/ (started_flag (nst ss (nid nd)) = false /\ started_flag (nst (fst (node_runnable vr g w ss nd)) (nid nd)) = true).
Proof.
  intros G W Hnd Hp Fn D R. unfold node_runnable.
  assert (EX : existsb (fun p => negb (is_nil (errored (nst ss p))) || unrunnable (nst ss p)) (npreds nd) = false).
  { destruct (existsb _ (npreds nd)) eqn:X; [|reflexivity]. exfalso.
    apply existsb_exists in X. destruct X as [p [_ X]].
    destruct (clean_node V fails g WF NF w p (nst ss p) W (gi_node _ _ _ _ _ G p)) as [A B]. rewrite A, B in X. discriminate. }
  rewrite EX.
  destruct (all_done_spec V body fails vr F14 g w (npreds nd) ss G) as [G1 [K1 _]].
  pose proof (all_done_true V body fails vr F14 g w (npreds nd) ss G Hp) as AT.
  assert (Hsame : forall m, nst (fst (all_done vr w ss (npreds nd))) m = nst ss m).
  { intros m. apply K1. destruct (in_dec Nat.eq_dec m (npreds nd)) as [Hin|Hnin]; [right; apply Hp; exact Hin|left; exact Hnin]. }
  destruct (all_done vr w ss (npreds nd)) as [ss1 alld]. cbn [fst snd] in *. subst alld.
  rewrite Hsame. set (s := nst ss (nid nd)) in *.
  pose proof (gi_node _ _ _ _ _ G (nid nd)) as In_. fold s in In_.
  destruct (is_started s) eqn:St.
  - left. cbn [snd queued].
    unfold done_ns in D. rewrite St, R, (ni_blocked _ _ _ _ _ _ In_) in D. cbn in D.
    rewrite !andb_true_r in D. apply is_nil_false in D.
    destruct (queued s) as [|i l]; [congruence|]. cbn. discriminate.
  - right. split.
    + unfold is_started in St. rewrite !orb_false_iff in St. tauto.
    + cbn [fst nst]. rewrite set_ns_same. reflexivity.
Qed.

Lemma scan_progress0 (w : world) : forall rest pre ss,
  g = pre ++ rest -> GInv w ss -> WInv w ->
  (forall n i, In i (running (nst ss n)) -> is_none w (n, i) = false) ->
  (forall j, mem_job j (visible w) = false) ->
  (forall nd, In nd pre -> Fresh w (nid nd) (nst ss (nid nd)) /\ done_ns (nst ss (nid nd)) = true) ->
  snd (scan vr g w rest ss [] []) <> []
  \/ (forall nd, In nd g -> Fresh w (nid nd) (nst (fst (scan vr g w rest ss [] [])) (nid nd))
                          /\ done_ns (nst (fst (scan vr g w rest ss [] [])) (nid nd)) = true)
  \/ newly_started (nst ss) (nst (fst (scan vr g w rest ss [] []))).
Proof.
  induction rest as [|nd rest IH]; intros pre ss E G W RF NV Hpre.
  - right; left. cbn. rewrite app_nil_r in E. subst pre. exact Hpre.
  - cbn [scan].
    assert (Hnd : In nd g). { rewrite E. apply in_or_app. right; left; reflexivity. }
    pose proof WF as WF'. unfold wf_graph in WF'. rewrite E in WF'.
    destruct (topo_b_split _ _ _ _ WF') as [Hpp [_ Hnpre]].
    destruct (update_spec V body fails vr F14 g w ss (nid nd) G) as [G1 [F1 [O1 [K1 U1]]]].
    pose proof (update_run_from V body vr F14 w ss (nid nd)) as RU.
    pose proof (update_flag_mono V vr F14 w ss (nid nd)) as FM1.
    assert (FE : forall m, started_flag (nst (update vr w ss (nid nd)) m) = started_flag (nst ss m)).
    { intros m. rewrite (nst_update V vr). destruct (m =? nid nd) eqn:X; [|reflexivity].
      apply Nat.eqb_eq in X. subst m. apply (update_ns_flag V vr F14). }
    set (ss1 := update vr w ss (nid nd)) in *.
    assert (R1 : running (nst ss1 (nid nd)) = []).
    { apply nil_of_no_mem. intros i Hi. destruct F1 as [_ Fr]. pose proof (Fr i Hi) as X.
      destruct (RU (nid nd) i Hi) as [Y|Y]; [rewrite (RF _ _ Y) in X; discriminate|rewrite NV in Y; discriminate]. }
    assert (Hpre1 : forall nd', In nd' pre -> Fresh w (nid nd') (nst ss1 (nid nd')) /\ done_ns (nst ss1 (nid nd')) = true).
    { intros nd' H'. destruct (Hpre nd' H') as [A B]. rewrite (K1 _ A). auto. }
    assert (E' : g = (pre ++ [nd]) ++ rest). { rewrite <- app_assoc. exact E. }
    destruct (done_ns (nst ss1 (nid nd))) eqn:D.
    + destruct (IH (pre ++ [nd]) ss1 E' G1 W) as [A|[A|[x [Hx [X1 X2]]]]]; auto.
      * intros n i Hi. destruct (RU n i Hi) as [Y|Y]; [apply RF; exact Y|rewrite NV in Y; discriminate].
      * intros nd' H'. apply in_app_or in H'. destruct H' as [H'|[<-|[]]]; auto.
      * right; right. exists x. split; [exact Hx|split; [rewrite <- FE; exact X1|exact X2]].
    + cbn [existsb].
      assert (BR : existsb (fun p => mem_nat p []) (npreds nd) = false).
      { clear. induction (npreds nd) as [|p l IHl]; [reflexivity|]. cbn [existsb]. unfold mem_nat at 1. cbn [existsb orb]. exact IHl. }
      rewrite BR.
      assert (Hp : forall p, In p (npreds nd) -> Fresh w p (nst ss1 p) /\ done_ns (nst ss1 p) = true).
      { intros p Hp. destruct (Hpp p Hp) as [[]|H]. apply in_map_iff in H. destruct H as [nd' [<- H']]. apply Hpre1; exact H'. }
      pose proof (node_runnable_progress w ss1 nd G1 W Hnd Hp F1 D R1) as NP.
      pose proof (node_runnable_flag_mono V vr F14 g w ss1 nd) as FM2.
      destruct (node_runnable vr g w ss1 nd) as [ss2 tl]. cbn [fst snd] in NP, FM2.
      pose proof (scan_flag_mono w rest ss2 (if is_started (nst ss1 (nid nd)) then [] else [nid nd]) ([] ++ tl)) as FM3.
      destruct NP as [NE|[N1 N2]].
      * left. destruct (scan_acc_prefix V vr g w rest ss2 (if is_started (nst ss1 (nid nd)) then [] else [nid nd]) ([] ++ tl)) as [l El].
        rewrite El. cbn. intros X. apply app_eq_nil in X. destruct X; contradiction.
      * right; right. exists nd. split; [exact Hnd|split; [rewrite <- FE; exact N1|apply FM3; exact N2]].
Qed.

Lemma poll_progress0 (w : world) ss :
  GInv w ss -> WInv w ->
  (forall n i, In i (running (nst ss n)) -> is_none w (n, i) = false) ->
  (forall j, mem_job j (visible w) = false) ->
  snd (poll vr g kmax w ss) <> [] \/ any_not_done vr g w (fst (poll vr g kmax w ss)) = false
  \/ newly_started (nst ss) (nst (fst (poll vr g kmax w ss))).
Proof.
  intros G W RF NV. unfold poll.
  destruct (scan_progress0 w g [] ss eq_refl G W RF NV (fun nd (H : In nd []) => match H with end)) as [A|[A|A]].
  - left. destruct (scan vr g w g ss [] []) as [ss1 tasks]. cbn [snd] in *. unfold truncate.
    destruct kmax as [k|] eqn:K; [apply firstn_nonempty; auto|exact A].
  - right; left. destruct (scan vr g w g ss [] []) as [ss1 tasks]. cbn [fst snd] in *.
    unfold any_not_done. destruct (existsb _ g) eqn:X; [|reflexivity]. exfalso.
    apply existsb_exists in X. destruct X as [nd [Hnd X]]. cbn in X.
    destruct (A nd Hnd) as [Fr D].
    destruct (update_ns_fresh V vr F14 w (nid nd) (nst ss1 (nid nd)) Fr) as [Eq _]. rewrite Eq, D in X. discriminate.
  - right; right. destruct (scan vr g w g ss [] []) as [ss1 tasks]. exact A.
Qed.

Record SPInv0 (ls : lstate) : Prop := {
  s0_vis : visible (ls_w ls) = [];
  s0_run : forall n, running (nst (ls_ss ls) n) = [];
  s0_fs : forall j, In j (ls_futured ls) -> runs (ls_ss ls) j;
  s0_none : forall j, In j (ls_tasks ls) -> is_none (ls_w ls) j = true
}.

Definition phi (ls : lstate) : nat :=
  2 * count_finish (ls_trace ls) + 2 * nstarted (nst (ls_ss ls)) + (if is_nil (ls_tasks ls) then 0 else 1).

Lemma sync_step_prog0 (ls : lstate) :
  SyInv ls -> no_err V (ls_w ls) -> SPInv0 ls ->
  match sync_step body fails vr g kmax ls with
  | Stop Finished _ => True
  | Stop _ _ => False
  | Continue ls' => SPInv0 ls' /\ (phi ls < phi ls'
                                  \/ (ls_tasks ls' = [] /\ any_not_done vr g (ls_w ls') (ls_ss ls') = false))
  end.
Proof.
  intros S NE P. destruct S as [[G W Vi T Tt Pr] FD PE PA]. destruct P as [SV SR SF SN]. unfold sync_step.
  rewrite (gi_raised _ _ _ _ _ G).
  destruct (negb (negb (is_nil (ls_tasks ls)) || any_not_done vr g (ls_w ls) (ls_ss ls))) eqn:C; [exact I|].
  rewrite PE in Tt.
  pose proof (run_tasks_spec V body fails vr g WF (ls_w ls) (ls_ss ls) (ls_tasks ls) (ls_w ls) (ls_errors ls) (ls_trace ls) (ls_futured ls) []
                G (wle_refl V _) W Vi Tt FD NE PA T) as RS.
  pose proof (run_tasks_struct V body fails NF (ls_ss ls) (ls_tasks ls) (ls_w ls) (ls_errors ls) (ls_trace ls) [] SV) as RT.
  destruct (run_tasks body fails (ls_tasks ls) (ls_ss ls) (ls_w ls) (ls_errors ls) (ls_trace ls) []) as [[[[w1 errs1] tr1] launched] failed].
  destruct RS as [new [Ea [L1 [W1 [V1 [T1 [FD1 [NE1 P1]]]]]]]]. cbn in Ea. subst launched.
  destruct RT as [Ff [Hv1 [Cm [[new' [Ea' Hn']] Cs]]]]. cbn in Ea'. subst new'. subst failed.
  assert (G1 : GInv w1 (ls_ss ls)) by (eapply GInv_mono; eauto).
  assert (FS1 : forall j, In j (ls_futured ls ++ new) -> runs (ls_ss ls) j).
  { intros j Hj. apply in_app_or in Hj. destruct Hj as [Hj|Hj]; [apply SF; exact Hj|apply T; apply Hn'; exact Hj]. }
  assert (Hfin : forall j, is_none w1 j = false -> started_flag (nst (ls_ss ls) (fst j)) = true).
  { intros j Hj. apply FS1. apply (ti_res_fut _ _ _ _ _ _ _ _ _ _ T1 j Hj). }
  pose proof (poll_keeps V body fails vr F14 g WF kmax w1 (ls_ss ls) (ls_futured ls ++ new) G1 W1 FS1) as [G4 [T5 FS4]].
  pose proof (poll_run_from V body vr F14 g kmax w1 (ls_ss ls)) as RF4.
  pose proof (poll_none V body fails vr F14 g WF kmax w1 (ls_ss ls) G1 W1 Hfin) as NO4.
  pose proof (poll_flag_mono w1 (ls_ss ls)) as FM.
  assert (PP : snd (poll vr g kmax w1 (ls_ss ls)) <> [] \/ any_not_done vr g w1 (fst (poll vr g kmax w1 (ls_ss ls))) = false
               \/ newly_started (nst (ls_ss ls)) (nst (fst (poll vr g kmax w1 (ls_ss ls))))).
  { apply (poll_progress0 w1 (ls_ss ls) G1 W1).
    - intros n i Hi. rewrite SR in Hi. destruct Hi.
    - intros j. rewrite Hv1. reflexivity. }
  destruct (poll vr g kmax w1 (ls_ss ls)) as [ss2 tasks2]. cbn [fst snd] in *.
  split.
  - constructor; cbn [ls_ss ls_w ls_tasks ls_futured ls_pending ls_errors ls_trace].
    + exact Hv1.
    + intros n. apply nil_of_no_mem. intros i Hi. destruct (RF4 n i Hi) as [X|X].
      * rewrite SR in X. destruct X.
      * rewrite Hv1 in X. discriminate.
    + exact FS4.
    + exact NO4.
  - unfold phi. cbn [ls_ss ls_w ls_tasks ls_trace].
    pose proof (nstarted_mono _ _ FM) as NM.
    destruct (ls_tasks ls) as [|j r] eqn:Et.
    + (* nothing was run in this pass *)
      cbn [is_nil]. destruct PP as [X|[X|X]].
      * left. destruct tasks2; [congruence|]. cbn [is_nil]. lia.
      * destruct tasks2 as [|t2 r2]; [right; split; [reflexivity|exact X]|left; cbn [is_nil]; lia].
      * left. pose proof (nstarted_strict _ _ FM X). destruct (is_nil tasks2); lia.
    + left. cbn [is_nil].
      assert (S (count_finish (ls_trace ls)) <= count_finish tr1).
      { apply (Cs j r eq_refl). pose proof (SN j (or_introl eq_refl)) as X.
        unfold is_none, is_ok in *. destruct (probe_job (ls_w ls) j); congruence. }
      destruct (is_nil tasks2); lia.
Qed.

Lemma phi_bound (ls : lstate) : SyInv ls -> phi ls <= 2 * List.length (all_jobs g) + 2 * List.length g + 1.
Proof.
  intros S. unfold phi. pose proof (sync_finish_bound V body fails vr g ls S). pose proof (nstarted_le (nst (ls_ss ls))).
  destruct (is_nil (ls_tasks ls)); lia.
Qed.

Lemma run_sync_loop_terminates0 : forall fuel ls,
  SyInv ls -> no_err V (ls_w ls) -> SPInv0 ls ->
  2 * (List.length (all_jobs g) + List.length g) + 3 <= fuel + phi ls ->
  o_status (run_sync_loop body fails vr g kmax fuel ls) = Finished.
Proof.
  induction fuel as [|f IH]; intros ls S NE P B.
  - pose proof (phi_bound ls S). lia.
  - cbn [run_sync_loop].
    pose proof (sync_step_spec V body fails vr F14 g WF kmax ls S NE) as S1.
    pose proof (sync_step_prog0 ls S NE P) as S2.
    destruct (sync_step body fails vr g kmax ls) as [ls'|st ls'].
    + destruct S1 as [S' NE']. destruct S2 as [P' [C|[C1 C2]]].
      * apply IH; auto. lia.
      * (* everything is done: the next test of the loop condition ends the loop *)
        pose proof (phi_bound ls S). destruct f as [|f']; [lia|]. cbn [run_sync_loop]. unfold sync_step.
        rewrite (gi_raised _ _ _ _ _ (li_g _ _ _ _ _ _ _ (sy_l _ _ _ _ _ _ S'))), C1, C2. reflexivity.
    + destruct st; try contradiction. reflexivity.
Qed.

Lemma SPInv0_init : SPInv0 (ls_init V vr g kmax).
Proof.
  unfold ls_init.
  assert (W0 : WInv (w_init V)). { intros j. split; unfold is_ok, is_err, probe_job; cbn; discriminate. }
  pose proof (poll_run_from V body vr F14 g kmax (w_init V) (ss_init V)) as RF.
  pose proof (poll_none V body fails vr F14 g WF kmax (w_init V) (ss_init V) (GInv_init V body fails g) W0) as NO.
  destruct (poll vr g kmax (w_init V) (ss_init V)) as [ss tasks]. cbn [fst snd] in *.
  constructor; cbn [ls_ss ls_w ls_tasks ls_futured ls_pending ls_errors ls_trace].
  - reflexivity.
  - intros n. apply nil_of_no_mem. intros i Hi. destruct (RF n i Hi) as [X|X]; [destruct X|discriminate].
  - intros j [].
  - apply NO. intros j Hj. unfold is_none, probe_job in Hj. cbn in Hj. discriminate.
Qed.

(* no hypothesis on the number of jobs of a node *)
Theorem sync_terminates_any fuel :
  2 * (List.length (all_jobs g) + List.length g) + 3 <= fuel ->
  o_status (run_sync V body fails vr g kmax fuel) = Finished.
Proof.
  intros B. unfold run_sync. destruct (SyInv_init V body fails vr F14 g WF kmax) as [S NE].
  apply run_sync_loop_terminates0; auto; [apply SPInv0_init|lia].
Qed.

End ZeroSync.
