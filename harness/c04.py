"""C04 — splitting nested containers visits every inner element (pydra/engine/state.py:
input_shape, flatten, State.splits/_single_op_splits/_processing_terms, iter_splits, map_splits;
Task.split(..., container_ndim=...))."""
import copy
import itertools
import json
import os
import shutil
import subprocess
import sys
import tempfile
import time

from .lib import coqio
from .lib.runner import Outcome, Failure

PROP = "C04"
PROPS_FILE = "Props/C04.v"
MANIFEST = dict(
    text="Theorems (Coq, closed under the global context) about Model/Nested.v, the model of input_shape / flatten / "
         "the index generation of State.splits for one and two fields / iter_splits / map_splits: C04_full — for every "
         "list value (any nesting depth, any inner lengths, regular or ragged) and every container dimension n >= 1 the "
         "jobs of a one-field splitter are exactly the elements at depth n in depth-first order (no IndexError, nothing "
         "dropped or duplicated); C04_count — prod(input_shape) = number of flattened elements; C04_outer / C04_inner — "
         "the same as an operand of an outer splitter (lexicographic product, left slowest) and of an inner splitter "
         "(positional pairing of all elements, or rejection for unequal shapes; never rejected when both operands are "
         "rectangular with equal dimensions); C04_outer_n / C04_inner_n — the same for flat n-ary outer and inner splitters "
         "with any number of fields, any number of them nested (each with its own container dimension), in any position: "
         "the jobs are the n-ary lexicographic product / positional pairing of the fields' elements_at_depth lists; "
         "C04_shape_rect — on rectangular values input_shape is the dimension vector; C04_exec_spec_sound(_n) — the "
         "boolean checks evaluated on the cases decide the Prop specs; C04_full_tuples — a one-field splitter over a list "
         "whose inner containers are any mix of lists and tuples (flatten opens both, input_shape only lists) still "
         "runs exactly the elements at depth n, both kinds opened. "
         "The model is tied to the code on every run by running State.prepare_states (states_ind, states_val) and "
         "Task.split(..., container_ndim=...) through Submitter(worker='debug') on enumerated/sampled nested lists and "
         "evaluating model and executable spec on the same cases inside Coq (vm_compute).",
    note="Trusted: Coq kernel + vm_compute; hand-written model of the anchored functions (Python lists only: tuples, "
         "StateArray typing, lazy fields and upstream/inner-input states are not modelled); correspondence is "
         "differential testing, not proof.",
    technique="Coq proof by induction on the container dimension (shape/count invariant, index enumeration lemmas) + "
              "model/implementation/spec correspondence via generated cases.v",
    design="§8 Group A / C04",
)
TIE_NAME = "Model.Nested.split1/split2 vs State.prepare_states (states_ind, states_val) and Task.split end to end"
TRUSTED = [
    "Model/Nested.v: hand-written model of input_shape, flatten, _single_op_splits, _processing_terms + one binary "
    "step of State.splits (itertools.product / zip after the shape test), iter_splits, map_splits",
    "modelled, not verified: values are Python ints and lists (tuples, which flatten opens but input_shape does "
    "not, are modelled for the one-field splitter only — tvalue/tsplit1 — and observed at State level; a top-level "
    "tuple, which ensure_list would wrap, cannot come from Task.split and is not modelled); itertools iterators are eager lists; states from upstream nodes (inner_inputs) and "
    "mixed outer/inner nestings of more than two fields belong to C01/C03; flat n-ary splitters are modelled as the "
    "left fold splitter2rpn produces (index tuples kept flattened) and observed at State level only",
]
ASSUMPTIONS = ["split values are (nested) Python lists of atoms; container dimension >= 1 (the property's quantifier); "
               "a field without a container_ndim entry has container dimension 1"]
RULE = ("nested lists of uniform depth 1-3 with inner lengths 0-3 (all of depth <= 2 and all of depth 3 with lengths "
        "0-2 enumerated, depth 3 with lengths up to 3 sampled: rectangular, one-list-perturbed and fully random ragged), "
        "a few mixed-depth values, x every container dimension 1..depth (and depth+1, and the default), alone and as the left/right operand of an outer and of an inner splitter whose other "
        "operand is a plain list or a second nested field, and at a random position of a flat 3-4 field outer / inner "
        "splitter (State level); depth 2-3 values with random inner lists turned into tuples, one field (State level); "
        "non-trivial = distinct case with container dimension >= 2 "
        "and >= 2 elements at that depth")

IMPORTS = ["Model.Nested", "Spec.Nested"]


# ---------------------------------------------------------------- values
def relabel(v, start=1):
    """Number the atoms depth first so that dropped / duplicated elements are identifiable."""
    c = [start]

    def go(x):
        if isinstance(x, list):
            return [go(y) for y in x]
        c[0] += 1
        return c[0] - 1
    return go(v)


def all_uniform(depth, maxlen=3):
    """Every nested list of uniform depth `depth` with all lengths in 0..maxlen (atoms are 0; relabel later)."""
    if depth == 0:
        return [0]
    sub = all_uniform(depth - 1, maxlen)
    out = []
    for n in range(0, maxlen + 1):
        out += [list(p) for p in itertools.product(sub, repeat=n)]
    return out


def rect_value(dims):
    if not dims:
        return 0
    return [rect_value(dims[1:]) for _ in range(dims[0])]


def random_uniform(rng, depth, maxlen=3):
    if depth == 0:
        return 0
    return [random_uniform(rng, depth - 1, maxlen) for _ in range(rng.randint(0, maxlen))]


def perturb(rng, v, depth):
    """Change the length of one inner list of a (rectangular) value."""
    v = copy.deepcopy(v)
    paths = []

    def walk(x, d, path):
        if d >= 1 and isinstance(x, list):
            if path:
                paths.append((path, d))
            for i, y in enumerate(x):
                walk(y, d - 1, path + [i])
    walk(v, depth, [])
    if not paths:
        return v
    path, d = rng.choice(paths)
    x = v
    for i in path:
        x = x[i]
    if x and rng.random() < 0.5:
        x.pop(rng.randrange(len(x)))
    elif len(x) < 3:
        x.append(rect_value([rng.randint(0, 3) for _ in range(d - 1)]) if d > 1 else 0)
    return v


def gen_depth3(rng):
    r = rng.random()
    if r < 0.3:
        return rect_value([rng.randint(1, 3), rng.randint(1, 3), rng.randint(0, 3)]), "rect3"
    if r < 0.6:
        return perturb(rng, rect_value([rng.randint(1, 3), rng.randint(1, 3), rng.randint(1, 3)]), 3), "perturbed3"
    return random_uniform(rng, 3), "random3"


def gen_mixed(rng):
    """A leaf where a list is expected (outside 'nested list of depth d', still meaningful for the spec)."""
    v = random_uniform(rng, rng.choice([2, 3]))
    if v:
        v[rng.randrange(len(v))] = 0
    return v, "mixed"


def depth_of(v):
    if not isinstance(v, list):
        return 0
    return 1 + max([depth_of(x) for x in v], default=0)


def elements(n, v):
    if n == 0 or not isinstance(v, list):
        return [v]
    out = []
    for x in v:
        out += elements(n - 1, x)
    return out


def dims(n, v):
    if n == 0 or not isinstance(v, list):
        return []
    return [len(v)] + (dims(n - 1, v[0]) if v else [])


def rectangular(n, v):
    """Mirror of Spec.Nested.rectangularb — the classifier of finding F04 is its negation."""
    if n == 0:
        return True
    if not isinstance(v, list):
        return False
    return all(rectangular(n - 1, c) for c in v) and all(dims(n - 1, c) == dims(n - 1, v[0]) for c in v)


# ---------------------------------------------------------------- values holding tuples
def tuplify(rng, v, top=True):
    """Turn some inner lists (never the split value itself) into tuples."""
    if not isinstance(v, list):
        return v
    ch = [tuplify(rng, x, False) for x in v]
    return tuple(ch) if (not top and rng.random() < 0.5) else ch


def t_json(v):
    if isinstance(v, tuple):
        return {"t": [t_json(x) for x in v]}
    if isinstance(v, list):
        return [t_json(x) for x in v]
    return v


def t_unjson(v):
    if isinstance(v, dict):
        return tuple(t_unjson(x) for x in v["t"])
    if isinstance(v, list):
        return [t_unjson(x) for x in v]
    return v


def telements(n, v):
    if n == 0 or not isinstance(v, (list, tuple)):
        return [v]
    out = []
    for x in v:
        out += telements(n - 1, x)
    return out


def enc_tvalue(v):
    if isinstance(v, tuple):
        return "(TTup %s)" % coqio.lst([enc_tvalue(x) for x in v])
    if isinstance(v, list):
        return "(TList %s)" % coqio.lst([enc_tvalue(x) for x in v])
    return "(TLeaf %s)" % coqio.z(v)


# ---------------------------------------------------------------- Gallina literals
def enc_value(v):
    if isinstance(v, list):
        return "(Node %s)" % coqio.lst([enc_value(x) for x in v])
    return "(Leaf %s)" % coqio.z(v)


def enc_children(v):
    assert isinstance(v, list)
    return coqio.lst([enc_value(x) for x in v])


def enc_cd(cd):
    return "None" if cd is None else "(Some %s)" % coqio.nat(cd)


def enc_outcome(obs, pair):
    ty = "(value * value)" if pair else "value"
    if obs[0] == "shape":
        return "(@ShapeError %s)" % ty
    if obs[0] == "index":
        return "(@IndexErr %s)" % ty
    if pair:
        return "(@Jobs %s %s)" % (ty, coqio.lst([coqio.pair(enc_value(a), enc_value(b)) for a, b in obs[1]]))
    return "(@Jobs %s %s)" % (ty, coqio.lst([enc_value(a) for a in obs[1]]))


def enc_ind(ind, pair):
    if ind is None:
        return "None"
    if pair:
        return "(Some %s)" % coqio.lst([coqio.pair(coqio.nat(i), coqio.nat(j)) for i, j in ind])
    return "(Some %s)" % coqio.lst([coqio.nat(i) for i in ind])


def enc_field(f):
    return coqio.pair(enc_cd(f[0]), enc_children(f[1]))


def enc_case(c, obs, ind):
    if c["kind"] == "tsingle":
        if obs[0] == "shape":
            o = "(@ShapeError tvalue)"
        elif obs[0] == "index":
            o = "(@IndexErr tvalue)"
        else:
            o = "(@Jobs tvalue %s)" % coqio.lst([enc_tvalue(a) for a in obs[1]])
        return "(CTup %s %s %s %s)" % (coqio.nat(c["cdx"]), coqio.lst([enc_tvalue(x) for x in c["x"]]), o,
                                      enc_ind(ind, False))
    if c["kind"] == "nary":
        ty = "(list value)"
        if obs[0] == "shape":
            o = "(@ShapeError %s)" % ty
        elif obs[0] == "index":
            o = "(@IndexErr %s)" % ty
        else:
            o = "(@Jobs %s %s)" % (ty, coqio.lst([coqio.lst([enc_value(a) for a in job]) for job in obs[1]]))
        i = "None" if ind is None else "(Some %s)" % coqio.lst([coqio.lst([coqio.nat(k) for k in t]) for t in ind])
        return "(CNary %s %s %s %s %s)" % (c["op"], enc_field(c["fields"][0]),
                                          coqio.lst([enc_field(f) for f in c["fields"][1:]]), o, i)
    if c["kind"] == "single":
        return "(CSingle %s %s %s %s)" % (enc_cd(c["cdx"]), enc_children(c["x"]), enc_outcome(obs, False),
                                          enc_ind(ind, False))
    return "(CPair %s %s %s %s %s %s %s)" % (c["op"], enc_cd(c["cdx"]), enc_children(c["x"]), enc_cd(c["cdy"]),
                                            enc_children(c["y"]), enc_outcome(obs, True), enc_ind(ind, True))


EXTRA = """
Local Open Scope nat_scope.
Inductive case : Type :=
| CSingle (cd : option nat) (x : list value) (obs : outcome value) (ind : option (list nat))
| CPair (o : binop) (cdx : option nat) (x : list value) (cdy : option nat) (y : list value)
        (obs : outcome (value * value)) (ind : option (list (nat * nat)))
| CNary (o : binop) (f0 : field) (fs : list field) (obs : outcome (list value)) (ind : option (list (list nat)))
| CTup (n : nat) (x : list tvalue) (obs : outcome tvalue) (ind : option (list nat)).
Definition ops_of (f0 : field) (fs : list field) : list operand :=
  map (fun f => (ndim_shape (fst f), Node (snd f))) (f0 :: fs).
Definition nn_eqb (a b : nat * nat) : bool := Nat.eqb (fst a) (fst b) && Nat.eqb (snd a) (snd b).
Definition ind_ok {A} (eqb : A -> A -> bool) (model : option (list A)) (obs : option (list A)) : bool :=
  match obs with None => true | Some _ => option_eqb (list_eqb eqb) model obs end.
(* the implementation did what the model does: same outcome, and the same states_ind when observed *)
Definition tie_ok (c : case) : bool :=
  match c with
  | CSingle cd x obs ind => outcome_eqb value_eqb (split1 cd x) obs && ind_ok Nat.eqb (Some (single_ind cd x)) ind
  | CPair o cdx x cdy y obs ind =>
      outcome_eqb pair_eqb' (split2 o cdx x cdy y) obs && ind_ok nn_eqb (pair_ind o cdx x cdy y) ind
  | CNary o f0 fs obs ind =>
      outcome_eqb (list_eqb value_eqb) (splitN o f0 fs) obs && ind_ok (list_eqb Nat.eqb) (nary_ind o f0 fs) ind
  | CTup n x obs ind => outcome_eqb tvalue_eqb (tsplit1 n x) obs && ind_ok Nat.eqb (Some (tsingle_ind n x)) ind
  end.
(* the implementation did what the property demands *)
Definition spec_ok (c : case) : bool :=
  match c with
  | CSingle cd x obs _ => single_okb (ndim_shape cd) (Node x) obs
  | CPair Outer cdx x cdy y obs _ => outer_okb (ndim_shape cdx) (Node x) (ndim_shape cdy) (Node y) obs
  | CPair Inner cdx x cdy y obs _ => inner_okb (ndim_shape cdx) (Node x) (ndim_shape cdy) (Node y) obs
  | CNary Outer f0 fs obs _ => outer_n_okb (ops_of f0 fs) obs
  | CNary Inner f0 fs obs _ => inner_n_okb (ops_of f0 fs) obs
  | CTup n x obs _ => tsingle_okb n (TList x) obs
  end.
"""


# ---------------------------------------------------------------- implementation runs
def _classify_exc(e):
    c = e
    seen = 0
    while c is not None and seen < 10:
        if isinstance(c, ValueError) and "do not have same shape" in str(c):
            return ("shape",)
        if isinstance(c, IndexError):
            return ("index",)
        c = c.__cause__ or c.__context__
        seen += 1
    return ("other", "%s: %s" % (type(e).__name__, str(e)[:200]))


def _splitter(c, name):
    if c["kind"] in ("single", "tsingle"):
        return "%s.x" % name if name else "x"
    fx, fy = ("%s.x" % name, "%s.y" % name) if name else ("x", "y")
    return [fx, fy] if c["op"] == "Outer" else (fx, fy)


def _cd(c, name):
    cd = {}
    for f in ("x", "y"):
        n = c.get("cd" + f)
        if n is not None and (f == "x" or c["kind"] == "pair"):
            cd[("%s.%s" % (name, f)) if name else f] = n
    return cd or None


def state_run(c):
    """State-level observation: (outcome, states_ind) of State.prepare_states."""
    from pydra.engine.state import State
    if c["kind"] == "nary":
        return state_run_nary(c)
    pair = c["kind"] == "pair"      # "single" and "tsingle" share the one-field path
    st = State(name="N", splitter=copy.deepcopy(_splitter(c, "N")), container_ndim=copy.deepcopy(_cd(c, "N")))
    inputs = {"N.x": copy.deepcopy(c["x"])}
    if pair:
        inputs["N.y"] = copy.deepcopy(c["y"])
    ind = None

    def get_ind():
        si = getattr(st, "states_ind", None)
        if si is None:
            return None
        return [(d["N.x"], d["N.y"]) for d in si] if pair else [d["N.x"] for d in si]
    try:
        st.prepare_states(inputs=inputs)
    except Exception as e:  # noqa: BLE001 — every exception is classified
        obs = _classify_exc(e)
        if obs[0] == "index":
            try:
                ind = get_ind()
            except Exception:  # noqa: BLE001
                ind = None
        return obs, ind
    ind = get_ind()
    vals = st.states_val
    jobs = [(d["N.x"], d["N.y"]) for d in vals] if pair else [d["N.x"] for d in vals]
    return ("jobs", jobs), ind


def state_run_nary(c):
    """State-level observation for a flat n-ary splitter over fields f0..fk."""
    from pydra.engine.state import State
    names = ["N.f%d" % i for i in range(len(c["fields"]))]
    sp = list(names) if c["op"] == "Outer" else tuple(names)
    cd = {nm: f[0] for nm, f in zip(names, c["fields"]) if f[0] is not None}
    st = State(name="N", splitter=copy.deepcopy(sp), container_ndim=cd or None)
    inputs = {nm: copy.deepcopy(f[1]) for nm, f in zip(names, c["fields"])}

    def get_ind():
        si = getattr(st, "states_ind", None)
        return None if si is None else [[d[nm] for nm in names] for d in si]
    try:
        st.prepare_states(inputs=inputs)
    except Exception as e:  # noqa: BLE001
        obs = _classify_exc(e)
        ind = None
        if obs[0] == "index":
            try:
                ind = get_ind()
            except Exception:  # noqa: BLE001
                ind = None
        return obs, ind
    return ("jobs", [[d[nm] for nm in names] for d in st.states_val]), get_ind()


def make_nary(rng, v, n, shape_kind):
    """A nested field among 2-3 partner fields (plain lists, sometimes a second nested one) in a flat
    n-ary outer or inner splitter, at a random position."""
    x = relabel(v)
    cnt = len(elements(n, x))
    op = rng.choice(["Outer", "Inner"])
    k = rng.choice([2, 2, 3])
    partners = []
    for j in range(k):
        base = 100 * (j + 1)
        r = rng.random()
        if op == "Outer":
            if r < 0.8:
                partners.append([None, relabel([0] * rng.randint(0, 2), base)])
            else:
                partners.append([2, relabel(random_uniform(rng, 2, 2), base)])
        else:
            if r < 0.45:
                partners.append([None, relabel([0] * cnt, base)])
            elif r < 0.8:
                partners.append([n, relabel(x, base)])
            elif r < 0.9:
                partners.append([None, relabel([0] * len(x), base)])
            else:
                partners.append([n, relabel(perturb(rng, x, depth_of(x)), base)])
    pos = rng.randint(0, k)
    fields = partners[:pos] + [[n, x]] + partners[pos:]
    return {"kind": "nary", "op": op, "fields": fields, "shape_kind": shape_kind}


def e2e_batch(cases):
    """Runs in a fresh interpreter: Task.split(..., container_ndim=...) through Submitter(worker='debug')."""
    import typing as ty
    from pydra.compose import python
    from pydra.engine.submitter import Submitter

    @python.define
    def Ident(x: ty.Any, y: ty.Any = -1) -> ty.Any:
        return [x, y]

    out = []
    for c in cases:
        d = tempfile.mkdtemp(prefix="verif-c04-")
        try:
            kw = {"x": copy.deepcopy(c["x"])}
            if c["kind"] == "pair":
                kw["y"] = copy.deepcopy(c["y"])
            task = Ident().split(_splitter(c, None), container_ndim=_cd(c, None), **kw)
            with Submitter(worker="debug", cache_root=d) as sub:
                res = sub(task)
            o = list(res.outputs.out)
            if c["kind"] == "pair":
                out.append(["jobs", [[a, b] for a, b in o]])
            else:
                assert all(b == -1 for _, b in o), o
                out.append(["jobs", [a for a, _ in o]])
        except Exception as e:  # noqa: BLE001
            out.append(list(_classify_exc(e)))
        finally:
            shutil.rmtree(d, ignore_errors=True)
    return out


def e2e_run(cases):
    """Observations of e2e_batch, computed by a fresh /venv/bin/python with the repo under test."""
    if not cases:
        return []
    repo = os.environ.get("VERIF_REPO", "/repo")
    d = tempfile.mkdtemp(prefix="verif-c04-io-")
    try:
        fin, fout = os.path.join(d, "in.json"), os.path.join(d, "out.json")
        with open(fin, "w") as f:
            json.dump(cases, f)
        env = dict(os.environ, PYTHONPATH="%s:%s" % (coqio.VERIF, repo), PYTHONHASHSEED="0", NO_ET="1",
                   PYTHONDONTWRITEBYTECODE="1")
        p = subprocess.run(["timeout", "1500", "/venv/bin/python", "-c",
                            "import json,sys; from harness import c04; "
                            "json.dump(c04.e2e_batch(json.load(open(sys.argv[1]))), open(sys.argv[2],'w'))",
                            fin, fout], env=env, cwd=coqio.VERIF, stdout=subprocess.PIPE, stderr=subprocess.STDOUT,
                           text=True)
        if p.returncode != 0 or not os.path.exists(fout):
            raise RuntimeError("end-to-end batch failed (rc=%s):\n%s" % (p.returncode, p.stdout[-2000:]))
        with open(fout) as f:
            res = json.load(f)
        out = []
        for c, r in zip(cases, res):
            if r[0] == "jobs":
                out.append(("jobs", [tuple(x) for x in r[1]] if c["kind"] == "pair" else r[1]))
            else:
                out.append(tuple(r))
        return out
    finally:
        shutil.rmtree(d, ignore_errors=True)


# ---------------------------------------------------------------- case generation
def make_single(v, n, shape_kind):
    return {"kind": "single", "x": relabel(v), "cdx": n, "shape_kind": shape_kind}


def make_pair(rng, v, n, shape_kind, nested_left=True):
    """The nested field as one operand of an outer / inner splitter."""
    x = relabel(v)
    cnt = len(elements(n if n is not None else 1, x))
    op = rng.choice(["Outer", "Inner"])
    r = rng.random()
    if op == "Outer":
        if r < 0.7:
            y, cdy = relabel([0] * rng.randint(0, 3), 100), None
        else:
            d = rng.choice([1, 2])
            y, cdy = relabel(random_uniform(rng, d), 100), rng.randint(1, d)
    else:
        if r < 0.35:                       # a second nested field of the same shape
            y, cdy = relabel(x, 100), n
        elif r < 0.6:                      # a plain list with as many elements as x has at depth n
            y, cdy = relabel([0] * cnt, 100), None
        elif r < 0.8:                      # a plain list as long as x
            y, cdy = relabel([0] * len(x), 100), None
        elif r < 0.9:                      # same shape except for one inner list
            y, cdy = relabel(perturb(rng, x, depth_of(x)), 100), n
        else:
            d = rng.choice([1, 2])
            y, cdy = relabel(random_uniform(rng, d), 100), rng.choice([None, d])
    c = {"kind": "pair", "op": op, "shape_kind": shape_kind}
    if nested_left:
        c.update(x=x, cdx=n, y=y, cdy=cdy)
    else:
        c.update(x=y, cdx=cdy, y=x, cdy=n)
    return c


def case_key(c):
    if c["kind"] == "tsingle":
        return json.dumps(["tsingle", t_json(c["x"]), c["cdx"]])
    if c["kind"] == "nary":
        return json.dumps(["nary", c["op"], c["fields"]])
    return json.dumps([c["kind"], c.get("op"), c["x"], c.get("cdx"), c.get("y"), c.get("cdy")])


def nontrivial(c):
    def nt(v, n):
        return n is not None and n >= 2 and len(elements(n, v)) >= 2
    if c["kind"] == "nary":
        return any(nt(f[1], f[0]) for f in c["fields"])
    if c["kind"] == "tsingle":
        return c["cdx"] >= 2 and len(telements(c["cdx"], c["x"])) >= 2
    return nt(c["x"], c.get("cdx")) or (c["kind"] == "pair" and nt(c["y"], c.get("cdy")))


def in_quantifier(c):
    """container dimensions >= 1 (None = default 1): the region where the theorems and the spec speak."""
    if c["kind"] == "nary":
        return all(f[0] is None or f[0] >= 1 for f in c["fields"])
    return all(c.get(k) is None or c.get(k) >= 1 for k in ("cdx", "cdy"))


def not_rect(c):
    """Finding-F04 classifier: some operand is not rectangular at its container dimension."""
    if c["kind"] == "nary":
        return any(not rectangular(f[0] or 1, f[1]) for f in c["fields"])
    if c["kind"] == "tsingle":
        return False        # F04's class is defined on list-only values
    bad = not rectangular(c["cdx"] or 1, c["x"])
    if c["kind"] == "pair":
        bad = bad or not rectangular(c["cdy"] or 1, c["y"])
    return bad


def build_cases(ctx):
    rng = ctx.rng
    cases = []
    for c in ctx.corpus():
        c = dict(c)
        c.setdefault("shape_kind", "corpus")
        cases.append(c)
    # every value of depth <= 2 x every container dimension (and the default), alone
    for depth in (1, 2):
        for v in all_uniform(depth):
            for n in range(1, depth + 1):
                cases.append(make_single(v, n, "enum%d" % depth))
            if depth == 1 or rng.random() < 0.15:
                cases.append(make_single(v, None, "enum%d-default" % depth))
            if depth == 1 or rng.random() < 0.15:       # dimension beyond the value's depth: atoms are the elements
                cases.append(make_single(v, depth + 1, "enum%d-deeper" % depth))
    # every value of depth 2 inside an outer and an inner splitter (random partner), both operand positions
    n_pairs2 = ctx.budget(1, 4)
    for v in all_uniform(2):
        for _ in range(n_pairs2):
            cases.append(make_pair(rng, v, rng.choice([1, 2, 2]), "enum2", nested_left=rng.random() < 0.7))
    # depth 3: every value with inner lengths 0-2, alone, every container dimension
    for v in all_uniform(3, maxlen=2):
        for n in (1, 2, 3):
            cases.append(make_single(v, n, "enum3-len2"))
    # depth 3 with lengths up to 3: sampled
    for _ in range(ctx.budget(500, 8000)):
        v, kind = gen_depth3(rng) if rng.random() < 0.93 else gen_mixed(rng)
        n = rng.choice([1, 2, 3, 3])
        if rng.random() < 0.55:
            cases.append(make_single(v, n, kind))
        else:
            cases.append(make_pair(rng, v, n, kind, nested_left=rng.random() < 0.7))
    # flat n-ary splitters (3-4 fields) around a nested field, State level
    for v in all_uniform(2):
        cases.append(make_nary(rng, v, rng.choice([1, 2, 2]), "enum2"))
    for _ in range(ctx.budget(150, 2500)):
        v, kind = gen_depth3(rng)
        cases.append(make_nary(rng, v, rng.choice([2, 3, 3]), kind))
    # tuples as inner containers (flatten opens them, input_shape does not), one field, State level
    for depth in (2, 3):
        for _ in range(ctx.budget(60, 800)):
            v = random_uniform(rng, depth) if rng.random() < 0.6 else rect_value(
                [rng.randint(1, 3) for _ in range(depth)])
            x = tuplify(rng, relabel(v))
            cases.append({"kind": "tsingle", "x": x, "cdx": rng.randint(1, depth), "shape_kind": "tuples%d" % depth})
    # container dimension 0 is outside the property (1..depth): model/implementation agreement only
    for v in ([], [1], [[1, 2], [3]], [[1], [2]]):
        cases.append({"kind": "single", "x": v, "cdx": 0, "shape_kind": "ndim0"})
    return cases


# ---------------------------------------------------------------- the run
def _case_json(c):
    if c["kind"] == "tsingle":
        return {"kind": "tsingle", "x_tjson": t_json(c["x"]), "cdx": c["cdx"]}
    return {k: c[k] for k in ("kind", "op", "x", "cdx", "y", "cdy", "fields") if k in c}


def _terms(c):
    """Gallina terms printing the model value and the spec's reference for one case."""
    if c["kind"] == "tsingle":
        x = coqio.lst([enc_tvalue(v) for v in c["x"]])
        return ["tsplit1 %s %s" % (coqio.nat(c["cdx"]), x), "telements %s (TList %s)" % (coqio.nat(c["cdx"]), x)]
    if c["kind"] == "nary":
        return ["splitN %s %s %s" % (c["op"], enc_field(c["fields"][0]),
                                    coqio.lst([enc_field(f) for f in c["fields"][1:]])),
                coqio.lst(["(elements_at_depth %s %s, rectangularb %s %s)" % (
                    coqio.nat(f[0] or 1), enc_value(f[1]), coqio.nat(f[0] or 1), enc_value(f[1]))
                    for f in c["fields"]])]
    if c["kind"] == "single":
        return ["split1 %s %s" % (enc_cd(c["cdx"]), enc_children(c["x"])),
                "elements_at_depth %s %s" % (coqio.nat(c["cdx"] if c["cdx"] is not None else 1), enc_value(c["x"]))]
    nx = coqio.nat(c["cdx"] if c["cdx"] is not None else 1)
    ny = coqio.nat(c["cdy"] if c["cdy"] is not None else 1)
    return ["split2 %s %s %s %s %s" % (c["op"], enc_cd(c["cdx"]), enc_children(c["x"]), enc_cd(c["cdy"]),
                                      enc_children(c["y"])),
            "(elements_at_depth %s %s, elements_at_depth %s %s, rectangularb %s %s, rectangularb %s %s)" % (
                nx, enc_value(c["x"]), ny, enc_value(c["y"]), nx, enc_value(c["x"]), ny, enc_value(c["y"]))]


def _failures(scratch, name, items):
    """items: [(case, level, obs, ind, kind)] -> Failure list; one coqc call prints model and spec values."""
    if not items:
        return []
    terms = []
    for c, _, _, _, _ in items:
        terms += _terms(c)
    try:
        vals = coqio.eval_terms(scratch, name, IMPORTS, terms)
    except Exception as e:  # noqa: BLE001
        vals = ["<eval failed: %s>" % e] * len(terms)
    out = []
    for k, (c, level, obs, ind, kind) in enumerate(items):
        model, spec = vals[2 * k], vals[2 * k + 1]
        case = _case_json(c)
        case["level"] = level
        observed = {"outcome": list(obs), "states_ind": ind}
        if kind == "spec":
            what = ("n-ary " if c["kind"] == "nary" else "") + ("outer: lexicographic product of the elements at depth n" if c.get("op") == "Outer" else
                    "inner: positional pairing of all elements, or rejection" if c.get("op") == "Inner" else
                    "one job per element at depth n, depth first")
            fid = "F04" if not_rect(c) else None
            key = "spec: elements at depth n" + (" of x, of y; x, y rectangular?" if c["kind"] == "pair" else
                                                 " and rectangular? per field" if c["kind"] == "nary" else "")
            out.append(Failure(case=case, observed=observed, expected={key: spec, "model": model},
                               note=what + (" [value not rectangular at depth n]" if fid else ""), finding=fid,
                               kind="spec"))
        else:
            out.append(Failure(case=case, observed=observed, expected={"model": model, "spec": spec},
                               note="model/implementation (%s level)" % level, kind="tie"))
    return out


def run(ctx):
    cases = build_cases(ctx)
    dist = {"single": 0, "outer": 0, "inner": 0, "nary_outer": 0, "nary_inner": 0, "single_with_tuples": 0, "rectangular": 0, "ragged": 0, "outcome_jobs": 0,
            "outcome_shape_error": 0, "outcome_index_error": 0, "outcome_other": 0, "state_level": 0, "end_to_end": 0,
            "ndim_1": 0, "ndim_2": 0, "ndim_3": 0, "ndim_default": 0, "ndim_0": 0}
    kinds = {}
    seen, uniq = set(), []
    for c in cases:
        k = case_key(c)
        if k in seen:
            continue
        seen.add(k)
        uniq.append(c)
    cases = uniq
    out = Outcome(rule=RULE)
    out.distinct_nontrivial = sum(1 for c in cases if nontrivial(c) and in_quantifier(c))

    # --- State level, in process
    recs = []           # (case, level, obs, ind)
    t0 = time.time()
    for c in cases:
        obs, ind = state_run(c)
        recs.append((c, "state", obs, ind))
    # --- end to end on a sample (corpus first, then a seeded sample biased to non-trivial cases)
    n_e2e = ctx.budget(70, 500)
    cand = [c for c in cases if in_quantifier(c) and c["kind"] not in ("nary", "tsingle")]
    corpus_n = len(ctx.corpus())
    pick = cand[:corpus_n]
    rest = cand[corpus_n:]
    nt = [c for c in rest if nontrivial(c)]
    tr = [c for c in rest if not nontrivial(c)]
    pick += ctx.rng.sample(nt, min(len(nt), int(n_e2e * 0.8)))
    pick += ctx.rng.sample(tr, min(len(tr), n_e2e - int(n_e2e * 0.8)))
    t1 = time.time()
    e2e_obs = e2e_run(pick)
    t2 = time.time()
    for c, obs in zip(pick, e2e_obs):
        recs.append((c, "e2e", obs, None))

    lits, keep = [], []
    for c, level, obs, ind in recs:
        dist["state_level" if level == "state" else "end_to_end"] += 1
        dist[{"single": "single", "tsingle": "single_with_tuples",
              "nary": "nary_" + c.get("op", "").lower()}.get(c["kind"], c.get("op", "").lower())] += 1
        if c["kind"] != "tsingle":
            dist["ragged" if not_rect(c) else "rectangular"] += 1
        for f in ("x", "y"):
            if c["kind"] != "nary" and (f == "x" or c["kind"] == "pair"):
                n = c.get("cd" + f)
                dist["ndim_default" if n is None else "ndim_%d" % min(n, 3)] += 1
        for f in c.get("fields", []):
            dist["ndim_default" if f[0] is None else "ndim_%d" % min(f[0], 3)] += 1
        kinds[c["shape_kind"]] = kinds.get(c["shape_kind"], 0) + 1
        dist["outcome_" + {"jobs": "jobs", "shape": "shape_error", "index": "index_error"}.get(obs[0], "other")] += 1
        if obs[0] == "other":
            # neither jobs nor one of the two modelled errors: the property's spec never allows it
            out.failures.append(Failure(case=_case_json(c),
                                        observed=list(obs), expected="jobs, or ShapeError for an inner splitter",
                                        note="unexpected exception (%s level)" % level, kind="spec",
                                        finding="F04" if not_rect(c) else None))
            continue
        lits.append(enc_case(c, obs, ind))
        keep.append((c, level, obs, ind))
    dist["value_kinds"] = kinds
    out.evaluations = len(recs)
    out.traces_validated = len(keep)
    out.distribution = dist
    out.samples = [{"case": _case_json(c), "level": level,
                    "observed": list(obs)} for c, level, obs, _ in
                   [r for r in keep if nontrivial(r[0])][:3] + [r for r in keep if r[1] == "e2e" and nontrivial(r[0])][:3]]
    res = coqio.run_cases(ctx.scratch, "c04", IMPORTS, "case", lits, {"tie": "tie_ok", "spec": "spec_ok"},
                          extra=EXTRA, shard=400)
    spec_bad = [i for i in res["spec"] if in_quantifier(keep[i][0])]
    # expand the smallest spec failures (known class and others separately) and the first tie failures
    def size(i):
        return (keep[i][0]["shape_kind"] == "mixed", len(case_key(keep[i][0])))
    known_cls = sorted([i for i in spec_bad if not_rect(keep[i][0])], key=size)
    other_cls = sorted([i for i in spec_bad if not not_rect(keep[i][0])], key=size)
    chosen = known_cls[:6] + other_cls[:12]
    items = [keep[i] + ("spec",) for i in chosen] + [keep[i] + ("tie",) for i in res["tie"][:8]]
    out.failures += _failures(ctx.scratch, "fail", items)
    out.extra = {"phase_wall_s": {"state_level": round(t1 - t0, 1), "end_to_end": round(t2 - t1, 1),
                                  "coq_cases": round(time.time() - t2, 1)},
                 "spec_disagreements": len(spec_bad), "spec_disagreements_expanded": len(chosen),
                 "tie_disagreements": len(res["tie"]),
                 "enumerated_depth_le_2_values": len(all_uniform(1)) + len(all_uniform(2))}
    return out


def replay(ctx, payload):
    c = payload["case"]
    c = {k: v for k, v in c.items() if k != "level"}
    if c["kind"] == "tsingle":
        c["x"] = t_unjson(c.pop("x_tjson"))
    if c["kind"] != "nary":
        c.setdefault("cdy", None)
    print("case:", json.dumps(c))
    obs, ind = state_run(c)
    print("implementation (State.prepare_states): outcome=%r states_ind=%r" % (obs, ind))
    try:
        if c["kind"] in ("nary", "tsingle"):
            raise RuntimeError("n-ary and tuple cases are observed at State level only")
        print("implementation (Task.split through Submitter(debug)): %r" % (e2e_run([c])[0],))
    except Exception as e:  # noqa: BLE001
        print("end-to-end run failed:", e)
    f = _failures(ctx.scratch, "replay", [(c, "replay", obs, ind, "tie")])[0]
    print("model:", f.expected["model"])
    print("spec :", f.expected["spec"])
    return 0
