(* Model/WfCache.v — pydra/engine/workflow.py: Workflow.construct / _constructed_cache /
   clear_cache, and pydra/compose/workflow.py: WorkflowTask.construct, as they are after the
   repair of finding F30 (the per-task `_constructed` memo is gone: construct() = Workflow.construct(self)).

   The class-level cache is  type-hash -> frozenset(non-lazy keys) -> hash(non-lazy values) -> Workflow,
   nested Python dicts = nested association lists in insertion order.
   No proofs in this file. *)
From Pydra Require Import Base.Prelude.
Local Open Scope string_scope.
Local Open Scope list_scope.

Definition fname := string.

Definition mem (f : fname) (l : list fname) : bool := existsb (String.eqb f) l.
Definition subset (a b : list fname) : bool := forallb (fun f => mem f b) a.
(* frozenset equality *)
Definition keys_eqb (a b : list fname) : bool := subset a b && subset b a.

Fixpoint lookup {A} (l : list (fname * A)) (f : fname) : option A :=
  match l with
  | [] => None
  | (g, a) :: r => if String.eqb f g then Some a else lookup r f
  end.

(* value of a task attribute: a concrete value (attrs.NOTHING is one of them) or a lazy field that
   belongs to an enclosing workflow (the task is used as a node) *)
Inductive attr (V : Type) := AVal (v : V) | ALazy.
Arguments AVal {V} v.
Arguments ALazy {V}.

(* what the constructor function receives for an input / what Workflow.inputs holds:
   the value, or LazyInField(workflow, field) *)
Inductive arg (V : Type) := Conc (v : V) | LzIn (f : fname).
Arguments Conc {V} v.
Arguments LzIn {V} f.

Inductive hit := Exact | Superset | Miss.

Section WfCache.
  Variable V : Type.                       (* attribute values *)
  Variable T : Type.                       (* workflow task classes *)
  Variable G : Type.                       (* what a constructor builds: nodes, bindings, outputs *)
  Variable R : Type.                       (* outputs of a run *)
  Variable HT HD HC : Type.                (* digests of a class, of a dict of values, of a task (checksum) *)
  Variable ht_eqb : HT -> HT -> bool.
  Variable hd_eqb : HD -> HD -> bool.
  Variable hc_eqb : HC -> HC -> bool.
  Variable hash_type : T -> HT.                       (* hash_function(type(task)) *)
  Variable hash_dict : list (fname * V) -> HD.        (* hash_function(non_lazy_vals) *)
  Variable checksum : T -> list (fname * V) -> HC.    (* task._checksum, fully resolved task *)
  Variable type_name : T -> string.                   (* type(task).__name__ *)
  Variable fields : T -> list fname.                  (* public attrs fields in definition order *)
  Variable default : T -> fname -> attr V.            (* field default (NOTHING when there is none) *)
  Variable ctor : T -> list (fname * arg V) -> G.     (* the user's constructor function *)
  Variable subst : list (fname * V) -> G -> G.        (* resolve LazyInField bindings from Workflow.inputs *)
  Variable eval : G -> R.                             (* execute a fully resolved graph *)

  Record wf := { wname : string; winputs : list (fname * arg V); wgraph : G }.

  (* non_lazy_vals = {n: v for n, v in attrs_values(task).items() if not is_lazy(v) and n not in lazy} *)
  Fixpoint non_lazy_vals (attrs : list (fname * attr V)) (lazy : list fname) : list (fname * V) :=
    match attrs with
    | [] => []
    | (f, AVal v) :: r => if mem f lazy then non_lazy_vals r lazy else (f, v) :: non_lazy_vals r lazy
    | (f, ALazy) :: r => non_lazy_vals r lazy
    end.

  (* lazy_spec = copy(task); every field whose name is not in non_lazy_keys becomes a LazyInField *)
  Definition mk_inputs (attrs : list (fname * attr V)) (nlv : list (fname * V)) : list (fname * arg V) :=
    map (fun fa => let f := fst fa in
                   (f, match lookup nlv f with Some v => Conc v | None => LzIn f end)) attrs.

  (* the miss path: run the constructor on the partly lazy inputs *)
  Definition build (t : T) (attrs : list (fname * attr V)) (nlv : list (fname * V)) : wf :=
    let inputs := mk_inputs attrs nlv in
    {| wname := type_name t; winputs := inputs; wgraph := ctor t inputs |}.

  Definition kcache := list (HD * wf).
  Definition tcache := list (list fname * kcache).
  Definition cache := list (HT * tcache).

  Fixpoint find_h {A B} (eqb : A -> A -> bool) (l : list (A * B)) (k : A) : option B :=
    match l with
    | [] => None
    | (k', b) :: r => if eqb k k' then Some b else find_h eqb r k
    end.

  Definition type_cache (c : cache) (th : HT) : tcache :=
    match find_h ht_eqb c th with Some tc => tc | None => [] end.

  (* non_lazy_keys in cached_tasks and non_lazy_hash in cached_tasks[non_lazy_keys] *)
  Definition exact_lookup (tc : tcache) (keys : list fname) (vh : HD) : option wf :=
    match find_h keys_eqb tc keys with
    | Some kc => find_h hd_eqb kc vh
    | None => None
    end.

  Definition restrict (nlv : list (fname * V)) (ks : list fname) : list (fname * V) :=
    filter (fun fv => mem (fst fv) ks) nlv.

  (* for key_set, key_set_cache in cached_tasks.items(): if key_set.issubset(non_lazy_keys): ... *)
  Fixpoint superset_lookup (tc : tcache) (nlv : list (fname * V)) (keys : list fname)
    : option (list fname * wf) :=
    match tc with
    | [] => None
    | (ks, kc) :: r =>
        if subset ks keys then
          match find_h hd_eqb kc (hash_dict (restrict nlv ks)) with
          | Some w => Some (ks, w)
          | None => superset_lookup r nlv keys
          end
        else superset_lookup r nlv keys
    end.

  (* wf = deepcopy(cached); for key in non_lazy_keys - key_set: setattr(wf.inputs, key, non_lazy_vals[key]) *)
  Definition set_extra (w : wf) (nlv : list (fname * V)) (ks : list fname) : wf :=
    {| wname := wname w;
       winputs := map (fun fa => let f := fst fa in
                          (f, if mem f ks then snd fa
                              else match lookup nlv f with Some v => Conc v | None => snd fa end))
                      (winputs w);
       wgraph := wgraph w |}.

  (* cls._constructed_cache[task_hash][non_lazy_keys][non_lazy_hash] = workflow *)
  Fixpoint insert_k (tc : tcache) (keys : list fname) (vh : HD) (w : wf) : tcache :=
    match tc with
    | [] => [(keys, [(vh, w)])]
    | (ks, kc) :: r => if keys_eqb keys ks then (ks, kc ++ [(vh, w)]) :: r
                       else (ks, kc) :: insert_k r keys vh w
    end.
  Fixpoint insert_t (c : cache) (th : HT) (keys : list fname) (vh : HD) (w : wf) : cache :=
    match c with
    | [] => [(th, insert_k [] keys vh w)]
    | (th', tc) :: r => if ht_eqb th th' then (th', insert_k tc keys vh w) :: r
                        else (th', tc) :: insert_t r th keys vh w
    end.

  (* Workflow.construct(task, dont_cache, lazy) *)
  Definition construct (c : cache) (t : T) (attrs : list (fname * attr V)) (lazy : list fname)
             (dont_cache : bool) : cache * wf * hit :=
    let nlv := non_lazy_vals attrs lazy in
    let keys := map fst nlv in
    let vh := hash_dict nlv in
    let th := hash_type t in
    let tc := type_cache c th in
    match exact_lookup tc keys vh with
    | Some w => (c, w, Exact)
    | None =>
        match superset_lookup tc nlv keys with
        | Some (ks, w0) => (c, set_extra w0 nlv ks, Superset)
        | None =>
            let w := build t attrs nlv in
            (if dont_cache then c else insert_t c th keys vh w, w, Miss)
        end
    end.

  (* Workflow.clear_cache(task=None | a task class) *)
  Fixpoint clear_type (c : cache) (th : HT) : cache :=
    match c with
    | [] => []
    | (th', tc) :: r => if ht_eqb th th' then (th', []) :: r else (th', tc) :: clear_type r th
    end.

  (* ---- task objects and operation histories ---- *)
  Record obj := { otype : T; oattrs : list (fname * attr V) }.

  Inductive op :=
  | ONew (t : T) (given : list (fname * attr V))          (* t(given...) *)
  | OSet (o : nat) (f : fname) (a : attr V)               (* setattr(obj, f, a) *)
  | OCopy (o : nat)                                       (* copy.copy(obj) *)
  | OEvolve (o : nat) (changes : list (fname * attr V))   (* attrs.evolve(obj, changes...) *)
  | OConstruct (o : nat)                                  (* obj.construct() *)
  | OWConstruct (o : nat) (lazy : list fname) (dont_cache : bool) (* Workflow.construct(obj, dont_cache, lazy) *)
  | ORun (o : nat) (new_root : bool)                      (* obj(cache_root=shared | a new empty one) *)
  | OClear (t : option T).                                (* Workflow.clear_cache(t) *)

  Inductive obs :=
  | NoObs
  | ObsWf (w : wf) (h : hit)
  | ObsOut (r : R) (h : option hit)      (* None: the result was found under the task's checksum *)
  | ObsErr.

  Record st := { objs : list obj; wcache : cache; store : list (HC * R) }.
  Definition st0 : st := {| objs := []; wcache := []; store := [] |}.

  Definition new_attrs (t : T) (given : list (fname * attr V)) : list (fname * attr V) :=
    map (fun f => (f, match lookup given f with Some a => a | None => default t f end)) (fields t).

  Definition set_attr (attrs : list (fname * attr V)) (f : fname) (a : attr V) : list (fname * attr V) :=
    map (fun ga => if String.eqb f (fst ga) then (fst ga, a) else ga) attrs.

  Definition set_attrs (attrs changes : list (fname * attr V)) : list (fname * attr V) :=
    map (fun ga => match lookup changes (fst ga) with Some a => (fst ga, a) | None => ga end) attrs.

  Fixpoint replace_nth {A} (l : list A) (n : nat) (x : A) : list A :=
    match l, n with
    | [], _ => []
    | _ :: r, O => x :: r
    | y :: r, S m => y :: replace_nth r m x
    end.

  (* all attributes concrete (Job.__init__: task._check_resolved) *)
  Fixpoint all_vals (attrs : list (fname * attr V)) : option (list (fname * V)) :=
    match attrs with
    | [] => Some []
    | (f, AVal v) :: r => match all_vals r with Some l => Some ((f, v) :: l) | None => None end
    | (_, ALazy) :: _ => None
    end.

  (* values of the concrete inputs of a workflow, for resolving LazyInField at run time *)
  Fixpoint conc_part (inputs : list (fname * arg V)) : list (fname * V) :=
    match inputs with
    | [] => []
    | (f, Conc v) :: r => (f, v) :: conc_part r
    | (_, LzIn _) :: r => conc_part r
    end.

  Definition resolved (w : wf) : G := subst (conc_part (winputs w)) (wgraph w).

  Definition step (s : st) (o : op) : st * obs :=
    match o with
    | ONew t given =>
        ({| objs := objs s ++ [{| otype := t; oattrs := new_attrs t given |}];
            wcache := wcache s; store := store s |}, NoObs)
    | OSet i f a =>
        match nth_error (objs s) i with
        | Some ob =>
            if mem f (map fst (oattrs ob)) then
              ({| objs := replace_nth (objs s) i {| otype := otype ob; oattrs := set_attr (oattrs ob) f a |};
                  wcache := wcache s; store := store s |}, NoObs)
            else (s, ObsErr)
        | None => (s, ObsErr)
        end
    | OCopy i =>
        match nth_error (objs s) i with
        | Some ob => ({| objs := objs s ++ [ob]; wcache := wcache s; store := store s |}, NoObs)
        | None => (s, ObsErr)
        end
    | OEvolve i changes =>
        match nth_error (objs s) i with
        | Some ob =>
            ({| objs := objs s ++ [{| otype := otype ob; oattrs := set_attrs (oattrs ob) changes |}];
                wcache := wcache s; store := store s |}, NoObs)
        | None => (s, ObsErr)
        end
    | OConstruct i =>
        match nth_error (objs s) i with
        | Some ob =>
            let '(c, w, h) := construct (wcache s) (otype ob) (oattrs ob) [] false in
            ({| objs := objs s; wcache := c; store := store s |}, ObsWf w h)
        | None => (s, ObsErr)
        end
    | OWConstruct i lazy dc =>
        match nth_error (objs s) i with
        | Some ob =>
            let '(c, w, h) := construct (wcache s) (otype ob) (oattrs ob) lazy dc in
            ({| objs := objs s; wcache := c; store := store s |}, ObsWf w h)
        | None => (s, ObsErr)
        end
    | ORun i new_root =>
        match nth_error (objs s) i with
        | Some ob =>
            match all_vals (oattrs ob) with
            | None => (s, ObsErr)
            | Some vals =>
                let ck := checksum (otype ob) vals in
                match (if new_root then None else find_h hc_eqb (store s) ck) with
                | Some r => (s, ObsOut r None)            (* result found under the task's checksum *)
                | None =>
                    let '(c, w, h) := construct (wcache s) (otype ob) (oattrs ob) [] false in
                    let r := eval (resolved w) in
                    ({| objs := objs s; wcache := c;
                        store := if new_root then store s else store s ++ [(ck, r)] |}, ObsOut r (Some h))
                end
            end
        | None => (s, ObsErr)
        end
    | OClear None => ({| objs := objs s; wcache := []; store := store s |}, NoObs)
    | OClear (Some t) =>
        ({| objs := objs s; wcache := clear_type (wcache s) (hash_type t); store := store s |}, NoObs)
    end.

  Fixpoint run_ops (s : st) (ops : list op) : list obs :=
    match ops with
    | [] => []
    | o :: r => let '(s', ob) := step s o in ob :: run_ops s' r
    end.

  Definition history (ops : list op) : list obs := run_ops st0 ops.

  (* the state a history leaves behind *)
  Fixpoint state_after (s : st) (ops : list op) : st :=
    match ops with
    | [] => s
    | o :: r => state_after (fst (step s o)) r
    end.

  (* ---- object identity: which Python object is the `inputs` of a returned / cached Workflow ----
     `lazy_spec = copy(task)` allocates a new task object on the miss path (it is what the cached
     Workflow keeps as `inputs`), `deepcopy` allocates on the superset path, an exact hit returns the
     cached object itself.  new / copy.copy / attrs.evolve allocate the user's objects; setattr writes
     to one of those.  Identities are allocation numbers. *)
  Record ids := { inext : nat; iuser : list nat; icache : list (HT * list fname * HD * nat) }.
  Definition ids0 : ids := {| inext := 0; iuser := []; icache := [] |}.

  Fixpoint ifind (ic : list (HT * list fname * HD * nat)) (th : HT) (keys : list fname) (vh : HD) : option nat :=
    match ic with
    | [] => None
    | (th', ks, vh', n) :: r =>
        if ht_eqb th th' && keys_eqb keys ks && hd_eqb vh vh' then Some n else ifind r th keys vh
    end.

  Definition cache_ids (i : ids) : list nat := map snd (icache i).

  (* identity effect of Workflow.construct, given the path it took *)
  Definition iconstruct (i : ids) (t : T) (attrs : list (fname * attr V)) (lazy : list fname) (dc : bool)
             (h : hit) : ids * nat :=
    let nlv := non_lazy_vals attrs lazy in
    let keys := map fst nlv in
    match h with
    | Exact => (i, match ifind (icache i) (hash_type t) keys (hash_dict nlv) with
                   | Some n => n
                   | None => inext i
                   end)
    | Superset => ({| inext := S (inext i); iuser := iuser i; icache := icache i |}, inext i)
    | Miss => ({| inext := S (inext i); iuser := iuser i;
                  icache := if dc then icache i
                            else icache i ++ [(hash_type t, keys, hash_dict nlv, inext i)] |}, inext i)
    end.

  (* one observation per operation: identity of the returned workflow's inputs (construct operations),
     identity written by a setattr, and the user's objects at that moment *)
  Record idobs := { id_ret : option nat; id_written : option nat; id_user : list nat; id_cached : list nat }.

  Definition alloc_user (i : ids) : ids :=
    {| inext := S (inext i); iuser := iuser i ++ [inext i]; icache := icache i |}.

  Definition istep (s : st) (i : ids) (o : op) : ids * idobs :=
    let quiet (j : ids) := (j, {| id_ret := None; id_written := None; id_user := iuser j; id_cached := cache_ids j |}) in
    match o with
    | ONew _ _ => quiet (alloc_user i)
    | OSet k f _ =>
        match nth_error (objs s) k with
        | Some ob =>
            if mem f (map fst (oattrs ob))
            then (i, {| id_ret := None; id_written := nth_error (iuser i) k; id_user := iuser i; id_cached := cache_ids i |})
            else quiet i
        | None => quiet i
        end
    | OCopy k | OEvolve k _ =>
        match nth_error (objs s) k with Some _ => quiet (alloc_user i) | None => quiet i end
    | OConstruct k =>
        match nth_error (objs s) k with
        | Some ob =>
            let '(_, _, h) := construct (wcache s) (otype ob) (oattrs ob) [] false in
            let '(j, n) := iconstruct i (otype ob) (oattrs ob) [] false h in
            (j, {| id_ret := Some n; id_written := None; id_user := iuser j; id_cached := cache_ids j |})
        | None => quiet i
        end
    | OWConstruct k lazy dc =>
        match nth_error (objs s) k with
        | Some ob =>
            let '(_, _, h) := construct (wcache s) (otype ob) (oattrs ob) lazy dc in
            let '(j, n) := iconstruct i (otype ob) (oattrs ob) lazy dc h in
            (j, {| id_ret := Some n; id_written := None; id_user := iuser j; id_cached := cache_ids j |})
        | None => quiet i
        end
    | ORun k new_root =>
        match nth_error (objs s) k with
        | Some ob =>
            match all_vals (oattrs ob) with
            | None => quiet i
            | Some vals =>
                match (if new_root then None else find_h hc_eqb (store s) (checksum (otype ob) vals)) with
                | Some _ => quiet i
                | None =>
                    let '(_, _, h) := construct (wcache s) (otype ob) (oattrs ob) [] false in
                    quiet (fst (iconstruct i (otype ob) (oattrs ob) [] false h))
                end
            end
        | None => quiet i
        end
    | OClear None => quiet {| inext := inext i; iuser := iuser i; icache := [] |}
    | OClear (Some t) =>
        quiet {| inext := inext i; iuser := iuser i;
                 icache := filter (fun e => negb (ht_eqb (hash_type t) (fst (fst (fst e))))) (icache i) |}
    end.

  Fixpoint irun (s : st) (i : ids) (ops : list op) : list idobs :=
    match ops with
    | [] => []
    | o :: r => let '(j, ob) := istep s i o in ob :: irun (fst (step s o)) j r
    end.

  Definition id_history (ops : list op) : list idobs := irun st0 ids0 ops.
End WfCache.

Arguments wname {V G} w.
Arguments winputs {V G} w.
Arguments wgraph {V G} w.
Arguments ONew {V T} t given.
Arguments OSet {V T} o f a.
Arguments OCopy {V T} o.
Arguments OEvolve {V T} o changes.
Arguments OConstruct {V T} o.
Arguments OWConstruct {V T} o lazy dont_cache.
Arguments ORun {V T} o new_root.
Arguments OClear {V T} t.
Arguments ObsWf {V G R} w h.
Arguments ObsOut {V G R} r h.
Arguments NoObs {V G R}.
Arguments ObsErr {V G R}.

(* ------------------------------------------------------------------------------------------
   The concrete family used by the correspondence run: workflow definitions generated by
   harness/c30.py (2-3 python nodes Add/Sub/Mul/Sum, optional split/combine on a node, optional
   `if <field>:` choosing between two node classes), and the values they are run on.
   ------------------------------------------------------------------------------------------ *)
Inductive val := VInt (z : Z) | VList (l : list Z) | VNothing.

Inductive ref := RIn (f : fname) | RConst (v : val) | RNode (n : string).

Record nodedef := {
  nd_name : string;
  nd_op : string;                        (* node task class *)
  nd_else : option (fname * string);     (* Some (f, op'): `if f: <nd_op> else: <op'>` in the constructor *)
  nd_a : ref; nd_b : ref;
  nd_split : bool;                       (* op(b=..).split(a=..) *)
  nd_combine : bool }.                   (* .combine("a") *)

Record wfdef := {
  wd_name : string;
  wd_fields : list (fname * attr val);   (* name, default (AVal VNothing = no default) *)
  wd_nodes : list nodedef;
  wd_out : ref }.

Inductive bind := BConst (v : val) | BIn (f : fname) | BOut (n : string).

Record gnode := {
  gn_name : string; gn_op : string; gn_a : bind; gn_b : bind; gn_split : bool; gn_combine : bool }.
Record graph := { g_nodes : list gnode; g_out : bind }.

(* Python truthiness of what the constructor sees: a LazyInField object is truthy *)
Definition truthy (a : option (arg val)) : bool :=
  match a with
  | Some (Conc (VInt z)) => negb (Z.eqb z 0)
  | Some (Conc (VList l)) => match l with [] => false | _ => true end
  | Some (Conc VNothing) => false
  | Some (LzIn _) => true
  | None => true
  end.

Definition bind_of (args : list (fname * arg val)) (r : ref) : bind :=
  match r with
  | RIn f => match lookup args f with
             | Some (Conc v) => BConst v
             | Some (LzIn g) => BIn g
             | None => BIn f
             end
  | RConst v => BConst v
  | RNode n => BOut n
  end.

Definition ctor_of (d : wfdef) (args : list (fname * arg val)) : graph :=
  {| g_nodes := map (fun n =>
        {| gn_name := nd_name n;
           gn_op := match nd_else n with
                    | None => nd_op n
                    | Some (f, op') => if truthy (lookup args f) then nd_op n else op'
                    end;
           gn_a := bind_of args (nd_a n); gn_b := bind_of args (nd_b n);
           gn_split := nd_split n; gn_combine := nd_combine n |}) (wd_nodes d);
     g_out := bind_of args (wd_out d) |}.

Definition subst_bind (s : list (fname * val)) (b : bind) : bind :=
  match b with
  | BIn f => match lookup s f with Some v => BConst v | None => BIn f end
  | _ => b
  end.
Definition subst_graph (s : list (fname * val)) (g : graph) : graph :=
  {| g_nodes := map (fun n => {| gn_name := gn_name n; gn_op := gn_op n;
                                 gn_a := subst_bind s (gn_a n); gn_b := subst_bind s (gn_b n);
                                 gn_split := gn_split n; gn_combine := gn_combine n |}) (g_nodes g);
     g_out := subst_bind s (g_out g) |}.

(* running a resolved graph with the debug worker: ints, lists, and state arrays of a split node *)
Inductive rv := VI (z : Z) | VL (l : list Z) | VA (l : list Z).

Definition arg_value (env : list (string * rv)) (b : bind) : option rv :=
  match b with
  | BConst (VInt z) => Some (VI z)
  | BConst (VList l) => Some (VL l)
  | BConst VNothing => None
  | BIn _ => None
  | BOut n => lookup env n
  end.

Definition binop (op : string) : option (Z -> Z -> Z) :=
  if String.eqb op "Add" then Some Z.add
  else if String.eqb op "Sub" then Some Z.sub
  else if String.eqb op "Mul" then Some Z.mul
  else None.

Fixpoint zip_with (f : Z -> Z -> Z) (a b : list Z) : list Z :=
  match a, b with x :: a', y :: b' => f x y :: zip_with f a' b' | _, _ => [] end.

Definition node_value (n : gnode) (a b : rv) : option rv :=
  let fin (r : rv) := if gn_combine n then match r with VA l => VL l | _ => r end else r in
  if String.eqb (gn_op n) "Sum" then
    match a, b with
    | VL l, VI y => Some (VI (fold_left Z.add l 0 + y)%Z)
    | _, _ => None
    end
  else match binop (gn_op n) with
  | None => None
  | Some f =>
      if gn_split n then
        match a, b with
        | VL l, VI y => Some (fin (VA (map (fun x => f x y) l)))
        | _, _ => None
        end
      else
        match a, b with
        | VI x, VI y => Some (VI (f x y))
        | VA l, VI y => Some (fin (VA (map (fun x => f x y) l)))
        | VI x, VA l => Some (fin (VA (map (fun y => f x y) l)))
        | VA l, VA m => Some (fin (VA (zip_with f l m)))
        | _, _ => None
        end
  end.

Fixpoint eval_nodes (env : list (string * rv)) (ns : list gnode) : option (list (string * rv)) :=
  match ns with
  | [] => Some env
  | n :: r =>
      match arg_value env (gn_a n), arg_value env (gn_b n) with
      | Some a, Some b =>
          match node_value n a b with
          | Some v => eval_nodes ((gn_name n, v) :: env) r
          | None => None
          end
      | _, _ => None
      end
  end.

Definition eval_graph (g : graph) : option val :=
  match eval_nodes [] (g_nodes g) with
  | None => None
  | Some env =>
      match arg_value env (g_out g) with
      | Some (VI z) => Some (VInt z)
      | Some (VL l) => Some (VList l)
      | Some (VA l) => Some (VList l)      (* a remaining state array is implicitly combined *)
      | None => None
      end
  end.

(* decidable equalities of the concrete types (digests are the hashed things themselves: the
   correspondence run never meets a blake2b collision) *)
Definition eqb_of_dec {A} (dec : forall a b : A, {a = b} + {a <> b}) (a b : A) : bool :=
  if dec a b then true else false.

Definition val_dec : forall a b : val, {a = b} + {a <> b}.
Proof. decide equality; [apply Z.eq_dec | apply (list_eq_dec Z.eq_dec)]. Defined.
Definition attr_dec : forall a b : attr val, {a = b} + {a <> b}.
Proof. decide equality; apply val_dec. Defined.
Definition arg_dec : forall a b : arg val, {a = b} + {a <> b}.
Proof. decide equality; [apply val_dec | apply string_dec]. Defined.
Definition ref_dec : forall a b : ref, {a = b} + {a <> b}.
Proof. decide equality; try apply string_dec; apply val_dec. Defined.
Definition bind_dec : forall a b : bind, {a = b} + {a <> b}.
Proof. decide equality; try apply string_dec; apply val_dec. Defined.
Definition nodedef_dec : forall a b : nodedef, {a = b} + {a <> b}.
Proof.
  decide equality; try apply bool_dec; try apply ref_dec; try apply string_dec.
  decide equality. decide equality; apply string_dec.
Defined.
Definition wfdef_dec : forall a b : wfdef, {a = b} + {a <> b}.
Proof.
  decide equality; try apply ref_dec; try apply string_dec.
  - apply (list_eq_dec nodedef_dec).
  - apply list_eq_dec. decide equality; [apply attr_dec | apply string_dec].
Defined.
Definition gnode_dec : forall a b : gnode, {a = b} + {a <> b}.
Proof. decide equality; try apply bool_dec; try apply bind_dec; apply string_dec. Defined.
Definition graph_dec : forall a b : graph, {a = b} + {a <> b}.
Proof. decide equality; [apply bind_dec | apply (list_eq_dec gnode_dec)]. Defined.
Definition dict_dec : forall a b : list (fname * val), {a = b} + {a <> b}.
Proof. apply list_eq_dec. decide equality; [apply val_dec | apply string_dec]. Defined.
Definition ck_dec : forall a b : wfdef * list (fname * val), {a = b} + {a <> b}.
Proof. decide equality; [apply dict_dec | apply wfdef_dec]. Defined.
Definition inputs_dec : forall a b : list (fname * arg val), {a = b} + {a <> b}.
Proof. apply list_eq_dec. decide equality; [apply arg_dec | apply string_dec]. Defined.

Definition wd_default (d : wfdef) (f : fname) : attr val :=
  match lookup (wd_fields d) f with Some a => a | None => AVal VNothing end.

(* field names in definition order (a class cannot have two fields of one name) *)
Definition wd_names (d : wfdef) : list fname := nodup string_dec (map fst (wd_fields d)).

Definition cwf := wf val graph.
Definition cop := op val wfdef.
Definition cobs := obs val graph (option val).

(* the model instantiated on the concrete family *)
Definition c_history (ops : list cop) : list cobs :=
  history val wfdef graph (option val) wfdef (list (fname * val)) (wfdef * list (fname * val))
          (eqb_of_dec wfdef_dec) (eqb_of_dec dict_dec) (eqb_of_dec ck_dec)
          (fun d => d) (fun l => l) (fun d l => (d, l))
          wd_name wd_names wd_default ctor_of subst_graph eval_graph ops.

Definition c_id_history (ops : list cop) : list idobs :=
  id_history val wfdef graph (option val) wfdef (list (fname * val)) (wfdef * list (fname * val))
             (eqb_of_dec wfdef_dec) (eqb_of_dec dict_dec) (eqb_of_dec ck_dec)
             (fun d => d) (fun l => l) (fun d l => (d, l))
             wd_name wd_names wd_default ctor_of subst_graph eval_graph ops.
