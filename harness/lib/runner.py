"""Generic check runner: proof status + correspondence driver + findings + evidence + exit code.

Usage (through /verif/check):  check Cnn [--tier quick|thorough] [--replay file]
"""
import argparse
import dataclasses
import importlib
import json
import os
import random
import re
import subprocess
import sys
import time
import traceback

from . import coqio

VERIF = coqio.VERIF
GREP_GATE = r"Admitted|\badmit\b|^\s*Axiom\b|^\s*Parameter\b|^\s*Conjecture\b|Unset Guard|bypass_check|type-in-type|impredicative-set|Admit Obligations|Unset Universe Checking|Unset Positivity"
ALLOWED_AXIOMS = ()  # no axiom is expected anywhere in the property chain


@dataclasses.dataclass
class Failure:
    case: object                 # JSON-able description of the input / history / schedule
    observed: object = None      # what the implementation did
    expected: object = None      # what the spec (or model, for a tie failure) says
    note: str = ""
    finding: str = None          # id in known_findings.json if the driver's classifier recognises it
    kind: str = "spec"           # "spec" = implementation violates the property's spec; "tie" = model != implementation


@dataclasses.dataclass
class Outcome:
    evaluations: int = 0
    distinct_nontrivial: int = 0
    rule: str = ""
    samples: list = dataclasses.field(default_factory=list)
    distribution: dict = dataclasses.field(default_factory=dict)
    traces_validated: int = 0
    failures: list = dataclasses.field(default_factory=list)
    extra: dict = dataclasses.field(default_factory=dict)
    exhaustive: bool = False

    def merge(self, other):
        self.evaluations += other.evaluations
        self.distinct_nontrivial += other.distinct_nontrivial
        self.traces_validated += other.traces_validated
        self.failures += other.failures
        self.samples += other.samples
        for k, v in other.distribution.items():
            if isinstance(v, int) and isinstance(self.distribution.get(k, 0), int):
                self.distribution[k] = self.distribution.get(k, 0) + v
            else:
                self.distribution[k] = v
        self.extra.update(other.extra)
        if other.rule and other.rule not in self.rule:
            self.rule = (self.rule + " || " + other.rule) if self.rule else other.rule


class Ctx:
    def __init__(self, prop, tier, seed, widen=1, scratch=None):
        self.prop = prop
        self.tier = tier
        self.seed = seed
        self.widen = widen
        self.rng = random.Random("%s-%d-%d" % (prop, seed, widen))
        self.scratch = scratch if scratch is not None else coqio.Scratch(prop)
        self.corpus_dir = os.path.join(VERIF, "corpus", prop)
        self.t0 = time.time()

    def budget(self, quick, thorough):
        return (thorough if self.tier == "thorough" else quick) * self.widen

    def corpus(self):
        out = []
        if os.path.isdir(self.corpus_dir):
            for fn in sorted(os.listdir(self.corpus_dir)):
                if fn.endswith(".json"):
                    with open(os.path.join(self.corpus_dir, fn)) as f:
                        out.append(json.load(f))
        return out


def theorems_in(props_file):
    with open(os.path.join(coqio.COQ, props_file)) as f:
        txt = f.read()
    txt = re.sub(r"\(\*.*?\*\)", "", txt, flags=re.S)
    return re.findall(r"^\s*Theorem\s+([A-Za-z0-9_']+)", txt, flags=re.M)


def grep_gate():
    hits = []
    for root, _, files in os.walk(coqio.COQ):
        if os.sep + "Generated" in root:
            continue
        for fn in files:
            if not fn.endswith(".v"):
                continue
            p = os.path.join(root, fn)
            with open(p) as f:
                txt = f.read()
            # strip comments before looking for forbidden vernacular
            txt2 = re.sub(r"\(\*.*?\*\)", lambda m: "\n" * m.group(0).count("\n"), txt, flags=re.S)
            for i, line in enumerate(txt2.splitlines(), 1):
                if re.search(GREP_GATE, line):
                    hits.append("%s:%d: %s" % (os.path.relpath(p, VERIF), i, line.strip()))
            # Variable / Hypothesis outside a section
            depth = 0
            for i, line in enumerate(txt2.splitlines(), 1):
                if re.match(r"\s*Section\s+\w+", line):
                    depth += 1
                elif re.match(r"\s*End\s+\w+\s*\.", line) and depth > 0:
                    depth -= 1
                elif re.match(r"\s*(Variable|Variables|Hypothesis|Hypotheses|Context)\b", line) and depth == 0:
                    hits.append("%s:%d: %s (outside a section)" % (os.path.relpath(p, VERIF), i, line.strip()))
    return hits


def proof_status(driver, ctx):
    """Build Props/Cnn.vo and collect Print Assumptions. Returns dict."""
    props_file = driver.PROPS_FILE
    st = {"props_file": props_file, "theorems": [], "obligations": 0, "discharged": 0, "broken": None,
          "assumptions": {}}
    try:
        thms = theorems_in(props_file)
    except OSError as e:
        st["broken"] = "cannot read %s: %s" % (props_file, e)
        return st
    st["theorems"] = thms
    st["obligations"] = len(thms)
    gen = getattr(driver, "generate_coq", None)
    if gen is not None:
        # data translated from the live source into coq/Generated/*.v (re-checked on every run)
        try:
            gen(ctx)
        except Exception as e:
            st["broken"] = "translator failed (fail-closed): %s" % e
            return st
    ok, out = coqio.make([props_file + "o"] + list(getattr(driver, "EXTRA_VO", [])))
    if not ok:
        st["broken"] = "make %so failed:\n%s" % (props_file, out[-3000:])
        return st
    hits = grep_gate()
    if hits:
        st["broken"] = "forbidden vernacular in the development:\n" + "\n".join(hits[:20])
        return st
    mod = props_file[:-2].replace("/", ".")
    res, raw = coqio.print_assumptions(ctx.scratch, mod, thms)
    if res is None:
        st["broken"] = "Print Assumptions failed:\n" + raw[-2000:]
        return st
    st["assumptions"] = res
    bad = []
    for t in thms:
        a = res.get(t, "")
        if a.startswith("Closed under the global context"):
            st["discharged"] += 1
        else:
            bad.append("%s depends on: %s" % (t, a))
    if bad:
        st["broken"] = "unexpected axioms:\n" + "\n".join(bad)
    if ctx.tier == "thorough" and not st["broken"] and os.environ.get("VERIF_SKIP_COQCHK") != "1":
        t0 = time.time()
        p = subprocess.run(["timeout", "1500", "coqchk", "-silent", "-o", "-Q", coqio.COQ, "Pydra", "Pydra." + mod],
                           stdout=subprocess.PIPE, stderr=subprocess.STDOUT, text=True)
        st["coqchk"] = {"rc": p.returncode, "tail": p.stdout[-1500:], "wall_s": round(time.time() - t0, 1)}
        if p.returncode != 0:
            st["broken"] = "coqchk failed:\n" + p.stdout[-2000:]
    return st


def anchor_files(prop):
    """Source files the property is anchored in (properties.jsonl) plus any the driver names (ANCHOR_FILES)."""
    files = []
    with open(os.path.join(VERIF, "properties.jsonl")) as f:
        for line in f:
            d = json.loads(line)
            if d["id"] == prop:
                files = [x for x in d.get("anchors", {}).get("files", []) if x.endswith(".py")]
    return files


def fingerprint(path):
    import hashlib
    try:
        with open(path, "rb") as f:
            return hashlib.sha256(f.read()).hexdigest()[:16]
    except OSError:
        return "missing"


def anchors_changed(driver, prop):
    """Anchored source files whose content differs from the fingerprint recorded (in the committed
    anchors.json) when model and theorems were last validated against them. A difference is not a
    violation: it only makes this run search harder (budget x4) from the start."""
    repo = os.environ.get("VERIF_REPO", "/repo")
    try:
        with open(os.path.join(VERIF, "anchors.json")) as f:
            recorded = json.load(f)
    except OSError:
        return []
    out = []
    for rel in sorted(set(anchor_files(prop)) | set(getattr(driver, "ANCHOR_FILES", []))):
        if recorded.get(rel) is not None and fingerprint(os.path.join(repo, rel)) != recorded[rel]:
            out.append(rel)
    return out


def load_findings():
    with open(os.path.join(VERIF, "known_findings.json")) as f:
        return json.load(f)


def write_replay(prop, seed, n, payload):
    d = os.path.join(VERIF, "replays")
    os.makedirs(d, exist_ok=True)
    p = os.path.join(d, "%s-seed%d-%d.json" % (prop, seed, n))
    with open(p, "w") as f:
        json.dump(payload, f, indent=1, default=repr)
    return p


def main(argv=None):
    ap = argparse.ArgumentParser()
    ap.add_argument("prop")
    ap.add_argument("--tier", default=os.environ.get("VERIF_TIER", "quick"), choices=["quick", "thorough"])
    ap.add_argument("--replay")
    args = ap.parse_args(argv)
    prop = args.prop
    seed = int(os.environ.get("VERIF_SEED", "0"))
    t0 = time.time()
    driver = importlib.import_module("harness.%s" % prop.lower())
    changed = [] if args.replay else anchors_changed(driver, prop)
    ctx = Ctx(prop, args.tier, seed, widen=4 if changed else 1)
    ctx.anchors_changed = changed
    try:
        if args.replay:
            with open(args.replay) as f:
                payload = json.load(f)
            coqio.make([driver.PROPS_FILE[:-2].replace("Props/", "Props/") + ".vo"])
            rep = getattr(driver, "replay", None)
            if rep is None:
                print(json.dumps(payload, indent=1))
                return 0
            return rep(ctx, payload) or 0
        rc = run_check(driver, ctx, t0)
        return rc
    finally:
        ctx.scratch.close()


def run_check(driver, ctx, t0):
    prop, tier, seed = ctx.prop, ctx.tier, ctx.seed
    st = proof_status(driver, ctx)
    outcome = Outcome()
    driver_error = None
    try:
        outcome = driver.run(ctx)
    except Exception:
        driver_error = traceback.format_exc()

    known = [f for f in load_findings().get("findings", []) if f["property"] == prop and f.get("status") == "known"]
    known_ids = {f["id"]: f for f in known}

    def split(failures):
        new, seen = [], {}
        for fl in failures:
            if fl.kind == "spec" and fl.finding in known_ids:
                seen.setdefault(fl.finding, []).append(fl)
            else:
                new.append(fl)
        return new, seen

    new, seen = split(outcome.failures)
    tie_broken = any(f.kind == "tie" for f in new)
    widened = False
    if (st["broken"] or tie_broken or driver_error) and not any(f.kind == "spec" for f in new):
        # The theorems no longer describe the code (or are no longer proved): search harder for a
        # concrete failing input before reporting.
        widened = True
        try:
            wctx = Ctx(prop, tier, seed, widen=int(os.environ.get("VERIF_MAX_WIDEN", "10")), scratch=ctx.scratch)
            o2 = driver.run(wctx)
            outcome.merge(o2)
            new, seen2 = split(outcome.failures)
            for k, v in seen2.items():
                seen[k] = v
        except Exception:
            driver_error = (driver_error or "") + "\n(widened search) " + traceback.format_exc()

    lines = []
    violations = 0
    for fid, fls in sorted(seen.items()):
        lines.append("KNOWN-FINDING: property=%s %s %s (%d case(s) this run)" % (prop, fid, known_ids[fid]["what_fails"], len(fls)))
    spec_new = [f for f in new if f.kind == "spec"]
    tie_new = [f for f in new if f.kind == "tie"]
    n = 0
    if spec_new:
        # one VIOLATION line per distinct note (class of failure), smallest case first
        groups = {}
        for f in spec_new:
            groups.setdefault(f.note or "spec", []).append(f)
        for note, fls in groups.items():
            fls.sort(key=lambda f: len(json.dumps(f.case, default=repr)))
            f = fls[0]
            path = write_replay(prop, seed, n, {"property": prop, "kind": "failing-input", "note": note,
                                                "case": f.case, "observed": f.observed, "expected": f.expected,
                                                "count": len(fls), "proof_status": st["broken"]})
            lines.append("VIOLATION property=%s replay=%s" % (prop, path))
            n += 1
            violations += 1
    elif st["broken"] or tie_new or driver_error:
        what = []
        if st["broken"]:
            what.append({"theorem_file": st["props_file"], "theorems": st["theorems"], "error": st["broken"]})
        for f in tie_new[:5]:
            what.append({"correspondence": getattr(driver, "TIE_NAME", prop + " model vs implementation"),
                         "case": f.case, "implementation": f.observed, "model": f.expected, "note": f.note})
        if driver_error:
            what.append({"driver_error": driver_error[-3000:]})
        path = write_replay(prop, seed, n, {"property": prop, "kind": "no-failing-input-found",
                                            "no_longer_checks": what, "widened_search": widened,
                                            "evaluations": outcome.evaluations})
        lines.append("VIOLATION property=%s replay=%s no-failing-input-found" % (prop, path))
        violations += 1

    wall = time.time() - t0
    cov = {
        "obligations": st["obligations"],
        "discharged": st["discharged"],
        "checker_cmd": "cd /verif/coq && make %so   # coqc 8.16.1, full .vo build; Print Assumptions per theorem%s" % (
            st["props_file"], "; coqchk -o" if tier == "thorough" else ""),
        "trusted_base": list(getattr(driver, "TRUSTED", [])) + [
            "Coq 8.16.1 kernel + vm_compute (no native_compute, no extraction)",
            "hand-written model tied to /repo by the correspondence run below (differential testing, not proof)",
        ],
        "theorems": st["theorems"],
        "print_assumptions": st["assumptions"],
        "proof_broken": st["broken"],
        "evaluations": outcome.evaluations,
        "distinct_nontrivial": outcome.distinct_nontrivial,
        "rule": outcome.rule or getattr(driver, "RULE", ""),
        "samples": outcome.samples[:8] if outcome.samples else [{"theorems": st["theorems"]}],
        "traces_validated_against_impl": outcome.traces_validated,
        "input_distribution": outcome.distribution,
        "exhaustive": outcome.exhaustive,
        "known_findings_seen": {k: len(v) for k, v in seen.items()},
        "known_finding_examples": {k: {"case": v[0].case, "observed": v[0].observed, "expected": v[0].expected} for k, v in seen.items()},
        "widened_search": widened,
        "anchored_sources_changed": getattr(ctx, "anchors_changed", []),
    }
    if "coqchk" in st:
        cov["coqchk"] = st["coqchk"]
    cov.update(outcome.extra)
    ev = {
        "property_id": prop, "tier": tier, "seed": seed, "level": "proof",
        "coverage": cov,
        "assumptions": list(getattr(driver, "ASSUMPTIONS", [])),
        "wall_s": round(wall, 2),
        "violations": violations,
    }
    # a run against another tree (VERIF_REPO=<scratch worktree with a seeded change>) must not overwrite
    # the evidence of /repo itself
    evdir = "evidence" if os.environ.get("VERIF_REPO", "/repo").rstrip("/") == "/repo" else os.path.join("replays", "evidence-other-tree")
    os.makedirs(os.path.join(VERIF, evdir), exist_ok=True)
    with open(os.path.join(VERIF, evdir, prop + ".json"), "w") as f:
        json.dump(ev, f, indent=1, default=repr)
    for ln in lines:
        print(ln)
    print("%s property=%s tier=%s theorems=%d/%d evaluations=%d nontrivial=%d known=%s wall=%.1fs" % (
        "FAIL" if violations else "OK", prop, tier, st["discharged"], st["obligations"], outcome.evaluations,
        outcome.distinct_nontrivial, sorted(seen), wall))
    sys.stdout.flush()
    return 1 if violations else 0


if __name__ == "__main__":
    sys.exit(main())
