(* C36 — Provenance records are complete and consistent. *)
From Pydra Require Import Base.Prelude Model.Audit Spec.Audit Proofs.Audit.

(* For every forest of job executions nested to any depth (workflow jobs running their node jobs inside
   their own run, succeeding or failing anywhere), with or without resource monitoring, with or without
   a message_dir, under a synchronous or an asynchronous worker: the messages satisfy the specification
   — provided PROV is on and every Job owns its Audit object (what Job.__init__ does since the F36 fix;
   the driver reads [c_sharing] off the live code on every run). *)
Definition C36_full_statement : Prop :=
  forall c : cfg, c_sharing c = false -> c_prov c = true ->
  forall (ts : list task) (cwd0 : loc),
    audit_ok (c_md c) (fst (session c cwd0 ts)) (snd (session c cwd0 ts)).

Theorem C36_full : C36_full_statement.
Proof. exact audit_full. Qed.
Print Assumptions C36_full.

Example C36_full_applies :
  let c := mkCfg true true None false false in
  c_sharing c = false /\ c_prov c = true /\
  List.length (fst (session c 9 [wf2; Leaf 4 "main" ["f"%string] true true true false; Leaf 5 "main" [] false false false true])) = 34.
Proof. vm_compute. auto. Qed.

(* one job tree started in an arbitrary interpreter state (any heap of Audit objects, any uuid history, any cwd) *)
Theorem C36_any_state :
  forall c : cfg, c_sharing c = false -> c_prov c = true ->
  forall (t : task) (s : sys), let '(_, ms, rs, _) := run_job c t s in audit_ok (c_md c) ms rs.
Proof. exact audit_job. Qed.
Print Assumptions C36_any_state.

(* the check the driver evaluates on the observed message files decides the specification *)
Theorem C36_check_decides_spec :
  forall md log rs, audit_okb md log rs = true <-> audit_ok md log rs.
Proof. exact audit_okb_iff. Qed.
Print Assumptions C36_check_decides_spec.

(* what the repaired defect (F36) was: with the Submitter's Audit object shared by all its jobs, a workflow
   with two nodes under the debug worker violates the specification — the workflow's activity is never
   ended and the last node's is ended twice.  Kept as the reason why [c_sharing = false] is a hypothesis
   that the driver must re-establish against the code. *)
Theorem C36_sharing_breaks_nested :
  forall md, In md [None; Some 0] ->
  let c := mkCfg true false md true false in
  ~ audit_ok md (fst (session c 9 [wf2])) (snd (session c 9 [wf2])).
Proof. exact shared_audit_breaks_nested. Qed.
Print Assumptions C36_sharing_breaks_nested.

Theorem C36_silent_without_prov :
  forall c, c_prov c = false -> forall t s, let '(_, ms, _, _) := run_job c t s in ms = [].
Proof. exact no_prov_silent. Qed.
Print Assumptions C36_silent_without_prov.
