"""C25 — command-line templates define the task they spell out (pydra/compose/shell/builder.py)."""
import itertools
import json
import os
from pathlib import Path

from .lib import coqio
from .lib.runner import Outcome, Failure
from .c26 import run_cases_sep

PROP = "C25"
PROPS_FILE = "Props/C25.v"
MANIFEST = dict(
    text="Coq theorems (closed under the global context) over the token AST of command-line templates "
         "(Arg / Out / Opt flag / Flag, with the modifiers ? + * =default $template): C25_accepts (every well-formed "
         "template is accepted), C25_inference (for every template, the k-th token's field has exactly the name, "
         "input/output kind, type, optionality, multiplicity, default, path template, flag and position k+1 the token "
         "spells), C25_order (for every template, all benign values and every iteration order of the task's fields, the "
         "argument vector is the executable followed by what the tokens spell in template order; rests on "
         "C25_position_sort, a self-contained lemma about position_sort/bisect.insort). The model follows "
         "parse_command_line_template token by token, remaining_positions, _command_args/_command_pos_args/_format_arg/"
         "position_sort; it is tied to the code on every run: the harness renders generated ASTs to template text, "
         "shell.define parses the text, and the fields built and the argv produced are compared with model and spec "
         "inside Coq (vm_compute) — exhaustively for every token sequence up to a stated length over a small "
         "vocabulary, sampled up to six tokens over a larger one.",
    note="Trusted: Coq kernel + vm_compute; hand-written model on the token AST (the regex tokenisation of the template "
         "text is exercised by correspondence only); values are restricted to words without whitespace/quotes (C23/C24 "
         "cover the rest) and to truthy values (C22's omission rules); correspondence is differential testing.",
    technique="Coq proof (per-token inference by case analysis; insertion-sort/permutation uniqueness lemma for "
              "position_sort; word-splitting lemmas) + model/impl correspondence via generated cases.v",
    design="§8 Group F / C25",
)
TIE_NAME = "Model.CmdTemplate.fields_of_ast/command_args vs shell.define(template) fields / ShellTask._command_args"
TRUSTED = [
    "Model/CmdTemplate.v: hand-written model of parse_command_line_template per token (suffix handling, type "
    "defaults, path-template default, outarg/default validation), positions from remaining_positions, and of "
    "_command_args/_command_pos_args/_format_arg/position_sort for brace-free argstr",
    "the rendering of the AST to template text (harness) and pydra's regex tokenisation of that text: covered by "
    "correspondence, not by the theorems",
    "fileformats' extension table for the type names used (fmt_ext): compared with the live classes on every run",
]
ASSUMPTIONS = ["field names are distinct; one modifier per field (what the token regex admits)",
               "argv theorem: values are non-empty words without whitespace, quotes or backslashes, flags match --?[A-Za-z0-9_-]+"]

# ------------------------------------------------------------------ AST (JSON-able) and its rendering
PRIMS = {"int": "PInt", "float": "PFloat", "str": "PStr", "bool": "PBool"}
FMTS = {  # spelling in a template -> (Coq constructor, mime-like used to fetch the live class)
    "file": ("FFile", "generic/file"), "directory": ("FDirectory", "generic/directory"),
    "fs-object": ("FFsObject", "generic/fs-object"), "text/plain": ("FTextPlain", "text/plain"),
    "image/png": ("FPng", "image/png"), "application/gzip": ("FGzip", "application/gzip"),
    "text/csv": ("FCsv", "text/csv"), "application/json": ("FJson", "application/json"),
    "generic/file": ("FFile", "generic/file"), "generic/directory": ("FDirectory", "generic/directory"),
}
SAMPLE_EXT = {"FFile": ".dat", "FDirectory": "", "FFsObject": ".bin", "FTextPlain": ".txt", "FPng": ".png",
              "FGzip": ".gz", "FCsv": ".csv", "FJson": ".json"}


def render_lit(d):
    k, v = d[0], d[1]
    if k == "int":
        return str(v)
    if k == "float":
        return v
    if k == "str":
        q = d[2] if len(d) > 2 else "'"
        return q + v + q          # the default is the text between the quotes, verbatim
    if k == "bool":
        return "True" if v else "False"
    if k == "tuple":
        return "(" + ",".join(render_lit(x) for x in v) + ("," if len(v) == 1 else "") + ")"
    raise ValueError(d)


def render_type(ty):
    if ty is None:
        return ""
    k, v = ty
    if k == "single":
        return ":" + v
    if k == "tuple":
        return ":" + ",".join(v)
    if k == "var":
        return ":" + v + ",..."
    raise ValueError(ty)


def render_suffix(s):
    if s is None:
        return ""
    k, v = s
    return {"opt": "?", "plus": "+", "star": "*"}.get(k) or ("=" + render_lit(v) if k == "default" else "$" + v)


def render_token(t):
    k = t["k"]
    if k == "arg":
        return "<%s%s%s>" % (t["name"], render_type(t["ty"]), render_suffix(t["suf"]))
    if k == "out":
        return "<out|%s%s%s>" % (t["name"], render_type(t["ty"]), render_suffix(t["suf"]))
    if k == "opt":
        return t["flag"] + " " + render_token(t["inner"])
    if k == "flag":
        return "%s<%s%s>" % (t["flag"], t["name"], "" if t["default"] is None else "=" + ("True" if t["default"] else "False"))
    raise ValueError(t)


def render(case):
    return " ".join(case["exe"] + [render_token(t) for t in case["tokens"]])


# ------------------------------------------------------------------ Coq encoding of the AST
def cs(s):
    return coqio.string(s)


def enc_tname(n):
    return "(TP %s)" % PRIMS[n] if n in PRIMS else "(TF %s)" % FMTS[n][0]


def enc_ty(ty):
    if ty is None:
        return "None"
    k, v = ty
    if k == "single":
        return "(Some (TySingle %s))" % enc_tname(v)
    if k == "tuple":
        return "(Some (TyTuple %s))" % coqio.lst([enc_tname(x) for x in v])
    return "(Some (TyVar %s))" % enc_tname(v)


def enc_lit(d):
    k, v = d[0], d[1]
    if k == "int":
        return "(LInt %s)" % coqio.z(v)
    if k == "float":
        return "(LFloat %s)" % cs(v)
    if k == "str":
        return "(LStr %s)" % cs(v)
    if k == "bool":
        return "(LBool %s)" % coqio.boolean(v)
    return "(LTuple %s)" % coqio.lst([enc_lit(x) for x in v])


def enc_suffix(s):
    if s is None:
        return "SNone"
    k, v = s
    if k in ("opt", "plus", "star"):
        return {"opt": "SOptional", "plus": "SPlus", "star": "SStar"}[k]
    return "(SDefault %s)" % enc_lit(v) if k == "default" else "(STemplate %s)" % cs(v)


def enc_token(t):
    k = t["k"]
    if k == "arg":
        return "(Arg %s %s %s)" % (cs(t["name"]), enc_ty(t["ty"]), enc_suffix(t["suf"]))
    if k == "out":
        return "(Out %s %s %s)" % (cs(t["name"]), enc_ty(t["ty"]), enc_suffix(t["suf"]))
    if k == "opt":
        return "(Opt %s %s)" % (cs(t["flag"]), enc_token(t["inner"]))
    return "(Flag %s %s %s)" % (cs(t["flag"]), cs(t["name"]), coqio.option(None if t["default"] is None else coqio.boolean(t["default"])))


def core(t):
    return t["inner"] if t["k"] == "opt" else t


# ------------------------------------------------------------------ observation: the fields pydra builds
def canon_type(tp):
    """python type -> (tbase term, multi, optional); raises on anything outside the vocabulary (fail closed)."""
    import types
    import typing as ty
    from pydra.utils.typing import MultiInputObj
    from fileformats.core import from_mime
    optional = multi = False
    if ty.get_origin(tp) in (ty.Union, types.UnionType):
        args = [a for a in ty.get_args(tp) if a is not type(None)]
        if len(args) != 1 or len(args) == len(ty.get_args(tp)):
            raise ValueError("union type outside the vocabulary: %r" % (tp,))
        optional, tp = True, args[0]
    if ty.get_origin(tp) is MultiInputObj:
        multi, tp = True, ty.get_args(tp)[0]

    def tname(x):
        import builtins
        for n, c in PRIMS.items():
            if x is getattr(builtins, n):
                return "(TP %s)" % c
        for n, (c, mime) in FMTS.items():
            if x is from_mime(mime):
                return "(TF %s)" % c
        raise ValueError("type outside the vocabulary: %r" % (x,))

    if ty.get_origin(tp) is tuple:
        args = ty.get_args(tp)
        if len(args) == 2 and args[1] is Ellipsis:
            base = "(BVarTuple %s)" % tname(args[0])
        else:
            base = "(BTuple %s)" % coqio.lst([tname(a) for a in args])
    else:
        n = tname(tp)
        base = "(BPrim %s)" % n[4:-1] if n.startswith("(TP") else "(BFmt %s)" % n[4:-1]
    return base, multi, optional


def canon_lit(v):
    if isinstance(v, bool):
        return ("bool", v)
    if isinstance(v, int):
        return ("int", v)
    if isinstance(v, float):
        return ("float", repr(v))
    if isinstance(v, str):
        return ("str", v)
    if isinstance(v, tuple):
        return ("tuple", [canon_lit(x) for x in v])
    raise ValueError("default outside the vocabulary: %r" % (v,))


def canon_default(d):
    import attrs
    from pydra.compose.base.field import NO_DEFAULT  # noqa
    if d is NO_DEFAULT:
        return "DNoDefault"
    if d is None:
        return "DNone"
    if type(d).__name__ == "Factory":
        if d.factory is list:
            return "DEmptyList"
        raise ValueError("factory default outside the vocabulary")
    return "(DLit %s)" % enc_lit(canon_lit(d))


def enc_field(f):
    base, multi, optional = canon_type(f.type)
    from pydra.compose.shell import field as shfield
    return "(Build_field %s %s (Build_ftype %s %s %s) %s %s %s %s)" % (
        cs(f.name), coqio.boolean(isinstance(f, shfield.outarg)), base, coqio.boolean(multi), coqio.boolean(optional),
        canon_default(f.default), coqio.z(f.position), cs(f.argstr if f.argstr is not None else "<None>"),
        coqio.option(None if getattr(f, "path_template", None) is None else cs(f.path_template)))


def classify_define_error(e):
    msg = str(e)
    if "Path templates can only be used with output fields" in msg:
        return "PTemplateOnInput"
    if "can only be provided when there is no default" in msg:
        return "PTemplateWithDefault"
    return "other:%s:%s" % (type(e).__name__, msg[:100])


_DEF_CACHE = {}


def define(text):
    from pydra.compose import shell
    if text not in _DEF_CACHE:
        if len(_DEF_CACHE) > 3000:
            _DEF_CACHE.clear()
        try:
            _DEF_CACHE[text] = (shell.define(text), None)
        except Exception as e:  # noqa
            _DEF_CACHE[text] = (None, e)
    return _DEF_CACHE[text]


def observe_fields(case):
    """-> ("ok", klass, [field objects in position order]) | ("err", kind)"""
    from pydra.utils.general import get_fields
    klass, err = define(render(case))
    if err is not None:
        return ("err", classify_define_error(err))
    flds = [f for f in get_fields(klass) if f.name not in ("executable", "append_args")]
    flds.sort(key=lambda f: (f.position is None, f.position if f.position is not None else 0))
    return ("ok", klass, flds)


# ------------------------------------------------------------------ values and the observed argv
WORDS = ["abc", "x_y", "a.b", "v1", "Q", "k-9"]
INTS = [1, 7, 42, -3]
FLOATS = [1.5, 0.25, 2.0, -7.75]
CACHE_DIR = "/out"


def gen_prim(rng, p):
    if p == "int":
        return rng.choice(INTS)
    if p == "float":
        return rng.choice(FLOATS)
    if p == "str":
        return rng.choice(WORDS)
    raise ValueError(p)


def gen_scalar(rng, ty, flagged, tag):
    """-> (python value builder description, sval)   description is JSON-able"""
    if ty is None:
        return (("str", rng.choice(WORDS)) if flagged else ("file", "fs-object", "/in/%s.bin" % tag))
    k, v = ty
    if k == "single":
        if v in PRIMS:
            return (v, gen_prim(rng, v))
        return ("file", v, "/in/%s%s" % (tag, SAMPLE_EXT[FMTS[v][0]]))
    if k == "tuple":
        return ("tuple", [[p, gen_prim(rng, p)] for p in v])
    n = rng.choice([1, 2, 3])
    return ("tuple", [[v, gen_prim(rng, v)] for _ in range(n)])


def gen_value(rng, t, idx):
    """JSON-able value for the token's field (all fields set; some optional ones left None, some '*' lists empty)."""
    c = core(t)
    if c["k"] == "flag":
        return ["flag", rng.random() < 0.7]
    flagged = t["k"] == "opt"
    suf = c["suf"][0] if c["suf"] else None
    if c["k"] == "out":
        r = rng.random()
        if suf == "opt" and r < 0.2:
            return ["unset"]
        if r < 0.85:
            return ["out_true"]
        return ["scalar", ["path", "/x/given%d.dat" % idx]]
    if suf == "opt" and rng.random() < 0.2:
        return ["unset"]
    if suf in ("plus", "star"):
        n = rng.choice([0, 1, 2, 3]) if suf == "star" else rng.choice([1, 2, 3])
        return ["multi", [list(gen_scalar(rng, c["ty"], flagged, "f%d_%d" % (idx, j))) for j in range(n)]]
    return ["scalar", list(gen_scalar(rng, c["ty"], flagged, "f%d" % idx))]


def py_scalar(d):
    from fileformats.core import from_mime
    k = d[0]
    if k in PRIMS:
        return d[1]
    if k == "file":
        return from_mime(FMTS[d[1]][1]).mock(d[2])
    if k == "path":
        return Path(d[1])
    if k == "tuple":
        return tuple(x[1] for x in d[1])
    raise ValueError(d)


def sval(d):
    k = d[0]
    if k in PRIMS:
        return "(SText %s)" % cs(str(d[1]))
    if k == "file":
        return "(SText %s)" % cs(d[2])
    if k == "path":
        return "(SText %s)" % cs(d[1])
    return "(STuple %s)" % coqio.lst([cs(str(x[1])) for x in d[1]])


def enc_pval(v):
    k = v[0]
    if k == "flag":
        return "(PGiven (VFlag %s))" % coqio.boolean(v[1])
    if k == "unset":
        return "(PGiven VUnset)"
    if k == "out_true":
        return "POutTrue"
    if k == "multi":
        return "(PGiven (VMulti %s))" % coqio.lst([sval(x) for x in v[1]])
    return "(PGiven (VScalar %s))" % sval(v[1])


def observe_argv(case, klass):
    from pydra.compose.shell.templating import template_update
    from pydra.utils.general import attrs_values
    kwargs = {}
    for t, v in zip(case["tokens"], case["values"]):
        name = core(t)["name"]
        k = v[0]
        if k == "flag":
            kwargs[name] = v[1]
        elif k == "unset":
            kwargs[name] = None
        elif k == "out_true":
            kwargs[name] = True
        elif k == "multi":
            kwargs[name] = [py_scalar(x) for x in v[1]]
        else:
            kwargs[name] = py_scalar(v[1])
    task = klass(**kwargs)
    values = attrs_values(task)
    order = [n for n in values if n not in ("executable", "append_args")]
    values.update(template_update(task, cache_dir=Path(CACHE_DIR)))
    return order, [str(a) for a in task._command_args(values=values)]


# ------------------------------------------------------------------ generators
def mk_arg(name, ty=None, suf=None):
    return {"k": "arg", "name": name, "ty": ty, "suf": suf}


def mk_out(name, ty=None, suf=None):
    return {"k": "out", "name": name, "ty": ty, "suf": suf}


def S1(n):
    return ["single", n]


def vocab_small(i):
    """the exhaustive vocabulary: 8 token shapes, names made distinct by the place i"""
    return [
        mk_arg("a%d" % i),
        mk_arg("n%d" % i, S1("int")),
        mk_arg("s%d" % i, S1("str"), ["opt", None]),
        mk_arg("m%d" % i, S1("float"), ["plus", None]),
        {"k": "opt", "flag": "--opt", "inner": mk_arg("x%d" % i)},
        {"k": "opt", "flag": "-t", "inner": mk_arg("t%d" % i, ["tuple", ["int", "str"]], ["star", None])},
        {"k": "flag", "flag": "-v", "name": "v%d" % i, "default": None},
        mk_out("o%d" % i, S1("image/png")),
    ]


FLAGS = ["--opt", "-x", "--long-name", "-R", "--n_1", "-9"]
TEMPLATES = ["foo.txt", "res.nii.gz", "out_dir", "sub/inner.dat", "A-b_c.1"]


def gen_type(rng, for_out=False):
    r = rng.random()
    if for_out:
        return None if r < 0.25 else S1(rng.choice(list(FMTS)))
    if r < 0.15:
        return None
    if r < 0.55:
        return S1(rng.choice(["int", "float", "str"]))
    if r < 0.75:
        return S1(rng.choice(list(FMTS)))
    if r < 0.9:
        return ["tuple", [rng.choice(["int", "float", "str"]) for _ in range(rng.choice([2, 2, 3]))]]
    return ["var", rng.choice(["int", "float", "str"])]


# quoted scalar defaults: characters that eval(), str.format, the token regex or the suffix tests could treat specially
STR_DEFAULTS = ["foo", "a.b", "", ",", "\\t", "\\n", "\\\\", "\\x41", "^\\s*#", "C:\\new", "abc\\", "\\", "\\'", "it\"s", "it's",
                "k=v", "a==b=", "a:b", "$x", "x?", "x+", "x*", "out|x", "modify|y", "{a}", "#c", "%s", "a,b", "(1,2)", "None",
                "True", "1", "-", "--flag", "a'b", "u\\u00e9", "\\N{DASH}", "\\0", "r\\d+$"]


def gen_str_default(rng):
    v = rng.choice(STR_DEFAULTS)
    if "'" in v and '"' not in v:
        q = '"'
    elif '"' in v and "'" not in v:
        q = "'"
    else:
        q = rng.choice(["'", '"'])
    return ["str", v, q]


def gen_default(rng, ty, flagged):
    def lit(p, scalar=False):
        if p == "str" and scalar:
            return gen_str_default(rng)
        return {"int": ["int", rng.choice([0, 3, -2, 99])], "float": ["float", rng.choice(["1.5", "0.25", "-2.0"])],
                "str": ["str", rng.choice(["foo", "a.b", ""])]}[p]
    if ty is None:
        return lit("str", True) if flagged else None
    k, v = ty
    if k == "single":
        return lit(v, True) if v in PRIMS else None
    if k == "tuple":
        return ["tuple", [lit(p) for p in v]]
    return ["tuple", [lit(v) for _ in range(rng.choice([1, 2]))]]


def gen_field_token(rng, i, flagged):
    if rng.random() < 0.25:
        ty = gen_type(rng, for_out=True)
        r = rng.random()
        suf = None if r < 0.5 else ["opt", None] if r < 0.7 else ["template", rng.choice(TEMPLATES)]
        return mk_out("out%d" % i, ty, suf)
    ty = gen_type(rng)
    r = rng.random()
    if r < 0.35:
        suf = None
    elif r < 0.5:
        suf = ["opt", None]
    elif r < 0.65:
        suf = ["plus", None]
    elif r < 0.8:
        suf = ["star", None]
    else:
        d = gen_default(rng, ty, flagged)
        suf = ["default", d] if d is not None else None
    return mk_arg("f%d" % i, ty, suf)


def gen_token(rng, i):
    r = rng.random()
    if r < 0.15:
        return {"k": "flag", "flag": rng.choice(FLAGS), "name": "b%d" % i, "default": rng.choice([None, None, True, False])}
    if r < 0.5:
        return {"k": "opt", "flag": rng.choice(FLAGS), "inner": gen_field_token(rng, i, True)}
    return gen_field_token(rng, i, False)


def gen_malformed(rng, i):
    """tokens the grammar does not admit, to check that model and code refuse alike"""
    r = rng.random()
    if r < 0.35:
        return mk_arg("f%d" % i, S1("int"), ["template", "x.txt"])             # $ on an input
    if r < 0.7:
        return mk_out("out%d" % i, S1("file"), ["star", None])                  # output with a list default
    return mk_out("out%d" % i, S1("file"), ["default", ["str", "p.txt"]])       # output with a default


def gen_case(rng, maxlen=6):
    n = rng.choice([1, 2, 3, 4, 5, 6][:maxlen])
    toks = [gen_token(rng, i) for i in range(n)]
    if rng.random() < 0.04:
        toks[rng.randrange(n)] = gen_malformed(rng, rng.randrange(100, 200))
    exe = ["cmd"] if rng.random() < 0.8 else ["tool", "sub"]
    return {"exe": exe, "tokens": toks}


def with_values(rng, case):
    case = dict(case)
    case["values"] = [gen_value(rng, t, i) for i, t in enumerate(case["tokens"])]
    return case


# ------------------------------------------------------------------ Coq side
IMPORTS = ["Model.CmdTemplate", "Spec.CmdTemplate"]
EXTRA = r"""
Local Open Scope string_scope.
Inductive pval := PGiven (v : fvalue) | POutTrue.
Inductive obs_fields := OFields (fs : list field) | OErr (e : perr) | OOther.
Definition case_t := (list string * list token * obs_fields * list string * list pval * option (list string))%type.
Definition cache_dir := "/out".
Definition perr_eqb (a b : perr) : bool :=
  match a, b with
  | PTemplateOnInput, PTemplateOnInput | PTemplateWithDefault, PTemplateWithDefault | PBadDefault, PBadDefault
  | PBadNesting, PBadNesting | PDuplicate, PDuplicate => true
  | _, _ => false
  end.
Definition slist_eqb := list_eqb String.eqb.
(* the value a field holds once template_update has run *)
Definition value_of (template : option string) (p : pval) : fvalue :=
  match p with
  | PGiven v => v
  | POutTrue => match template with Some t => out_value cache_dir t | None => VUnset end
  end.
Fixpoint find_field (n : string) (fvs : list (field * fvalue)) : list (field * fvalue) :=
  match fvs with [] => [] | fv :: r => if String.eqb (f_name (fst fv)) n then [fv] else find_field n r end.
(* model = implementation: the fields built ... *)
Definition tie_fields (c : case_t) : bool :=
  let '(exe, ts, ofs, order, pvs, argv) := c in
  match fields_of_ast ts, ofs with
  | POk fs, OFields gs => list_eqb field_eqb fs gs
  | PErr e, OErr e' => perr_eqb e e'
  | _, _ => false
  end.
(* ... and the argument vector, with the fields taken in the order the task iterates them *)
Definition tie_argv (c : case_t) : bool :=
  let '(exe, ts, ofs, order, pvs, argv) := c in
  match fields_of_ast ts, argv with
  | POk fs, Some av =>
      let fvs := combine fs (map (fun fp => value_of (f_template (fst fp)) (snd fp)) (combine fs pvs)) in
      slist_eqb (command_args exe (flat_map (fun n => find_field n fvs) order) []) av
  | _, _ => true
  end.
(* the property's own reading: accepted, every token spells its field, argv in template order *)
Definition spec_fields (c : case_t) : bool :=
  let '(exe, ts, ofs, order, pvs, argv) := c in
  if wf_template ts then match ofs with OFields gs => all_spell 0 ts gs | _ => false end else true.
Definition spec_argv (c : case_t) : bool :=
  let '(exe, ts, ofs, order, pvs, argv) := c in
  if wf_template ts then
    match argv with
    | Some av =>
        let vs := map (fun tp => value_of (says_template (fst tp)) (snd tp)) (combine ts pvs) in
        negb (forallb value_ok vs && forallb flag_ok ts) || slist_eqb (expected_argv exe (combine ts vs)) av
    | None => true
    end
  else true.
Definition is_wf (c : case_t) : bool := let '(exe, ts, ofs, order, pvs, argv) := c in wf_template ts.
"""


def enc_case(case, obs, order, argv):
    if obs[0] == "ok":
        ofs = "(OFields %s)" % coqio.lst([enc_field(f) for f in obs[2]])
    elif obs[1].startswith("other"):
        ofs = "OOther"
    else:
        ofs = "(OErr %s)" % obs[1]
    return coqio.pair(coqio.lst([cs(x) for x in case["exe"]]), coqio.lst([enc_token(t) for t in case["tokens"]]), ofs,
                      coqio.lst([cs(n) for n in order]), coqio.lst([enc_pval(v) for v in case.get("values", [])]),
                      coqio.option(None if argv is None else coqio.lst([cs(a) for a in argv])))


def check_ext_table(ctx):
    """fmt_ext (Coq) against the live fileformats classes; returns a list of mismatches."""
    from fileformats.core import from_mime
    ctors = sorted({c for c, _ in FMTS.values()})
    vals = coqio.eval_terms(ctx.scratch, "ext", IMPORTS,
                            ["match fmt_ext %s with Some e => e | None => \"<none>\"%%string end" % c for c in ctors])
    bad = []
    for c, v in zip(ctors, vals):
        mime = [m for cc, m in FMTS.values() if cc == c][0]
        live = from_mime(mime).ext
        model = v.strip()
        if model.endswith("%string"):
            model = model[:-len("%string")]
        model = model.strip('"')
        if (live or "<none>") != model:
            bad.append({"type": mime, "live_ext": live, "model_ext": model})
    return bad


def run(ctx):
    rng = ctx.rng
    exh_len = 3 if ctx.tier == "quick" else 4
    if ctx.widen > 1:
        exh_len = 4
    nsample = min(ctx.budget(350, 2500), 6000)     # cap for the widened search
    plan = []
    for c in ctx.corpus():
        plan.append(c["case"] if "case" in c else c)
    n_corpus = len(plan)
    V = len(vocab_small(0))
    for L in range(1, exh_len + 1):
        for idx in itertools.product(range(V), repeat=L):
            plan.append({"exe": ["cmd"], "tokens": [vocab_small(i)[j] for i, j in enumerate(idx)]})
    n_exh = len(plan) - n_corpus
    # every special string default, both quote characters where the text allows, as typed argument and as option argument
    n_str = 0
    for v in STR_DEFAULTS:
        for q in "'\"":
            if (q == "'" and "'" in v and '"' not in v) or (q == '"' and '"' in v and "'" not in v):
                continue          # would be terminated early for the reader; the other quote is the natural spelling
            d = ["default", ["str", v, q]]
            plan.append({"exe": ["cmd"], "tokens": [mk_arg("a0", S1("str"), d),
                                                    {"k": "opt", "flag": "--o", "inner": mk_arg("b1", None, d)}]})
            n_str += 1
    for _ in range(nsample):
        plan.append(gen_case(rng))
    dist = {"string_default_templates": n_str, "exhaustive_templates": n_exh, "exhaustive_max_len": exh_len, "vocabulary": V, "sampled": nsample,
            "len": {}, "token_kinds": {}, "suffix": {}, "define_errors": {}, "values_unset": 0, "argv_runs": 0,
            "argv_errors": {}}
    cases, meta = [], []
    seen = set()
    nontrivial = 0
    out = Outcome()
    bad_ext = check_ext_table(ctx)
    for b in bad_ext:
        out.failures.append(Failure(case=b, observed=b["live_ext"], expected=b["model_ext"], kind="tie",
                                    note="fileformats extension table differs from Model.CmdTemplate.fmt_ext"))
    for k, case in enumerate(plan):
        if "values" not in case:
            case = with_values(rng, case)
        text = render(case)
        obs = observe_fields(case)
        order, argv = [], None
        if obs[0] == "ok":
            try:
                order, argv = observe_argv(case, obs[1])
                dist["argv_runs"] += 1
            except Exception as e:  # noqa
                key = "%s: %s" % (type(e).__name__, str(e)[:60])
                dist["argv_errors"][key] = dist["argv_errors"].get(key, 0) + 1
                argv = ["<error>", type(e).__name__]
        else:
            dist["define_errors"][obs[1][:40]] = dist["define_errors"].get(obs[1][:40], 0) + 1
        try:
            enc = enc_case(case, obs, order, argv)
        except ValueError as e:           # a type/default the canonicaliser does not know: fail closed
            out.failures.append(Failure(case={"template": text, "ast": case}, observed=str(e), kind="tie",
                                        note="field outside the vocabulary of the canonicaliser"))
            continue
        cases.append(enc)
        meta.append({"template": text, "ast": case,
                     "fields": None if obs[0] != "ok" else [[f.name, str(f.type), repr(f.default), f.position, f.argstr,
                                                            getattr(f, "path_template", None)] +
                                                           ([{"default_codepoints": [ord(ch) for ch in f.default]}]
                                                            if isinstance(f.default, str) else []) for f in obs[2]],
                     "define_error": obs[1] if obs[0] != "ok" else None, "argv": argv})
        L = len(case["tokens"])
        dist["len"][str(L)] = dist["len"].get(str(L), 0) + 1
        for t in case["tokens"]:
            kk = t["k"] + ("+out" if t["k"] == "opt" and t["inner"]["k"] == "out" else "")
            dist["token_kinds"][kk] = dist["token_kinds"].get(kk, 0) + 1
            c = core(t)
            sk = "none" if c["k"] == "flag" or not c["suf"] else c["suf"][0]
            dist["suffix"][sk] = dist["suffix"].get(sk, 0) + 1
        dist["values_unset"] += sum(1 for v in case["values"] if v[0] == "unset")
        if text not in seen:
            seen.add(text)
            if L >= 2 and obs[0] == "ok" and len({t["k"] for t in case["tokens"]}) >= 2:
                nontrivial += 1
    res = run_cases_sep(ctx.scratch, "c25", IMPORTS, "case_t", cases,
                        {"tie_fields": "tie_fields", "tie_argv": "tie_argv", "spec_fields": "spec_fields",
                         "spec_argv": "spec_argv", "wf": "is_wf"}, extra=EXTRA, shard=300)
    dist["not_wellformed"] = len(res["wf"])
    out.evaluations = len(meta) + dist["argv_runs"]
    out.distinct_nontrivial = nontrivial
    out.rule = ("templates rendered from token ASTs: every sequence of length <= %d over a vocabulary of %d token shapes "
                "(bare/typed/optional/repeated arguments, option with argument, repeated tuple option, flag, typed output) "
                "exhaustively, plus %d sampled sequences of 1-6 tokens over a larger vocabulary (all type names, tuples, "
                "variable tuples, defaults, $templates, option+output, a few malformed tokens) and every quoted string default "
                "of a %d-entry list of special texts (backslash sequences, trailing backslash, quotes, = : $ ? + * | { } # %% ,) "
                "in both quote styles; each defined task is "
                "given a value for every field and its argv observed. Non-trivial = distinct template text with >= 2 "
                "tokens of >= 2 different kinds that pydra accepted" % (exh_len, V, nsample, len(STR_DEFAULTS)))
    out.exhaustive = True
    out.samples = meta[n_corpus + 20:n_corpus + 23] + meta[-3:]
    out.distribution = dist
    out.traces_validated = len(meta)
    notes = {"spec_fields": "the fields of the defined task are not the ones the template spells (or a well-formed template was rejected)",
             "spec_argv": "argv is not the executable followed by the template's tokens in template order",
             "tie_fields": "model/impl: fields", "tie_argv": "model/impl: argv"}
    for name in ("spec_fields", "spec_argv", "tie_fields", "tie_argv"):
        for i in res[name][:3]:
            m = meta[i]
            out.failures.append(Failure(case={"template": m["template"], "ast": m["ast"]},
                                        observed={"fields": m["fields"], "define_error": m["define_error"], "argv": m["argv"]},
                                        expected=explain(ctx, m["ast"], "%s%d" % (name, i)),
                                        kind="spec" if name.startswith("spec") else "tie", note=notes[name]))
    return out


def explain(ctx, case, tag):
    c = enc_case(case, ("err", "other"), [], None)
    vals = coqio.eval_terms(ctx.scratch, tag, IMPORTS, [
        "let '(exe, ts, _, _, pvs, _) := %s in (wf_template ts, fields_of_ast ts)" % c,
        "let '(exe, ts, _, _, pvs, _) := %s in expected_argv exe (combine ts (map (fun tp => value_of (says_template (fst tp)) (snd tp)) (combine ts pvs)))" % c,
    ], extra=EXTRA)
    return {"(well-formed, model fields)": vals[0][:3000], "spec argv": vals[1][:1500]}


def replay(ctx, payload):
    case = payload["case"]["ast"]
    print("template:", render(case))
    obs = observe_fields(case)
    if obs[0] == "ok":
        for f in obs[2]:
            print("  field", f.name, f.type, "default=%r" % (f.default,), "pos=%s" % f.position, "argstr=%r" % f.argstr,
                  "path_template=%r" % getattr(f, "path_template", None))
        try:
            print("  argv:", observe_argv(case, obs[1])[1])
        except Exception as e:  # noqa
            print("  argv: error", type(e).__name__, e)
    else:
        print("  define error:", obs[1])
    exp = explain(ctx, case, "replay")
    print("model:", exp["(well-formed, model fields)"])
    print("spec argv:", exp["spec argv"])
