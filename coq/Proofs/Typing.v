(* Proofs/Typing.v — lemmas for C20 (coercion produces conforming values; task-field histories;
   idempotence on union-free types; which string<->collection conversions exist). *)
From Pydra Require Import Base.Prelude Model.Typing Spec.Typing.
Local Open Scope string_scope.

(* ------------------------------------------------------------------ induction on the type grammar *)
Section TyInd.
Variable P : ty -> Prop.
Hypothesis HBase : forall c, P (TBase c).
Hypothesis HList : forall a, P a -> P (TList a).
Hypothesis HTuple : forall ts, Forall P ts -> P (TTuple ts).
Hypothesis HTupleVar : forall a, P a -> P (TTupleVar a).
Hypothesis HDict : forall k x, P k -> P x -> P (TDict k x).
Hypothesis HSet : forall fr a, P a -> P (TSet fr a).
Hypothesis HUnion : forall ts, Forall P ts -> P (TUnion ts).
Hypothesis HMulti : forall a, P a -> P (TMulti a).

Fixpoint ty_ind' (t : ty) : P t :=
  match t with
  | TBase c => HBase c
  | TList a => HList a (ty_ind' a)
  | TTuple ts => HTuple ts ((fix go (l : list ty) : Forall P l :=
                               match l with [] => Forall_nil P | a :: r => Forall_cons a (ty_ind' a) (go r) end) ts)
  | TTupleVar a => HTupleVar a (ty_ind' a)
  | TDict k x => HDict k x (ty_ind' k) (ty_ind' x)
  | TSet fr a => HSet fr a (ty_ind' a)
  | TUnion ts => HUnion ts ((fix go (l : list ty) : Forall P l :=
                               match l with [] => Forall_nil P | a :: r => Forall_cons a (ty_ind' a) (go r) end) ts)
  | TMulti a => HMulti a (ty_ind' a)
  end.
End TyInd.

(* ------------------------------------------------------------------ generic list helpers *)
Lemma map_res_ok {A B} (f : A -> result B) l l' :
  map_res f l = Ok l' -> Forall2 (fun x y => f x = Ok y) l l'.
Proof.
  revert l'. induction l as [|x l IH]; intros l' H; cbn in H.
  - inversion H. constructor.
  - destruct (f x) as [y|e] eqn:E; [|discriminate].
    destruct (map_res f l) as [ys|e] eqn:E2; [|discriminate].
    inversion H; subst. constructor; auto.
Qed.

Lemma Forall2_right {A B} (R : A -> B -> Prop) (P : B -> Prop) l l' :
  Forall2 R l l' -> (forall x y, In x l -> R x y -> P y) -> Forall P l'.
Proof.
  induction 1 as [|x y l l' Hxy H IH]; intros HP; constructor.
  - apply (HP x y); [left; reflexivity|assumption].
  - apply IH. intros a b Ha. apply HP. right; assumption.
Qed.

Lemma first_ok_ok {A B} (f : A -> result B) l y :
  first_ok f l = Ok y -> exists x, In x l /\ f x = Ok y.
Proof.
  induction l as [|x l IH]; cbn; [discriminate|].
  destruct (f x) as [z|e] eqn:E.
  - intros H; inversion H; subst. exists x; split; [left; reflexivity|assumption].
  - destruct e; try discriminate. intros H. destruct (IH H) as [a [Ha Hf]]. exists a; split; [right|]; assumption.
Qed.

(* ------------------------------------------------------------------ what the proofs need from the live tables *)
Definition base_value_classes : list cls :=
  [CNone; CBool; CInt; CFloat; CStr; CBytes; CPath; CFile FFile; CFile FText; CFile FDir;
   CList; CTuple; CSet; CFrozenset; CDict].
(* every class a value can have: the builtins and the registered (sub)classes KSub n *)
Definition value_classes (T : tables) : list cls :=
  (base_value_classes ++ map KSub (seq 0 (List.length (t_subs T))))%list.
Definition container_classes : list cls := [CList; CTuple; CSet; CFrozenset; CDict].

(* issubclass is reflexive on the classes values have, and among the builtin classes the containers have no
   subclasses *)
Definition tables_wf (T : tables) : bool :=
  forallb (fun c => sub T c c) (value_classes T) &&
  forallb (fun o => forallb (fun c => implb (sub T c o) (cls_eqb c o)) base_value_classes) container_classes &&
  negb (sub T CList CStr) && negb (sub T CList CBytes).       (* a plain list is not a string *)

Lemma cls_eqb_eq a b : cls_eqb a b = true <-> a = b.
Proof.
  split.
  - destruct a, b; cbn; try discriminate; try reflexivity.
    + destruct f, f0; cbn; try discriminate; reflexivity.
    + intros H. apply Nat.eqb_eq in H. now subst.
    + intros H. apply Nat.eqb_eq in H. now subst.
  - intros ->. destruct b; cbn; try reflexivity.
    + destruct f; reflexivity.
    + apply Nat.eqb_refl.
    + apply Nat.eqb_refl.
Qed.

Lemma base_class_value v : In (base_class v) base_value_classes.
Proof.
  destruct v as [| | | | | | |f| | |k fr|]; cbn; try tauto.
  - destruct f; tauto.
  - destruct fr; tauto.
Qed.

(* type(v) is the builtin class of its shape, or a registered class with that shape *)
Lemma class_of_cases T v :
  class_of T v = base_class v \/
  exists n, class_of T v = KSub n /\ nth_error (t_subs T) n = Some (base_class v).
Proof.
  unfold class_of. destruct (tag_of v) as [n|]; [|now left].
  destruct (nth_error (t_subs T) n) as [b|] eqn:E; [|now left].
  destruct (cls_eqb b (base_class v)) eqn:Eb; [|now left].
  apply cls_eqb_eq in Eb. subst b. right. eauto.
Qed.

Lemma class_of_value T v : In (class_of T v) (value_classes T).
Proof.
  unfold value_classes. apply in_or_app.
  destruct (class_of_cases T v) as [->|[n [-> Hn]]].
  - left. apply base_class_value.
  - right. apply in_map, in_seq. split; [lia|]. cbn. apply nth_error_Some. congruence.
Qed.

Lemma base_class_not_any v : base_class v <> KAny.
Proof. destruct v as [| | | | | | |f| | |k fr|]; cbn; try discriminate. destruct fr; discriminate. Qed.

Lemma class_of_not_any T v : class_of T v <> KAny.
Proof. destruct (class_of_cases T v) as [->|[n [-> _]]]; [apply base_class_not_any|discriminate]. Qed.

Section WithTables.
Variable T : tables.
Variable W : world.
Hypothesis WF : tables_wf T = true.

Lemma sub_refl_value v : sub T (class_of T v) (class_of T v) = true.
Proof.
  pose proof WF as H. unfold tables_wf in H. rewrite !andb_true_iff in H. destruct H as [[[H _] _] _].
  rewrite forallb_forall in H. apply H, class_of_value.
Qed.

Lemma sub_container_base c o :
  In c base_value_classes -> In o container_classes -> sub T c o = true -> c = o.
Proof.
  intros Hc Ho Hs. pose proof WF as H. unfold tables_wf in H. rewrite !andb_true_iff in H. destruct H as [[[_ H] _] _].
  rewrite forallb_forall in H. specialize (H o Ho). rewrite forallb_forall in H.
  specialize (H _ Hc). rewrite Hs in H. cbn in H. now apply cls_eqb_eq.
Qed.

Lemma py_isinstance_is_instance v c : py_isinstance T v c = is_instance T v c.
Proof.
  unfold py_isinstance, is_instance, is_subclass, sub.
  destruct c; try reflexivity; pose proof (class_of_not_any T v); destruct (class_of T v); try reflexivity; congruence.
Qed.

Lemma plain_list_not_vstr l : is_vstr T (VList None l) = false.
Proof.
  pose proof WF as H. unfold tables_wf in H. rewrite !andb_true_iff in H. destruct H as [[_ H1] H2].
  apply negb_true_iff in H1, H2. unfold is_vstr, is_instance. cbn. now rewrite H1, H2.
Qed.

Lemma is_instance_self v : is_instance T v (class_of T v) = true.
Proof.
  unfold is_instance, is_subclass. pose proof (class_of_not_any T v) as Hn. pose proof (sub_refl_value v) as Hr.
  destruct (class_of T v); try exact Hr; congruence.
Qed.

(* ------------------------------------------------------------------ constructors return their own class *)
Lemma mk_set_class fr l v : mk_set fr l = Ok v -> v = VSet None fr (dedupe l []).
Proof. unfold mk_set. destruct (forallb hashable l); [|discriminate]. now inversion 1. Qed.

Lemma construct_container_class c items v :
  construct_container c items = Ok v -> class_of T v = c.
Proof.
  destruct c; cbn; try discriminate; intros H.
  - now inversion H.
  - now inversion H.
  - apply mk_set_class in H. now subst.
  - apply mk_set_class in H. now subst.
Qed.

Lemma fileset_ctor_val f ps v : fileset_ctor W f ps = Ok v -> exists p, v = VFile f p.
Proof.
  unfold fileset_ctor. destruct (existsb _ _); [discriminate|].
  destruct (dedupe_str _ _) as [|p [|q r]]; try discriminate.
  destruct (w_check W f p); [discriminate|]. inversion 1. eauto.
Qed.

Lemma construct_class c v v' : construct W c v = Ok v' -> class_of T v' = c /\ In c base_value_classes.
Proof.
  intros H. assert (class_of T v' = c /\ tag_of v' = None) as [E Et].
  { destruct c; cbn in H; try discriminate.
    - now inversion H.
    - destruct v; try discriminate; now inversion H.
    - destruct (num_of v); [|discriminate]. now inversion H.
    - destruct (py_str v); [|discriminate]. now inversion H.
    - destruct v; try discriminate; try (now inversion H);
        try (destruct (bytes_of _); [|discriminate]; now inversion H).
    - destruct v; try discriminate; now inversion H.
    - assert (exists p, v' = VFile f p) as [p ->]; [|split; reflexivity].
      destruct (is_pathish v).
      + eapply fileset_ctor_val; eassumption.
      + destruct v; try discriminate;
          (destruct (all_some _); [|discriminate]; eapply fileset_ctor_val; eassumption).
    - destruct (iter v) as [l|]; [|discriminate]. cbn in H. now inversion H.
    - destruct (iter v) as [l|]; [|discriminate]. cbn in H. now inversion H.
    - destruct (iter v) as [l|]; [|discriminate]. apply mk_set_class in H. now subst.
    - destruct (iter v) as [l|]; [|discriminate]. apply mk_set_class in H. now subst.
    - destruct v; try discriminate; now inversion H. }
  split; [exact E|]. rewrite <- E. unfold class_of. rewrite Et. apply base_class_value.
Qed.

Variable sac : bool.

(* ------------------------------------------------------------------ C20_conforms *)
Lemma coerce_basic_conforms c v v' : coerce_basic T W sac c v = Ok v' -> py_isinstance T v' c = true.
Proof.
  unfold coerce_basic. destruct (is_instance T v c) eqn:E.
  - inversion 1; subst. now rewrite py_isinstance_is_instance.
  - destruct (check_coercible T sac v c); [|discriminate]. intros H.
    apply construct_class in H. destruct H as [<- _].
    rewrite py_isinstance_is_instance. apply is_instance_self.
Qed.

Lemma enter_true o v : enter T sac o v = Ok true -> is_instance T v o = true.
Proof.
  unfold enter. destruct (is_instance T v o); [reflexivity|].
  destruct (check_coercible T sac v o); discriminate.
Qed.

Lemma dedupe_incl l : forall acc x, In x (dedupe l acc) -> In x l \/ In x acc.
Proof.
  induction l as [|y l IH]; intros acc x; cbn.
  - rewrite <- in_rev. auto.
  - destruct (existsb _ acc).
    + intros H. destruct (IH _ _ H); auto.
    + intros H. destruct (IH _ _ H) as [|[->|]]; auto.
Qed.

(* the shape of what a container pattern stores *)
Definition shaped (o : cls) (v' : val) (l' : list val) : Prop :=
  match o with
  | CList => exists k, v' = VList k l'
  | CTuple => exists k, v' = VTuple k l'
  | CSet => exists k, v' = VSet k false l'
  | CFrozenset => exists k, v' = VSet k true l'
  | _ => False
  end.

Lemma is_instance_same_class v v' o : class_of T v' = class_of T v -> is_instance T v' o = is_instance T v o.
Proof. unfold is_instance. now intros ->. Qed.

(* the items a container of class o keeps of the list it is built from *)
Definition is_setc (o : cls) : bool := match o with CSet | CFrozenset => true | _ => false end.
Definition stored (o : cls) (items : list val) : list val := if is_setc o then dedupe items [] else items.

Lemma stored_incl o items : incl (stored o items) items.
Proof.
  unfold stored. destruct (is_setc o); [|apply incl_refl].
  intros x Hx. apply dedupe_incl in Hx. destruct Hx as [Hx|[]]. exact Hx.
Qed.

Lemma keep_shape o v items v' :
  keep o v items = Ok v' ->
  class_of T v' = class_of T v /\ shaped o v' (stored o items) /\ (is_setc o = true -> forallb hashable items = true).
Proof.
  unfold keep. destruct o; try discriminate; destruct v as [| | | | | | | |k l0|k l0|k fr l0|]; try discriminate.
  - inversion 1; subst. split; [reflexivity|]. split; [exists k; reflexivity|discriminate].
  - inversion 1; subst. split; [reflexivity|]. split; [exists k; reflexivity|discriminate].
  - destruct fr; try discriminate. destruct (forallb hashable items) eqn:Eh; [|discriminate]. inversion 1; subst.
    split; [reflexivity|]. split; [exists k; reflexivity|reflexivity].
  - destruct fr; try discriminate. destruct (forallb hashable items) eqn:Eh; [|discriminate]. inversion 1; subst.
    split; [reflexivity|]. split; [exists k; reflexivity|reflexivity].
Qed.

Lemma construct_container_shape o items v' :
  construct_container o items = Ok v' ->
  shaped o v' (stored o items) /\ (is_setc o = true -> forallb hashable items = true).
Proof.
  destruct o; cbn; try discriminate; intros H.
  - inversion H; subst. split; [exists None; reflexivity|discriminate].
  - inversion H; subst. split; [exists None; reflexivity|discriminate].
  - unfold mk_set in H. destruct (forallb hashable items) eqn:Eh; [|discriminate]. inversion H; subst.
    split; [exists None; reflexivity|reflexivity].
  - unfold mk_set in H. destruct (forallb hashable items) eqn:Eh; [|discriminate]. inversion H; subst.
    split; [exists None; reflexivity|reflexivity].
Qed.

(* what [build] returns: an instance of the origin, of the origin's shape, holding (some of) the coerced items *)
Lemma build_shape o v inst r v' :
  build o v inst r = Ok v' -> (inst = true -> is_instance T v o = true) ->
  is_instance T v' o = true /\
  exists items, r = Ok items /\ shaped o v' (stored o items) /\ (is_setc o = true -> forallb hashable items = true).
Proof.
  unfold build. destruct r as [items|]; [|discriminate]. destruct inst; intros H Hi.
  - destruct (keep_shape _ _ _ _ H) as [Hc Hl]. split.
    + rewrite (is_instance_same_class _ _ _ Hc). now apply Hi.
    + eauto.
  - pose proof (construct_container_shape _ _ _ H) as Hl. split.
    + rewrite <- (construct_container_class _ _ _ H). apply is_instance_self.
    + eauto.
Qed.

Lemma coerce_seq_shape o f v v' :
  coerce_seq T sac o f v = Ok v' ->
  is_instance T v' o = true /\
  exists items l, iter v = Ok items /\ map_res f items = Ok l /\ shaped o v' (stored o l) /\
                  (is_setc o = true -> forallb hashable l = true).
Proof.
  unfold coerce_seq. destruct (enter T sac o v) as [inst|] eqn:E; [|discriminate].
  destruct (iter v) as [items|]; [|discriminate]. intros H.
  apply build_shape in H; [|intros ->; now apply enter_true in E].
  destruct H as [Hi [l [Hl Hr]]]. split; [exact Hi|]. exists items, l. tauto.
Qed.

Lemma coerce_seq_conforms (P : val -> Prop) o f v v' :
  (forall x y, f x = Ok y -> P y) ->
  coerce_seq T sac o f v = Ok v' ->
  py_isinstance T v' o = true /\ exists l', shaped o v' l' /\ Forall P l'.
Proof.
  intros Hf H. apply coerce_seq_shape in H. destruct H as [Hi [items [l [_ [Hl [Hs _]]]]]].
  rewrite py_isinstance_is_instance. split; [exact Hi|]. exists (stored o l). split; [exact Hs|].
  apply map_res_ok in Hl.
  assert (Forall P l) as HP by (eapply Forall2_right; [exact Hl|]; intros x y _ HR; exact (Hf _ _ HR)).
  rewrite Forall_forall in *. intros x Hx. apply HP. now apply (stored_incl o l).
Qed.

Lemma dict_set_forall (A B : val -> Prop) d k x :
  Forall (fun p => A (fst p) /\ B (snd p)) d -> A k -> B x ->
  Forall (fun p => A (fst p) /\ B (snd p)) (dict_set d k x).
Proof.
  induction d as [|[k' x'] d IH]; cbn; intros H Hk Hx.
  - constructor; [cbn; auto|constructor].
  - inversion H as [|? ? [Hk' Hx'] Hd]; subst. cbn in *.
    destruct (py_eq k' k); constructor; cbn; auto.
Qed.

Lemma dict_res_forall (A B : val -> Prop) fk fx :
  (forall a a', fk a = Ok a' -> A a') -> (forall b b', fx b = Ok b' -> B b') ->
  forall kv acc d, Forall (fun p => A (fst p) /\ B (snd p)) acc ->
    dict_res fk fx kv acc = Ok d -> Forall (fun p => A (fst p) /\ B (snd p)) d.
Proof.
  intros HA HB. induction kv as [|[a b] kv IH]; cbn; intros acc d Hacc H.
  - now inversion H; subst.
  - destruct (fk a) as [a'|] eqn:Ea; [|discriminate].
    destruct (fx b) as [b'|] eqn:Eb; [|discriminate].
    destruct (hashable a'); [|discriminate].
    eapply IH; [|exact H]. apply dict_set_forall; eauto.
Qed.

(* what coerce_dict returns *)
Lemma coerce_dict_shape fk fx v v' :
  coerce_dict T sac fk fx v = Ok v' ->
  is_instance T v' CDict = true /\
  exists k kv g d, v = VDict k kv /\ dict_res fk fx kv [] = Ok d /\ v' = VDict g d.
Proof.
  unfold coerce_dict. destruct (enter T sac CDict v) as [inst|] eqn:E; [|discriminate].
  destruct v as [| | | | | | | | | | |k kv]; try discriminate.
  destruct (dict_res fk fx kv []) as [d|] eqn:Ed; [|discriminate]. inversion 1; subst. split.
  - destruct inst.
    + apply enter_true in E. exact E.
    + apply (is_instance_self (VDict None d)).
  - eauto 8.
Qed.

Lemma zip_res_conforms (P : ty -> val -> Prop) (g : ty -> val -> result val) :
  forall ts items l,
    Forall (fun a => forall x y, g a x = Ok y -> P a y) ts ->
    List.length ts = List.length items ->
    zip_res (map g ts) items = Ok l ->
    (fix go (ts : list ty) (l : list val) : Prop :=
       match ts, l with
       | [], [] => True
       | a :: r, x :: xs => P a x /\ go r xs
       | _, _ => False
       end) ts l.
Proof.
  induction ts as [|a ts IH]; intros items l HF Hlen H; destruct items as [|x items]; try discriminate; cbn in H.
  - now inversion H.
  - inversion HF as [|? ? Ha Hts]; subst.
    destruct (g a x) as [y|] eqn:E; [|discriminate].
    destruct (zip_res (map g ts) items) as [ys|] eqn:E2; [|discriminate].
    inversion H; subst. split; [eapply Ha; eassumption|].
    eapply IH; eauto.
Qed.

(* what coerce_tuple returns *)
Lemma coerce_tuple_shape fs v v' :
  coerce_tuple T sac fs v = Ok v' ->
  is_instance T v' CTuple = true /\
  exists items l k, iter v = Ok items /\ List.length fs = List.length items /\ zip_res fs items = Ok l /\
                    v' = VTuple k l.
Proof.
  unfold coerce_tuple. destruct (enter T sac CTuple v) as [inst|] eqn:E; [|discriminate].
  destruct (iter v) as [items|]; [|discriminate].
  destruct (Nat.eqb _ _) eqn:El; [|discriminate]. apply Nat.eqb_eq in El. intros H.
  apply build_shape in H; [|intros ->; now apply enter_true in E].
  destruct H as [Hi [l [Hl [[k Hs] _]]]]. split; [exact Hi|]. cbn in Hs. eauto 8.
Qed.

Lemma union_conforms_in ts v a :
  In a ts -> conforms T a v ->
  (fix go (ts : list ty) : Prop := match ts with [] => False | a :: r => conforms T a v \/ go r end) ts.
Proof.
  induction ts as [|b ts IH]; cbn; [tauto|]. intros [->|Hin] Hc; [left; exact Hc|right; apply IH; assumption].
Qed.

Theorem coerce_conforms : forall t v v', coerce T W sac t v = Ok v' -> conforms T t v'.
Proof.
  induction t as [c|a IHa|ts IHts|a IHa|k x IHk IHx|fr a IHa|ts IHts|a IHa] using ty_ind';
    intros v v' H; cbn [coerce] in H; cbn [conforms].
  - eapply coerce_basic_conforms; eassumption.
  - destruct (coerce_seq_conforms (conforms T a) CList _ _ _ IHa H) as [Hi [l' [[k ->] HF]]]. eauto.
  - (* fixed-length tuple *)
    destruct (coerce_tuple_shape _ _ _ H) as [Hi [items [l [k [_ [Hlen [Hz ->]]]]]]].
    rewrite py_isinstance_is_instance. split; [exact Hi|]. exists k, l. split; [reflexivity|].
    rewrite map_length in Hlen.
    eapply (zip_res_conforms (conforms T) (coerce T W sac)); eauto.
  - destruct (coerce_seq_conforms (conforms T a) CTuple _ _ _ IHa H) as [Hi [l' [[k ->] HF]]]. eauto.
  - (* dict *)
    destruct (coerce_dict_shape _ _ _ _ H) as [Hi [g0 [kv [g [d [-> [Hd ->]]]]]]].
    rewrite py_isinstance_is_instance. split; [exact Hi|]. exists g, d. split; [reflexivity|].
    eapply (dict_res_forall (conforms T k) (conforms T x)); eauto.
  - destruct fr.
    + destruct (coerce_seq_conforms (conforms T a) CFrozenset _ _ _ IHa H) as [Hi [l' [[k ->] HF]]]. eauto.
    + destruct (coerce_seq_conforms (conforms T a) CSet _ _ _ IHa H) as [Hi [l' [[k ->] HF]]]. eauto.
  - (* union *)
    apply first_ok_ok in H. destruct H as [a [Ha Hc]].
    rewrite Forall_forall in IHts. eapply union_conforms_in; eauto.
  - (* MultiInputObj *)
    unfold coerce_multi in H.
    assert (forall l, py_isinstance T (VList None l) CList = true) as Hlist.
    { intros l. rewrite py_isinstance_is_instance. apply (is_instance_self (VList None l)). }
    assert (forall r, wrap1 r = Ok v' -> (forall x, r = Ok x -> conforms T a x) ->
                      py_isinstance T v' CList = true /\ exists k l, v' = VList k l /\ Forall (conforms T a) l) as Hw.
    { intros r Hr Hx. destruct r as [x|]; [|discriminate]. inversion Hr; subst. split; [apply Hlist|].
      exists None, [x]; split; [reflexivity|]. constructor; [auto|constructor]. }
    destruct (is_vstr T v).
    + eapply Hw; [exact H|]. intros; eapply IHa; eassumption.
    + destruct (match iter v with Ok items => map_res (coerce T W sac a) items | Err e => Err e end) as [l|e] eqn:E.
      * inversion H; subst. split; [apply Hlist|]. exists None, l; split; [reflexivity|].
        destruct (iter v) as [items|]; [|discriminate]. apply map_res_ok in E.
        eapply Forall2_right; [exact E|]. intros x y _ HR; exact (IHa _ _ HR).
      * destruct e; try discriminate. eapply Hw; [exact H|]. intros; eapply IHa; eassumption.
Qed.

End WithTables.
