(* Proofs/GraphWf2.v — well-formed remove_nodes_connections / remove_previous_connections calls
   succeed (C37).  Strengthens wf_state (GraphWf.v) by two facts about the dictionaries. *)
From Pydra Require Import Base.Prelude Model.Graph Spec.Graph
  Proofs.GraphBase Proofs.GraphSort Proofs.GraphInv Proofs.GraphEdges Proofs.GraphTopo Proofs.GraphLive Proofs.GraphWf.
From Coq Require Import Sorting.Permutation.
Local Open Scope nat_scope.
Local Open Scope list_scope.

Definition wf2 (g : graph) : Prop :=
  wf_state g /\ NoDup (dkeys (g_succs g)) /\ (forall x, In x (g_wip g) -> In x (dkeys (g_preds g))).

Lemma same_keys_In (w w' : dict) x : same_keys w w' -> (In x (dkeys w') <-> In x (dkeys w)).
Proof.
  intros H. rewrite <- !dget_In_keys. specialize (H x).
  destruct (dget w x), (dget w' x); split; intros [v E]; try discriminate; eauto;
    exfalso; [assert (X : @None (list node) = None) by reflexivity; apply H in X; discriminate
             |assert (X : @None (list node) = None) by reflexivity; apply H in X; discriminate].
Qed.

Lemma path_sub2 ns ns' es es' a b :
  (forall x, In x ns' -> In x ns) -> (forall e, In e es' -> In e es) -> path ns' es' a b -> path ns es a b.
Proof.
  intros H1 H2. induction 1 as [x y A B C|x y z A B C _ IH]; [apply path_one; auto|eapply path_cons; eauto].
Qed.

Lemma cnt_cons b b0 sl : cnt b (b0 :: sl) = cnt b sl + (if Nat.eq_dec b0 b then 1 else 0).
Proof. unfold cnt. cbn. destruct (Nat.eq_dec b0 b); lia. Qed.

(* ---- the inner loop of remove_nodes_connections: one nd leaves predecessors[b] and one (nd, b)
   leaves edges for every occurrence of b in successors[nd] *)
Lemma disc_succ_ok nd sl : forall pd es,
  (forall b, cnt b sl <= cnt nd (lk pd b)) -> (forall b, cnt b sl <= ecnt (nd, b) es) ->
  exists pd' es', foldM (disconnect_succ nd) sl (pd, es) = Ok (pd', es') /\ same_keys pd pd' /\
    (forall y b, cnt y (lk pd b) = cnt y (lk pd' b) + (if Nat.eq_dec y nd then cnt b sl else 0)) /\
    (forall a b, ecnt (a, b) es = ecnt (a, b) es' + (if Nat.eq_dec a nd then cnt b sl else 0)).
Proof.
  induction sl as [|b0 sl IH]; intros pd es H1 H2.
  - exists pd, es. split; [reflexivity|]. split; [apply same_keys_refl|].
    split; intros; destruct (Nat.eq_dec _ nd); cbn; lia.
  - cbn [foldM].
    assert (P0 : In nd (lk pd b0)).
    { apply cnt_pos_In. specialize (H1 b0). rewrite cnt_cons in H1. destruct (Nat.eq_dec b0 b0); [lia|congruence]. }
    assert (E0 : In (nd, b0) es).
    { apply ecnt_pos_In. specialize (H2 b0). rewrite cnt_cons in H2. destruct (Nat.eq_dec b0 b0); [lia|congruence]. }
    unfold lk in P0. destruct (dget pd b0) as [v|] eqn:Hg; [|contradiction].
    destruct (remove_one_some Nat.eqb Nat.eqb_eq nd v P0) as [v' Hr].
    destruct (remove_one_some edge_eqb edge_eqb_eq (nd, b0) es E0) as [es1 He].
    assert (S0 : disconnect_succ nd (pd, es) b0 = Ok (dset pd b0 v', es1)).
    { unfold disconnect_succ, dremove. cbn [fst snd]. rewrite Hg, Hr. cbn [bind]. rewrite He. reflexivity. }
    rewrite S0. cbn [bind].
    pose proof (remove_one_cnt _ _ _ Hr) as Cv. pose proof (remove_one_ecnt _ _ _ He) as Ce.
    destruct (IH (dset pd b0 v') es1) as [pd' [es' [F [K [C1 C2]]]]].
    + intros b. rewrite lk_dset. specialize (H1 b). rewrite cnt_cons in H1. destruct (Nat.eqb b b0) eqn:E.
      * apply Nat.eqb_eq in E. subst b. unfold lk in H1. rewrite Hg in H1. specialize (Cv nd).
        destruct (Nat.eq_dec nd nd); [|congruence]. destruct (Nat.eq_dec b0 b0); [|congruence]. lia.
      * apply Nat.eqb_neq in E. destruct (Nat.eq_dec b0 b); [congruence|]. lia.
    + intros b. specialize (H2 b). rewrite cnt_cons in H2. specialize (Ce (nd, b)).
      unfold node in *.
      destruct (edge_dec (nd, b0) (nd, b)) as [e|n], (Nat.eq_dec b0 b) as [e'|n']; try lia;
        try (exfalso; congruence); try (exfalso; apply n; congruence).
    + exists pd', es'. split; [exact F|]. split.
      * eapply same_keys_trans; [|exact K]. intros b. rewrite dget_dset.
        destruct (Nat.eqb b b0) eqn:E; [|tauto]. apply Nat.eqb_eq in E. subst b. rewrite Hg. split; discriminate.
      * split.
        -- intros y b. pose proof (C1 y b) as Q. rewrite lk_dset in Q. rewrite cnt_cons. destruct (Nat.eqb b b0) eqn:E.
           ++ apply Nat.eqb_eq in E. subst b. unfold lk at 1. rewrite Hg. specialize (Cv y).
              destruct (Nat.eq_dec b0 b0); [|congruence]. unfold node in *.
              destruct (Nat.eq_dec nd y), (Nat.eq_dec y nd); try lia; congruence.
           ++ apply Nat.eqb_neq in E. destruct (Nat.eq_dec b0 b); [congruence|]. unfold node in *. destruct (Nat.eq_dec y nd); lia.
        -- intros a b. pose proof (C2 a b) as Q. rewrite cnt_cons. specialize (Ce (a, b)). unfold node in *.
           destruct (edge_dec (nd, b0) (a, b)) as [e|n], (Nat.eq_dec a nd) as [e1|n1], (Nat.eq_dec b0 b) as [e2|n2];
             try lia; try (exfalso; congruence); try (exfalso; apply n; congruence).
Qed.

Lemma ecnt_le_In (e : edge) es es' : (forall x, ecnt x es' <= ecnt x es) -> In e es' -> In e es.
Proof. intros H Hin. apply ecnt_pos_In. apply ecnt_pos_In in Hin. specialize (H e). lia. Qed.

Lemma nodup_remove_app (w w' ns : list node) nd :
  remove_one Nat.eqb nd w = Some w' -> NoDup (w ++ ns) ->
  NoDup (w' ++ ns) /\ ~ In nd (w' ++ ns) /\ (forall x, In x (w' ++ ns) -> In x (w ++ ns)).
Proof.
  intros Hr Hnd. pose proof (remove_one_perm Nat.eqb Nat.eqb_eq _ _ _ Hr) as P.
  assert (P2 : Permutation (w ++ ns) (nd :: w' ++ ns)) by (apply (Permutation_app_tail ns) in P; exact P).
  assert (N2 : NoDup (nd :: w' ++ ns)) by (eapply Permutation_NoDup; eauto).
  inversion N2; subst. split; [assumption|]. split; [assumption|].
  intros x Hx. eapply Permutation_in; [symmetry; exact P2|now right].
Qed.

(* one node: the body of the loop of remove_nodes_connections *)
Theorem remove_connections_one_succeeds g nd :
  wf2 g -> In nd (g_wip g) -> lk (g_preds g) nd = [] ->
  exists g', remove_connections_one g nd = Ok g' /\ wf2 g' /\
             g_nodes g' = g_nodes g /\ remove_one Nat.eqb nd (g_wip g) = Some (g_wip g') /\
             (forall n, n <> nd -> lk (g_preds g) n = [] -> lk (g_preds g') n = []).
Proof.
  intros [[Hinv [Hc Hac]] [NS WP]] Hw Hp0.
  pose proof Hc as [ND [KS [KP [CP [CS [KE CL]]]]]].
  pose proof Hinv as [_ [NP _]].
  assert (KSnd : In nd (dkeys (g_succs g))) by (apply KS, in_or_app; auto).
  pose proof KSnd as KSnd'. apply dget_In_keys in KSnd'. destruct KSnd' as [sl Hsl].
  assert (Esl : forall b, cnt b sl = ecnt (nd, b) (g_edges g)).
  { intros b. rewrite <- (lk_cnt_scounts _ _ nd b CS (fun x y H => proj1 (KE x y H))). unfold lk. rewrite Hsl. reflexivity. }
  assert (Epl : forall a b, cnt a (lk (g_preds g) b) = ecnt (a, b) (g_edges g))
    by (intros a b; apply (lk_cnt_counts _ _ a b CP (fun x y H => proj2 (KE x y H)))).
  destruct (disc_succ_ok nd sl (g_preds g) (g_edges g)) as [pd' [es' [F [K [C1 C2]]]]].
  { intros b. rewrite Esl, Epl. lia. }
  { intros b. rewrite Esl. lia. }
  destruct (disconnect_succ_all _ _ _ _ F) as [_ NP']. cbn [fst] in NP'. specialize (NP' NP).
  destruct (dpop_some (g_succs g) nd KSnd) as [sd' Hps].
  assert (KPnd : In nd (dkeys pd')) by (apply (same_keys_In _ _ nd K), WP, Hw).
  destruct (dpop_some pd' nd KPnd) as [pd'' Hpp].
  destruct (remove_one_some Nat.eqb Nat.eqb_eq nd (g_wip g) Hw) as [wip' Hrw].
  destruct (dpop_spec _ _ _ Hps NS) as [GS NS'].
  destruct (dpop_spec _ _ _ Hpp NP') as [GP NP''].
  destruct (nodup_remove_app _ _ (g_nodes g) _ Hrw ND) as [ND' [Nnd Sub]].
  set (g' := mkG (g_nodes g) es' pd'' sd' (g_sorted g) wip').
  assert (R : remove_connections_one g nd = Ok g').
  { unfold remove_connections_one. rewrite Hsl. cbn [of_opt bind]. rewrite F. cbn [bind fst snd].
    unfold pop_node. rewrite Hps. cbn [of_opt bind]. rewrite Hpp. cbn [of_opt bind]. rewrite Hrw. reflexivity. }
  (* facts about the new edges *)
  assert (EE : forall a b, ecnt (a, b) es' <= ecnt (a, b) (g_edges g)) by (intros a b; rewrite (C2 a b); lia).
  assert (EEe : forall e, ecnt e es' <= ecnt e (g_edges g)) by (intros [a b]; apply EE).
  assert (Eout : forall b, ecnt (nd, b) es' = 0).
  { intros b. pose proof (C2 nd b) as Q. destruct (Nat.eq_dec nd nd); [|congruence]. rewrite <- Esl in Q. lia. }
  assert (Ein : forall a, ecnt (a, nd) (g_edges g) = 0) by (intros a; rewrite <- Epl, Hp0; reflexivity).
  assert (Ene : forall a b, In (a, b) es' -> a <> nd /\ b <> nd).
  { intros a b Hab. split; intros ->.
    - apply ecnt_pos_In in Hab. rewrite Eout in Hab. lia.
    - apply (ecnt_le_In _ _ _ EEe) in Hab. apply ecnt_pos_In in Hab. rewrite Ein in Hab. lia. }
  exists g'. split; [exact R|]. split; [|split; [reflexivity|split; [exact Hrw|]]].
  - split; [split; [eapply remove_connections_one_inv; eauto|split]|split].
    + (* consistent *)
      unfold consistent, g'. cbn. repeat split.
      * exact ND'.
      * intros x Hx. apply dget_In_keys. rewrite GS. destruct (Nat.eqb x nd) eqn:E.
        -- apply Nat.eqb_eq in E. subst x. contradiction.
        -- apply dget_In_keys, KS, Sub, Hx.
      * intros x Hx. apply dget_In_keys. rewrite GP. destruct (Nat.eqb x nd) eqn:E.
        -- apply Nat.eqb_eq in E. subst x. exfalso. apply Nnd, in_or_app. now right.
        -- apply dget_In_keys, (same_keys_In _ _ x K), KP, Hx.
      * intros b pl Hb a. rewrite GP in Hb. destruct (Nat.eqb b nd) eqn:E; [discriminate|]. apply Nat.eqb_neq in E.
        assert (Q : cnt a pl = cnt a (lk pd' b)) by (unfold lk; rewrite Hb; reflexivity).
        rewrite Q. pose proof (C1 a b) as Q1. pose proof (C2 a b) as Q2. rewrite Epl in Q1.
        destruct (Nat.eq_dec a nd); lia.
      * intros a sl0 Ha b. rewrite GS in Ha. destruct (Nat.eqb a nd) eqn:E; [discriminate|]. apply Nat.eqb_neq in E.
        rewrite (CS a sl0 Ha b). pose proof (C2 a b) as Q2. destruct (Nat.eq_dec a nd); [congruence|lia].
      * destruct (Ene a b H) as [Na _]. apply dget_In_keys. rewrite GS.
        apply Nat.eqb_neq in Na. rewrite Na. apply dget_In_keys. exact (proj1 (KE a b (ecnt_le_In _ _ _ EEe H))).
      * destruct (Ene a b H) as [_ Nb]. apply dget_In_keys. rewrite GP.
        apply Nat.eqb_neq in Nb. rewrite Nb. apply dget_In_keys, (same_keys_In _ _ b K).
        exact (proj2 (KE a b (ecnt_le_In _ _ _ EEe H))).
      * intros a b Hab Hb. destruct (Ene a b Hab) as [Na _].
        pose proof (CL a b (ecnt_le_In _ _ _ EEe Hab) Hb) as X. apply in_app_or in X. apply in_or_app.
        destruct X as [X|X]; [left|right; exact X]. eapply (remove_one_other Nat.eqb Nat.eqb_eq); eauto.
    + (* acyclic *)
      unfold g'. cbn. intros a Pa. apply (Hac a). eapply path_sub2; [exact Sub| |exact Pa].
      intros e He. eapply ecnt_le_In; eauto.
    + exact NS'.
    + unfold g'. cbn. intros x Hx. apply dget_In_keys. rewrite GP. destruct (Nat.eqb x nd) eqn:E.
      * apply Nat.eqb_eq in E. subst x. exfalso. apply Nnd, in_or_app. now left.
      * apply dget_In_keys, (same_keys_In _ _ x K), WP. eapply (remove_one_incl Nat.eqb Nat.eqb_eq); eauto.
  - intros n Hn Hl. unfold g'. cbn. unfold lk. rewrite GP. apply Nat.eqb_neq in Hn. rewrite Hn.
    fold (lk pd' n). destruct (lk pd' n) as [|y r] eqn:El; [reflexivity|]. exfalso.
    assert (cnt y (lk pd' n) > 0) by (rewrite El; apply cnt_pos_In; now left).
    pose proof (C1 y n) as Q. rewrite Hl in Q. cbn in Q. lia.
Qed.

Definition pre_disconnect (g : graph) (l : list node) : Prop :=
  NoDup l /\ (forall x, In x l -> In x (g_wip g)) /\ (forall x, In x l -> lk (g_preds g) x = []).

Theorem remove_nodes_connections_succeeds l : forall g,
  wf2 g -> pre_disconnect g l ->
  exists g', remove_nodes_connections g l = Ok g' /\ wf2 g' /\ g_nodes g' = g_nodes g.
Proof.
  unfold remove_nodes_connections. induction l as [|nd l IH]; intros g W [Hnd [Hw Hp]]; cbn [foldM]; [eauto|].
  inversion Hnd as [|? ? Hx Hnd']; subst.
  destruct (remove_connections_one_succeeds g nd W (Hw nd (or_introl eq_refl)) (Hp nd (or_introl eq_refl)))
    as [g1 [R [W1 [En [Ew Hl]]]]].
  rewrite R. cbn [bind]. destruct (IH g1 W1) as [g' [R' [W' En']]].
  - split; [exact Hnd'|]. split.
    + intros x Hx'. eapply (remove_one_other Nat.eqb Nat.eqb_eq); [exact Ew| |apply Hw; now right]. intros ->. contradiction.
    + intros x Hx'. apply Hl; [intros ->; contradiction|apply Hp; now right].
  - exists g'. split; [exact R'|]. split; [exact W'|congruence].
Qed.

Lemma pre_disconnect_of_spec g l : pre_opb g (RemoveNodesConnections l) = true -> pre_disconnect g l.
Proof.
  cbn [pre_opb]. intros H. apply andb_true_iff in H. destruct H as [H H3]. apply andb_true_iff in H. destruct H as [H1 H2].
  split; [apply nodupb_NoDup, H1|]. split; [apply subsetb_incl, H2|].
  intros x Hx. rewrite forallb_forall in H3. specialize (H3 x Hx).
  rewrite lookup_lk in H3. destruct (lk (g_preds g) x); [reflexivity|discriminate].
Qed.

(* ---- wf2 for the constructor and for remove_nodes *)
Lemma connect_all_skeys_nodup es : forall pd sd ps,
  connect_all es pd sd = Ok ps -> NoDup (dkeys sd) -> NoDup (dkeys (snd ps)).
Proof.
  unfold connect_all. induction es as [|e es IH]; cbn; intros pd sd ps H Hnd.
  - inversion H; subst. exact Hnd.
  - apply bind_ok in H. destruct H as [[p1 s1] [H1 H]]. cbn in H1.
    eapply (IH p1 s1); [exact H|]. unfold connect in H1. apply bind_ok in H1. destruct H1 as [p1' [_ H1]].
    apply bind_ok in H1. destruct H1 as [s1' [H2 H1]]. inversion H1; subst.
    apply dappend_ok in H2. destruct H2 as [v [_ ->]]. apply dset_nodup_keys, Hnd.
Qed.

Lemma init_wf2 ns es g : init ns es = Ok g -> acyclic ns es -> wf2 g.
Proof.
  intros H A. split; [eapply init_wf; eauto|]. unfold init in H.
  destruct (nonempty ns && has_dup ns) eqn:Hd; [discriminate|]. destruct (nonempty es && negb _); [discriminate|].
  apply bind_ok in H. destruct H as [ps [Hc H]]. inversion H; subst g. cbn. split; [|intros x []].
  eapply connect_all_skeys_nodup; [exact Hc|]. rewrite dkeys_empty. apply check_dup_nodup, Hd.
Qed.

Lemma remove_nodes_wf2 g l c g' :
  wf2 g -> pre_remove_nodes g l c -> remove_nodes g l c = Ok g' -> wf2 g'.
Proof.
  intros [W [NS WP]] P H. destruct (remove_nodes_succeeds g l c W P) as [g2 [H2 W2]].
  rewrite H in H2. inversion H2; subst g2. split; [exact W2|].
  unfold remove_nodes in H. apply bind_ok in H. destruct H as [g1 [Hm H]].
  destruct (mark_removed_all _ _ _ _ Hm) as [Pn [Ep [Es [_ [_ Ew]]]]].
  assert (F : exists o, g' = set_sorted g1 o).
  { destruct (g_sorted g1) as [s|]; [apply finish_remove_frame in H; exact H|].
    inversion H; subst. exists (g_sorted g'). destruct g'; reflexivity. }
  destruct F as [o ->]. cbn. rewrite Es, Ep, Ew. split; [exact NS|].
  intros x Hx. apply in_app_or in Hx. destruct Hx as [Hx|Hx]; [apply WP, Hx|].
  destruct W as [_ [[_ [_ [KP _]]] _]]. apply KP. destruct P as [_ [Hin _]]. apply Hin, Hx.
Qed.

(* ================= remove_previous_connections (mirror image) ================= *)
Lemma disc_pred_ok nd pl : forall sd es,
  (forall a, cnt a pl <= cnt nd (lk sd a)) -> (forall a, cnt a pl <= ecnt (a, nd) es) ->
  exists sd' es', foldM (disconnect_pred nd) pl (sd, es) = Ok (sd', es') /\ same_keys sd sd' /\
    (NoDup (dkeys sd) -> NoDup (dkeys sd')) /\
    (forall y a, cnt y (lk sd a) = cnt y (lk sd' a) + (if Nat.eq_dec y nd then cnt a pl else 0)) /\
    (forall a b, ecnt (a, b) es = ecnt (a, b) es' + (if Nat.eq_dec b nd then cnt a pl else 0)).
Proof.
  induction pl as [|a0 pl IH]; intros sd es H1 H2.
  - exists sd, es. split; [reflexivity|]. split; [apply same_keys_refl|]. split; [auto|].
    split; intros; destruct (Nat.eq_dec _ nd); cbn; lia.
  - cbn [foldM].
    assert (P0 : In nd (lk sd a0)).
    { apply cnt_pos_In. specialize (H1 a0). rewrite cnt_cons in H1. destruct (Nat.eq_dec a0 a0); [lia|congruence]. }
    assert (E0 : In (a0, nd) es).
    { apply ecnt_pos_In. specialize (H2 a0). rewrite cnt_cons in H2. destruct (Nat.eq_dec a0 a0); [lia|congruence]. }
    unfold lk in P0. destruct (dget sd a0) as [v|] eqn:Hg; [|contradiction].
    destruct (remove_one_some Nat.eqb Nat.eqb_eq nd v P0) as [v' Hr].
    destruct (remove_one_some edge_eqb edge_eqb_eq (a0, nd) es E0) as [es1 He].
    assert (Km : memb a0 (dkeys sd) = true) by (apply memb_In, dget_In_keys; eauto).
    assert (S0 : disconnect_pred nd (sd, es) a0 = Ok (dset sd a0 v', es1)).
    { unfold disconnect_pred, dremove. cbn [fst snd]. rewrite Km, Hg, Hr. cbn [bind]. rewrite He. reflexivity. }
    rewrite S0. cbn [bind].
    pose proof (remove_one_cnt _ _ _ Hr) as Cv. pose proof (remove_one_ecnt _ _ _ He) as Ce.
    destruct (IH (dset sd a0 v') es1) as [sd' [es' [F [K [N [C1 C2]]]]]].
    + intros a. rewrite lk_dset. specialize (H1 a). rewrite cnt_cons in H1. destruct (Nat.eqb a a0) eqn:E.
      * apply Nat.eqb_eq in E. subst a. unfold lk in H1. rewrite Hg in H1. specialize (Cv nd).
        destruct (Nat.eq_dec nd nd); [|congruence]. destruct (Nat.eq_dec a0 a0); [|congruence]. lia.
      * apply Nat.eqb_neq in E. destruct (Nat.eq_dec a0 a); [congruence|]. lia.
    + intros a. specialize (H2 a). rewrite cnt_cons in H2. specialize (Ce (a, nd)). unfold node in *.
      destruct (edge_dec (a0, nd) (a, nd)) as [e|n], (Nat.eq_dec a0 a) as [e'|n']; try lia;
        try (exfalso; congruence); try (exfalso; apply n; congruence).
    + exists sd', es'. split; [exact F|]. split.
      * eapply same_keys_trans; [|exact K]. intros b. rewrite dget_dset.
        destruct (Nat.eqb b a0) eqn:E; [|tauto]. apply Nat.eqb_eq in E. subst b. rewrite Hg. split; discriminate.
      * split; [intros Hn; apply N, dset_nodup_keys, Hn|]. split.
        -- intros y a. pose proof (C1 y a) as Q. rewrite lk_dset in Q. rewrite cnt_cons. destruct (Nat.eqb a a0) eqn:E.
           ++ apply Nat.eqb_eq in E. subst a. unfold lk at 1. rewrite Hg. specialize (Cv y).
              destruct (Nat.eq_dec a0 a0); [|congruence]. unfold node in *.
              destruct (Nat.eq_dec nd y), (Nat.eq_dec y nd); try lia; congruence.
           ++ apply Nat.eqb_neq in E. destruct (Nat.eq_dec a0 a); [congruence|]. unfold node in *. destruct (Nat.eq_dec y nd); lia.
        -- intros a b. pose proof (C2 a b) as Q. rewrite cnt_cons. specialize (Ce (a, b)). unfold node in *.
           destruct (edge_dec (a0, nd) (a, b)) as [e|n], (Nat.eq_dec b nd) as [e1|n1], (Nat.eq_dec a0 a) as [e2|n2];
             try lia; try (exfalso; congruence); try (exfalso; apply n; congruence).
Qed.

Theorem remove_previous_one_succeeds g nd :
  wf2 g -> In nd (g_wip g) -> lk (g_succs g) nd = [] ->
  exists g', remove_previous_one g nd = Ok g' /\ wf2 g' /\
             g_nodes g' = g_nodes g /\ remove_one Nat.eqb nd (g_wip g) = Some (g_wip g') /\
             (forall n, n <> nd -> lk (g_succs g) n = [] -> lk (g_succs g') n = []).
Proof.
  intros [[Hinv [Hc Hac]] [NS WP]] Hw Hs0.
  pose proof Hc as [ND [KS [KP [CP [CS [KE CL]]]]]].
  pose proof Hinv as [_ [NP _]].
  assert (KPnd : In nd (dkeys (g_preds g))) by (apply WP, Hw).
  pose proof KPnd as KPnd'. apply dget_In_keys in KPnd'. destruct KPnd' as [pl Hpl].
  assert (Esl : forall a b, cnt b (lk (g_succs g) a) = ecnt (a, b) (g_edges g))
    by (intros a b; apply (lk_cnt_scounts _ _ a b CS (fun x y H => proj1 (KE x y H)))).
  assert (Epl : forall a, cnt a pl = ecnt (a, nd) (g_edges g)).
  { intros a. rewrite <- (lk_cnt_counts _ _ a nd CP (fun x y H => proj2 (KE x y H))). unfold lk. rewrite Hpl. reflexivity. }
  destruct (disc_pred_ok nd pl (g_succs g) (g_edges g)) as [sd' [es' [F [K [N [C1 C2]]]]]].
  { intros a. rewrite Epl, Esl. lia. }
  { intros a. rewrite Epl. lia. }
  specialize (N NS).
  assert (KSnd : In nd (dkeys sd')) by (apply (same_keys_In _ _ nd K), KS, in_or_app; auto).
  destruct (dpop_some sd' nd KSnd) as [sd'' Hps].
  destruct (dpop_some (g_preds g) nd KPnd) as [pd'' Hpp].
  destruct (remove_one_some Nat.eqb Nat.eqb_eq nd (g_wip g) Hw) as [wip' Hrw].
  destruct (dpop_spec _ _ _ Hps N) as [GS NS''].
  destruct (dpop_spec _ _ _ Hpp NP) as [GP NP''].
  destruct (nodup_remove_app _ _ (g_nodes g) _ Hrw ND) as [ND' [Nnd Sub]].
  set (g' := mkG (g_nodes g) es' pd'' sd'' (g_sorted g) wip').
  assert (R : remove_previous_one g nd = Ok g').
  { unfold remove_previous_one. rewrite Hpl. cbn [of_opt bind]. rewrite F. cbn [bind fst snd].
    unfold pop_node. rewrite Hps. cbn [of_opt bind]. rewrite Hpp. cbn [of_opt bind]. rewrite Hrw. reflexivity. }
  assert (EE : forall a b, ecnt (a, b) es' <= ecnt (a, b) (g_edges g)) by (intros a b; rewrite (C2 a b); lia).
  assert (EEe : forall e, ecnt e es' <= ecnt e (g_edges g)) by (intros [a b]; apply EE).
  assert (Ein : forall a, ecnt (a, nd) es' = 0).
  { intros a. pose proof (C2 a nd) as Q. destruct (Nat.eq_dec nd nd); [|congruence]. rewrite <- Epl in Q. lia. }
  assert (Eout : forall b, ecnt (nd, b) (g_edges g) = 0) by (intros b; rewrite <- Esl, Hs0; reflexivity).
  assert (Ene : forall a b, In (a, b) es' -> a <> nd /\ b <> nd).
  { intros a b Hab. split; intros ->.
    - apply (ecnt_le_In _ _ _ EEe) in Hab. apply ecnt_pos_In in Hab. rewrite Eout in Hab. lia.
    - apply ecnt_pos_In in Hab. rewrite Ein in Hab. lia. }
  exists g'. split; [exact R|]. split; [|split; [reflexivity|split; [exact Hrw|]]].
  - split; [split; [eapply remove_previous_one_inv; eauto|split]|split].
    + unfold consistent, g'. cbn. repeat split.
      * exact ND'.
      * intros x Hx. apply dget_In_keys. rewrite GS. destruct (Nat.eqb x nd) eqn:E.
        -- apply Nat.eqb_eq in E. subst x. contradiction.
        -- apply dget_In_keys, (same_keys_In _ _ x K), KS, Sub, Hx.
      * intros x Hx. apply dget_In_keys. rewrite GP. destruct (Nat.eqb x nd) eqn:E.
        -- apply Nat.eqb_eq in E. subst x. exfalso. apply Nnd, in_or_app. now right.
        -- apply dget_In_keys, KP, Hx.
      * intros b pl0 Hb a. rewrite GP in Hb. destruct (Nat.eqb b nd) eqn:E; [discriminate|]. apply Nat.eqb_neq in E.
        rewrite (CP b pl0 Hb a). pose proof (C2 a b) as Q2. destruct (Nat.eq_dec b nd); [congruence|lia].
      * intros a sl0 Ha b. rewrite GS in Ha. destruct (Nat.eqb a nd) eqn:E; [discriminate|]. apply Nat.eqb_neq in E.
        assert (Q : cnt b sl0 = cnt b (lk sd' a)) by (unfold lk; rewrite Ha; reflexivity).
        rewrite Q. pose proof (C1 b a) as Q1. pose proof (C2 a b) as Q2. rewrite Esl in Q1.
        destruct (Nat.eq_dec b nd); lia.
      * destruct (Ene a b H) as [Na _]. apply dget_In_keys. rewrite GS.
        apply Nat.eqb_neq in Na. rewrite Na. apply dget_In_keys, (same_keys_In _ _ a K).
        exact (proj1 (KE a b (ecnt_le_In _ _ _ EEe H))).
      * destruct (Ene a b H) as [_ Nb]. apply dget_In_keys. rewrite GP.
        apply Nat.eqb_neq in Nb. rewrite Nb. apply dget_In_keys. exact (proj2 (KE a b (ecnt_le_In _ _ _ EEe H))).
      * intros a b Hab Hb. destruct (Ene a b Hab) as [Na _].
        pose proof (CL a b (ecnt_le_In _ _ _ EEe Hab) Hb) as X. apply in_app_or in X. apply in_or_app.
        destruct X as [X|X]; [left|right; exact X]. eapply (remove_one_other Nat.eqb Nat.eqb_eq); eauto.
    + unfold g'. cbn. intros a Pa. apply (Hac a). eapply path_sub2; [exact Sub| |exact Pa].
      intros e He. eapply ecnt_le_In; eauto.
    + exact NS''.
    + unfold g'. cbn. intros x Hx. apply dget_In_keys. rewrite GP. destruct (Nat.eqb x nd) eqn:E.
      * apply Nat.eqb_eq in E. subst x. exfalso. apply Nnd, in_or_app. now left.
      * apply dget_In_keys, WP. eapply (remove_one_incl Nat.eqb Nat.eqb_eq); eauto.
  - intros n Hn Hl. unfold g'. cbn. unfold lk. rewrite GS. apply Nat.eqb_neq in Hn. rewrite Hn.
    fold (lk sd' n). destruct (lk sd' n) as [|y r] eqn:El; [reflexivity|]. exfalso.
    assert (cnt y (lk sd' n) > 0) by (rewrite El; apply cnt_pos_In; now left).
    pose proof (C1 y n) as Q. rewrite Hl in Q. cbn in Q. lia.
Qed.

Definition pre_disconnect_prev (g : graph) (l : list node) : Prop :=
  NoDup l /\ (forall x, In x l -> In x (g_wip g)) /\ (forall x, In x l -> lk (g_succs g) x = []).

Theorem remove_previous_connections_succeeds l : forall g,
  wf2 g -> pre_disconnect_prev g l ->
  exists g', remove_previous_connections g l = Ok g' /\ wf2 g' /\ g_nodes g' = g_nodes g.
Proof.
  unfold remove_previous_connections. induction l as [|nd l IH]; intros g W [Hnd [Hw Hp]]; cbn [foldM]; [eauto|].
  inversion Hnd as [|? ? Hx Hnd']; subst.
  destruct (remove_previous_one_succeeds g nd W (Hw nd (or_introl eq_refl)) (Hp nd (or_introl eq_refl)))
    as [g1 [R [W1 [En [Ew Hl]]]]].
  rewrite R. cbn [bind]. destruct (IH g1 W1) as [g' [R' [W' En']]].
  - split; [exact Hnd'|]. split.
    + intros x Hx'. eapply (remove_one_other Nat.eqb Nat.eqb_eq); [exact Ew| |apply Hw; now right]. intros ->. contradiction.
    + intros x Hx'. apply Hl; [intros ->; contradiction|apply Hp; now right].
  - exists g'. split; [exact R'|]. split; [exact W'|congruence].
Qed.

Lemma pre_disconnect_prev_of_spec g l : pre_opb g (RemovePreviousConnections l) = true -> pre_disconnect_prev g l.
Proof.
  cbn [pre_opb]. intros H. apply andb_true_iff in H. destruct H as [H H3]. apply andb_true_iff in H. destruct H as [H1 H2].
  split; [apply nodupb_NoDup, H1|]. split; [apply subsetb_incl, H2|].
  intros x Hx. rewrite forallb_forall in H3. specialize (H3 x Hx).
  rewrite lookup_lk in H3. destruct (lk (g_succs g) x); [reflexivity|discriminate].
Qed.

(* ================= step level, with the computable preconditions ================= *)
Definition removal_op (o : op) : bool :=
  match o with RemoveNodes _ _ | RemoveNodesConnections _ | RemovePreviousConnections _ => true | _ => false end.

Theorem wellformed_removal_step g o :
  wf2 g -> inv2 g -> removal_op o = true -> pre_opb g o = true ->
  exists g', step g o = Ok g' /\ wf2 g' /\ inv2 g' /\ sorted_ok g' /\ sorted_ok_preds g'.
Proof.
  intros W I2 K P.
  assert (S : exists g', step g o = Ok g' /\ wf2 g').
  { destruct o; try discriminate; cbn [step].
    - pose proof (pre_remove_nodes_of_spec g l check_ready P) as P'.
      destruct (remove_nodes_succeeds g l check_ready (proj1 W) P') as [g' [H _]].
      exists g'. split; [exact H|]. eapply remove_nodes_wf2; eauto.
    - destruct (remove_nodes_connections_succeeds l g W (pre_disconnect_of_spec g l P)) as [g' [H [W' _]]]. eauto.
    - destruct (remove_previous_connections_succeeds l g W (pre_disconnect_prev_of_spec g l P)) as [g' [H [W' _]]]. eauto. }
  destruct S as [g' [H W']]. exists g'. split; [exact H|]. split; [exact W'|].
  assert (D : dom_ok g o = true) by (destruct o; try discriminate; reflexivity).
  destruct (inv_step g o g' I2 D H) as [A [B C]]. auto.
Qed.

Fixpoint history_ok (g : graph) (ops : list op) : bool :=
  match ops with
  | [] => true
  | o :: r => removal_op o && pre_opb g o && match step g o with Ok g' => history_ok g' r | Err _ => true end
  end.

Theorem wellformed_removal_history ns es g0 ops :
  init ns es = Ok g0 -> acyclic ns es -> history_ok g0 ops = true ->
  exists g, run g0 ops = Ok g /\ sorted_ok g /\ sorted_ok_preds g.
Proof.
  intros Hi Ha.
  assert (W : wf2 g0) by (eapply init_wf2; eauto).
  assert (I2 : inv2 g0) by (eapply init_inv2; eauto).
  clear Hi Ha. revert g0 W I2. induction ops as [|o r IH]; intros g0 W I2 H.
  - exists g0. split; [reflexivity|]. split; intros s E.
    + apply sorted_valid_edges; auto.
    + apply sorted_valid_preds; auto. exact (proj1 I2).
  - cbn [history_ok] in H. apply andb_true_iff in H. destruct H as [H H3]. apply andb_true_iff in H. destruct H as [K P].
    destruct (wellformed_removal_step g0 o W I2 K P) as [g1 [S1 [W1 [I1 _]]]]. rewrite S1 in H3.
    destruct (IH g1 W1 I1 H3) as [g [R Q]]. exists g. split; [|exact Q].
    unfold run in *. cbn [foldM]. rewrite S1. cbn [bind]. exact R.
Qed.
