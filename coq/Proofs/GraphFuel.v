From Pydra Require Import Base.Prelude Model.Graph Spec.Graph Proofs.GraphBase.
Local Open Scope nat_scope.

(* The fuel of the traversal does not matter once it suffices: a result obtained with depth d is the result
   obtained with every larger depth.  So the choice depth = |keys| + 1 in remove_successors_nodes changes nothing
   but the point at which an endless recursion is reported. *)
Lemma foldM_mono {A S} (f g : S -> A -> result S) l :
  (forall s x r, In x l -> f s x = Ok r -> g s x = Ok r) ->
  forall s r, foldM f l s = Ok r -> foldM g l s = Ok r.
Proof.
  induction l as [|x l IH]; intros H s r E; [exact E|].
  cbn [foldM] in *. apply bind_ok in E. destruct E as [s' [E1 E2]].
  rewrite (H s x s' (or_introl eq_refl) E1). cbn [bind]. apply IH; [|exact E2].
  intros s0 y r0 Hy. apply H. right. exact Hy.
Qed.

Lemma succ_all_S d sd n :
  succ_all (S d) sd n =
  (sl <- of_opt EKey (dget sd n) ;; foldM (fun acc x => sx <- succ_all d sd x ;; Ok (acc ++ x :: sx)) sl []).
Proof. reflexivity. Qed.

Lemma succ_all_mono_S d sd : forall n l, succ_all d sd n = Ok l -> succ_all (S d) sd n = Ok l.
Proof.
  induction d as [|d IH]; intros n l E; [discriminate|].
  rewrite succ_all_S in E. rewrite (succ_all_S (S d)).
  apply bind_ok in E. destruct E as [sl [E1 E2]]. rewrite E1. cbn [bind].
  eapply foldM_mono; [|exact E2]. intros acc x r _ F.
  apply bind_ok in F. destruct F as [sx [F1 F2]]. rewrite (IH x sx F1). exact F2.
Qed.

Theorem succ_all_fuel_irrelevant d d' sd n l : d <= d' -> succ_all d sd n = Ok l -> succ_all d' sd n = Ok l.
Proof. induction 1 as [|m _ IH]; intros E; [exact E|]. apply succ_all_mono_S, IH, E. Qed.

(* and the only failure the fuel can cause is the RecursionError value: with more fuel an ERecursion may turn
   into a result, never a result into something else (contrapositive of the above) *)
Corollary succ_all_err_stable d d' sd n e : d <= d' -> succ_all d' sd n = Err e -> forall l, succ_all d sd n <> Ok l.
Proof. intros L E l F. rewrite (succ_all_fuel_irrelevant d d' sd n l L F) in E. discriminate. Qed.
