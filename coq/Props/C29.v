(* C29 — Jobs and results survive serialization to worker processes (partial: the model is thin; what
   cloudpickle does to concrete Python values is assumed [cp] and exercised by the correspondence run). *)
From Pydra Require Import Base.Prelude Model.Pickle Spec.Pickle Proofs.Pickle.
Local Open Scope string_scope.

(* For every class table (what each __getstate__ drops / blanks, what each __setstate__ recreates and pushes
   into held objects — read off the live classes by the driver), every object graph and every faithful
   cloudpickle: if the round trip succeeds, every attribute outside the transient sets is restored, at every
   depth.  *)
Theorem C29_roundtrip_nontransient :
  forall (t : list (string * descr)) (cp : nat -> option nat),
    (forall n m, cp n = Some m -> m = n) -> push_wfb t = true ->
    forall v v', rt (table t) cp v = Some v' -> survives (table t) v v'.
Proof. exact roundtrip_nontransient_table. Qed.
Print Assumptions C29_roundtrip_nontransient.

(* Job.checksum reads only `_checksum` and `task`; when neither is transient for the job's class the
   deserialized job has the same cache identity, whatever the task hash function is. *)
Theorem C29_identity_preserved :
  forall (t : list (string * descr)) (cp : nat -> option nat) (task_hash : val -> nat) c l v' n,
    (forall n m, cp n = Some m -> m = n) -> push_wfb t = true ->
    identity_safe (table t) c = true -> lookup "task" l = Some (VData n) ->
    rt (table t) cp (VObj c l) = Some v' ->
    checksum task_hash v' = checksum task_hash (VObj c l).
Proof. exact identity_preserved_table. Qed.
Print Assumptions C29_identity_preserved.

(* every constructor parameter of the job, submitter, worker, … (the list is read off the live signatures) is
   restored, provided the classes do not declare any of them transient — which the driver checks on the
   live table (config_safeb is part of the specification evaluated on every case) *)
Theorem C29_required_survive :
  forall t cp req c l v',
    (forall n m, cp n = Some m -> m = n) -> push_wfb t = true -> config_safeb t req = true ->
    rt (table t) cp (VObj c l) = Some v' ->
    exists l', v' = VObj c l' /\
      forall ks k, In (c, ks) req -> In k ks -> opt_rel (survives (table t)) (lookup k l) (lookup k l').
Proof. exact required_survive. Qed.
Print Assumptions C29_required_survive.

(* the round trip is defined exactly when no live resource sits outside the attributes __getstate__ removes
   or blanks (cloudpickle never failing on plain data) *)
Theorem C29_pickling_defined_iff :
  forall (desc : string -> descr) (cp : nat -> option nat), (forall n, cp n <> None) ->
    forall v, picklableb desc v = true <-> exists v', rt desc cp v = Some v'.
Proof. exact pickling_defined_iff. Qed.
Print Assumptions C29_pickling_defined_iff.

(* the comparison the driver evaluates on (object before, object observed in the other process) is sound *)
Theorem C29_check_sound :
  forall desc a b, survivesb desc a b = true -> survives desc a b.
Proof. exact survivesb_sound. Qed.
Print Assumptions C29_check_sound.

Theorem C29_example_table :
  push_wfb ex_table = true /\ identity_safe (table ex_table) "Job" = true /\
  picklableb (table ex_table) ex_job = true /\
  exists v', rt (table ex_table) Some ex_job = Some v' /\ survives (table ex_table) ex_job v'.
Proof.
  destruct ex_roundtrip as (A & B & C & D). repeat split; try assumption.
  eexists. split; [exact D|]. apply roundtrip_nontransient_table with (cp := Some); auto.
  intros n m H. inversion H. reflexivity.
Qed.
Print Assumptions C29_example_table.
