"""Harness side of the Group D (scheduling, C14-C17) correspondence: workflow / oracle generators,
batch execution of cases in fresh interpreters (harness.lib.fakeworker runs there), and the Gallina
encoders of graphs, oracles and observations for Model/Sched.v.
"""
import itertools
import json
import os
import subprocess
import tempfile

from . import coqio

IMPORTS = ["Base.SchedBase", "Model.Sched", "Spec.Sched"]


# --------------------------------------------------------------------------- running cases
def repo():
    return os.environ.get("VERIF_REPO", "/repo")


def run_batch(cases, timeout=None, nproc=4):
    """Run the cases (dicts, see fakeworker.run_case) in `nproc` fresh interpreters; returns the
    observations in order.  A batch that dies is reported as harness-error observations."""
    if not cases:
        return []
    nproc = max(1, min(nproc, len(cases)))
    if timeout is None:
        timeout = 300 + 30 * (len(cases) // nproc + 1)
    chunks = [list(range(i, len(cases), nproc)) for i in range(nproc)]
    tmp = tempfile.mkdtemp(prefix="verif-schedb-", dir="/tmp")
    procs = []
    env = dict(os.environ)
    env.update(PYTHONPATH="%s:%s" % (coqio.VERIF, repo()), PYTHONHASHSEED="0", NO_ET="1",
               PYTHONDONTWRITEBYTECODE="1")
    try:
        for n, idx in enumerate(chunks):
            fin = os.path.join(tmp, "in%d.json" % n)
            fout = os.path.join(tmp, "out%d.json" % n)
            with open(fin, "w") as f:
                json.dump([cases[i] for i in idx], f)
            p = subprocess.Popen(
                ["timeout", str(timeout), "/venv/bin/python", "-c",
                 "import sys; from harness.lib import fakeworker as f; f.main(['x', %r, %r])" % (fin, fout)],
                env=env, stdout=subprocess.DEVNULL, stderr=subprocess.PIPE, text=True, cwd="/tmp")
            procs.append((idx, fout, p))
        out = [None] * len(cases)
        for idx, fout, p in procs:
            _, err = p.communicate()
            if p.returncode == 0 and os.path.exists(fout):
                res = json.load(open(fout))
            else:
                res = [dict(outcome="harness-error", exc="batch", msg=(err or "")[-800:])] * len(idx)
            for i, r in zip(idx, res):
                out[i] = r
        return out
    finally:
        import shutil
        shutil.rmtree(tmp, ignore_errors=True)


# --------------------------------------------------------------------------- generators
def gen_nodes(rng, nmin=2, nmax=6, maxjobs=10, zero_p=0.06):
    """Random DAG: 2-6 nodes, each with <=3 predecessors among the earlier ones, some split 1-3 ways."""
    while True:
        n = rng.randint(nmin, nmax)
        nodes = []
        for i in range(n):
            cand = list(range(i))
            shape = rng.random()
            if not cand or shape < 0.25:
                preds = []
            else:
                preds = sorted(rng.sample(cand, min(len(cand), rng.choice([1, 1, 1, 2, 2, 3]))))
            split = rng.choice([None, None, None, 1, 2, 2, 3])
            if rng.random() < zero_p:
                split = 0            # a node with ZERO jobs (split over an empty list)
            nodes.append(dict(id=i, preds=preds, split=split))
        # relabel so that node ids are not in definition order everywhere
        if sum(njobs(nd) for nd in nodes) <= maxjobs:
            return nodes


def njobs(nd):
    if "njobs" in nd:
        return nd["njobs"]
    return 1 if nd["split"] is None else nd["split"]


def all_jobs(nodes):
    return [(nd["id"], (-1 if ("njobs" not in nd and nd["split"] is None) else i)) for nd in nodes
            for i in range(njobs(nd))]


def gen_state_nodes(rng):
    """A node split over three fields with a partial combiner, and a downstream node that inherits the remaining
    state and reads its group element-wise (the state-propagating shape of C03/C17)."""
    if rng.random() < 0.7:
        # the order-sensitive shape: combine one field, two state dimensions (each >= 2) remain
        dims = rng.choice([[2, 2, 2], [3, 2, 2], [2, 3, 2], [2, 2, 3]])
        comb = [rng.choice("pqr")]
    else:
        while True:
            dims = [rng.choice([1, 2, 2, 3]) for _ in range(3)]
            if 4 <= dims[0] * dims[1] * dims[2] <= 12:
                break
        comb = rng.choice([["p"], ["q"], ["r"], ["p", "q"], ["q", "r"], ["p", "r"]])
    rem = 1
    for f, d in zip("pqr", dims):
        if f not in comb:
            rem *= d
    return [dict(id=0, kind="s3", preds=[], dims=dims, combine=comb, njobs=dims[0] * dims[1] * dims[2]),
            dict(id=1, kind="down", preds=[0], njobs=rem)]


def gen_oracle(rng, nj, multi=0.2, visp=None):
    """Random oracle for a workflow with nj jobs (always long enough: 2*nj+4 steps)."""
    if visp is None:
        visp = rng.choice([0.0, 0.3, 0.6, 1.0])
    steps = []
    for _ in range(2 * nj + 4):
        cs = [rng.randrange(0, max(nj, 1))]
        while rng.random() < multi:
            cs.append(rng.randrange(0, max(nj, 1)))
        vis = [1 if rng.random() < visp else 0 for _ in range(nj)]
        steps.append(dict(c=cs, vis=vis))
    return steps


def gen_fail(rng, nodes, p_any=0.5, sizes=(1, 1, 2)):
    jobs = all_jobs(nodes)
    if rng.random() >= p_any or not jobs:
        return []
    return [list(j) for j in rng.sample(jobs, min(len(jobs), rng.choice(list(sizes))))]


def gen_k(rng, nj):
    return rng.choice([None] + list(range(1, max(nj, 1) + 1)))


# --------------------------------------------------------------------------- encoders
def jidx(x):
    return 0 if x < 0 else x


def enc_job(j):
    """(node id, index): accepts ('n3', -1) / (3, -1) / [..]."""
    n, x = j
    if isinstance(n, str):
        n = int(n[1:])
    return "(%d, %d)" % (n, jidx(int(x)))


def enc_jobs(js):
    return coqio.lst([enc_job(j) for j in js])


def ordered_nodes(nodes, order):
    """The case's nodes in graph.sorted_nodes order (names 'n<id>' reported by the implementation)."""
    byid = {nd["id"]: nd for nd in nodes}
    return [byid[int(nm[1:])] for nm in order]


def enc_graph(nodes_in_order):
    return coqio.lst(["(mkNode %d %s %d)" % (nd["id"], coqio.lst([str(p) for p in nd["preds"]]), njobs(nd))
                      for nd in nodes_in_order])


def enc_k(k):
    return "None" if k is None else "(Some %d)" % k


def enc_oracle(steps):
    return coqio.lst(["(mkStep %s %s)" % (coqio.lst([str(c) for c in (s.get("c") or [0])]),
                                          coqio.lst([coqio.boolean(bool(b)) for b in (s.get("vis") or [])]))
                      for s in steps])


def enc_nats(l):
    return coqio.lst([str(jidx(int(x))) for x in l])


def enc_snap(s):
    return "(%s, %s, %s, %s, %s, %s, %s)" % (
        coqio.boolean(s["started"]), enc_nats(s["blocked"]), enc_nats(s["queued"]), enc_nats(s["running"]),
        enc_nats(s["successful"]), enc_nats(s["errored"]), coqio.boolean(s["unrunnable"]))


def enc_polls(polls, order):
    out = []
    for p in polls:
        if "raised" in p:
            continue
        out.append("(%s, %s)" % (enc_jobs(p["tasks"]), coqio.lst([enc_snap(p["nodes"][nm]) for nm in order])))
    return coqio.lst(out)


def enc_tv(v, nodes_by_id):
    """[nid, x, a, b, c] -> T nid x [[Some ..]; ...]  (one inner list per predecessor)."""
    nid, x, a, b, c = v
    nd = nodes_by_id[nid]
    ins = []
    for p, val in zip(nd["preds"], (a, b, c)):
        pn = nodes_by_id[p]
        vals = val if pn["split"] is not None else [val]
        ins.append(coqio.lst(["(Some %s)" % enc_tv(u, nodes_by_id) for u in vals]))
    return "(T %d %d %s)" % (nid, jidx(x), coqio.lst(ins))


def enc_outputs(outputs, nodes, order_nodes):
    """outputs: per node of `nodes` (case order) its `out`; result: per node in sorted order the list of
    option values of its jobs."""
    byid = {nd["id"]: nd for nd in nodes}
    val = {nd["id"]: o for nd, o in zip(nodes, outputs)}
    out = []
    for nd in order_nodes:
        o = val[nd["id"]]
        vals = o if nd["split"] is not None else [o]
        enc = []
        for u in (vals if isinstance(vals, list) else [vals]):
            try:
                enc.append("(Some %s)" % enc_tv(u, byid))
            except (ValueError, TypeError, KeyError):
                enc.append("None")        # not the value of an executed job (e.g. [] for a job that never ran)
        if nd["split"] is None and vals == []:
            enc = ["None"]
        out.append(coqio.lst(enc))
    return coqio.lst(out)


def parse_named(names):
    """['n0(1)', 'n2'] -> [(0, 1), (2, -1)]"""
    out = []
    for nm in names:
        if "(" in nm:
            a, b = nm[:-1].split("(")
            out.append((int(a[1:]), int(b)))
        else:
            out.append((int(nm[1:]), -1))
    return out


def obs_status(obs):
    """0 = the loop ended by itself (ok, or errors collected), 1 = an exception escaped a poll / a job
    (sync), 2 = the stall detector fired."""
    if obs["outcome"] == "ok":
        return 0
    if "Something has gone wrong" in (obs.get("tb") or "") or "Something has gone wrong" in (obs.get("msg") or ""):
        return 2
    if obs.get("polls") and "raised" in obs["polls"][-1]:
        return 1
    return 0


def fuel_for(nodes):
    return 4 * (sum(njobs(nd) for nd in nodes) + len(nodes)) + 20


CASE_T = ("(graph * option nat * list job * list oracle_step * "
          "(nat * list (list job * list nsnap) * list (list job) * list event * list job * list (list (option tv))))")


def enc_log(evlog):
    out = []
    for e in evlog:
        if e[0] == "L":
            out.append("ELaunch %s" % enc_job(e[1]))
        else:
            out.append("EFinish %s %s" % (enc_job(e[1]), coqio.boolean(bool(e[2]))))
    return coqio.lst(out)


def enc_case(case, obs):
    """One observed run (async with the fake worker, or sync with the debug worker) as a Gallina term."""
    order_nodes = ordered_nodes(case["nodes"], obs["order"])
    st = obs_status(obs)
    errs = parse_named(obs.get("failed_named") or [])
    plain = case["mode"] in ("async", "sync", "cf")     # only these have outputs in the model's tree encoding
    outs = enc_outputs(obs["outputs"], case["nodes"], order_nodes) if (obs["outcome"] == "ok" and plain) else "[]"
    return "(%s, %s, %s, %s, (%d, %s, %s, %s, %s, %s))" % (
        enc_graph(order_nodes), enc_k(case.get("k")), enc_jobs([tuple(f) for f in case.get("fail") or []]),
        enc_oracle(case.get("oracle") or []), st, enc_polls(obs["polls"], obs["order"]),
        coqio.lst([enc_jobs(l) for l in obs["launches"]]), enc_log(obs["evlog"]), enc_jobs(errs), outs)


def defs(variant="repaired"):
    """Gallina definitions shared by the four drivers: the tie checks (model = implementation, for the
    asynchronous and the sequential loop) and the observation accessors used by the spec checks."""
    return """
Definition case_t := %s%%type.
Definition event_eqb (a b : event) : bool :=
  match a, b with
  | ELaunch j, ELaunch j' => job_eqb j j'
  | EFinish j o, EFinish j' o' => job_eqb j j' && Bool.eqb o o'
  | _, _ => false
  end.
Definition c_graph (c : case_t) : graph := let '(g, _, _, _, _) := c in g.
Definition c_k (c : case_t) : option nat := let '(_, k, _, _, _) := c in k.
Definition c_fails (c : case_t) : list job := let '(_, _, fl, _, _) := c in fl.
Definition c_status (c : case_t) : nat := let '(_, _, _, _, (st, _, _, _, _, _)) := c in st.
Definition c_log (c : case_t) : list event := let '(_, _, _, _, (_, _, _, lg, _, _)) := c in lg.
Definition c_errs (c : case_t) : list job := let '(_, _, _, _, (_, _, _, _, e, _)) := c in e.
Definition c_outs (c : case_t) : list (list (option tv)) := let '(_, _, _, _, (_, _, _, _, _, o)) := c in o.
Definition fuel_of (g : graph) : nat := 4 * (List.length (all_jobs g) + List.length g) + 20.
Definition run_of (c : case_t) :=
  let '(g, k, fl, orc, _) := c in run_async tv T (fails_of fl) %s g k orc (fuel_of g).
Definition sync_of (c : case_t) :=
  let '(g, k, fl, _, _) := c in run_sync tv T (fails_of fl) %s g k (fuel_of g).
Definition tie_async (c : case_t) : bool :=
  let '(g, k, fl, orc, (st, pl, it, lg, errs, outs)) := c in
  let o := run_of c in
  (status_code (o_status o) =? st)
  && list_eqb poll_eqb (if st =? 1 then removelast (poll_log o) else poll_log o) pl
  && list_eqb jobs_eqb (map snd (iterations o)) it
  && list_eqb event_eqb (event_log o) lg
  && same_set job_eqb (error_names o) errs
  && (if (st =? 0) && is_nil errs then outs_eqb (node_outputs g o) outs else true).
(* second submission with rerun=True over a cache that holds a result for every job *)
Definition warm_world (g : graph) : world tv := mkW (map (fun j => (j, Some (T 0 0 []))) (all_jobs g)) [].
Definition warm_of (c : case_t) :=
  let '(g, k, fl, orc, _) := c in run_async_warm tv T (fails_of fl) %s g k (warm_world g) orc (fuel_of g).
Definition tie_rerun (c : case_t) : bool :=
  let '(g, k, fl, orc, (st, pl, it, lg, errs, outs)) := c in
  let o := warm_of c in
  (status_code (o_status o) =? st)
  && list_eqb poll_eqb (poll_log o) pl
  && list_eqb jobs_eqb (map snd (iterations o)) it
  && list_eqb event_eqb (event_log o) lg.
(* scheduling only (state-propagating shapes: the outputs are compared outside Coq) *)
Definition tie_sched (c : case_t) : bool :=
  let '(g, k, fl, orc, (st, pl, it, lg, errs, outs)) := c in
  let o := run_of c in
  (status_code (o_status o) =? st)
  && list_eqb poll_eqb (poll_log o) pl
  && list_eqb jobs_eqb (map snd (iterations o)) it
  && list_eqb event_eqb (event_log o) lg.
Definition tie_sync (c : case_t) : bool :=
  let '(g, k, fl, orc, (st, pl, it, lg, errs, outs)) := c in
  let o := sync_of c in
  (status_code (o_status o) =? st)
  && list_eqb poll_eqb (poll_log o) pl
  && list_eqb event_eqb (event_log o) lg
  && (if (st =? 0) then outs_eqb (node_outputs g o) outs else true).
""" % (CASE_T, variant, variant, variant)


# --------------------------------------------------------------------------- the shared driver engine
def bud(ctx, q, t):
    """Case budget; the runner's x10 widening is capped at 3x the thorough budget (a widened thorough run must
    still finish in reasonable time)."""
    return min(ctx.budget(q, t), 3 * max(q, t))


def perm_oracles(nj, vis):
    """Every completion order of a workflow with nj jobs: c_t in range(nj - t) (c mod |pending| covers every
    choice because at step t at most nj - t futures are pending)."""
    for cs in itertools.product(*[range(nj - t) for t in range(nj)]):
        yield [dict(c=[c], vis=[vis] * nj) for c in cs]


SMALL = [
    # hand-picked small shapes: chain, fan-out/fan-in diamond with a split node, two independent chains
    [dict(id=0, preds=[], split=None), dict(id=1, preds=[0], split=2)],
    [dict(id=0, preds=[], split=2), dict(id=1, preds=[0], split=None), dict(id=2, preds=[], split=None)],
    [dict(id=0, preds=[], split=None), dict(id=1, preds=[0], split=None), dict(id=2, preds=[0], split=None),
     dict(id=3, preds=[1, 2], split=None)],
    [dict(id=0, preds=[], split=None), dict(id=1, preds=[], split=None), dict(id=2, preds=[1], split=None),
     dict(id=3, preds=[2], split=None)],
]


def make_cases(ctx, n_async, n_sync, n_exh, corpus=()):
    rng = ctx.rng
    cases = [dict(c) for c in corpus]
    # exhaustive completion orders on small shapes (sampled when the budget is smaller than the space)
    exh = []
    for nodes in SMALL:
        nj = sum(njobs(n) for n in nodes)
        fails = [[]] + [[list(j)] for j in all_jobs(nodes)]
        for fl in fails:
            for vis in (0, 1):
                for orc in perm_oracles(nj, vis):
                    exh.append(dict(nodes=nodes, k=None, fail=fl, oracle=orc, mode="async", exh=True))
    rng.shuffle(exh)
    cases += exh[:n_exh]
    for _ in range(n_async):
        nodes = gen_nodes(rng)
        nj = sum(njobs(n) for n in nodes)
        cases.append(dict(nodes=nodes, k=gen_k(rng, nj), fail=gen_fail(rng, nodes), oracle=gen_oracle(rng, nj),
                          mode="async"))
    for _ in range(n_sync):
        nodes = gen_nodes(rng)
        nj = sum(njobs(n) for n in nodes)
        cases.append(dict(nodes=nodes, k=gen_k(rng, nj), fail=gen_fail(rng, nodes, 0.3), oracle=[], mode="sync"))
    return cases, len(exh)


def case_key(case, obs):
    return json.dumps([case["nodes"], case.get("k"), sorted(map(tuple, case.get("fail") or [])), case["mode"],
                       obs.get("evlog"), [s.get("vis") for s in obs.get("steps") or []]], sort_keys=True)


def nontrivial(case):
    return len(case["nodes"]) >= 2 and any(n.get("preds") for n in case["nodes"]) and \
        sum(njobs(n) for n in case["nodes"]) >= 3


TIES = {"async": "tie_async", "sync": "tie_sync", "rerun": "tie_rerun", "state": "tie_sched", "coerce": "tie_sched", "hook": "tie_sched"}
NO_TIE = "(fun _ : case_t => true)"      # cf / rerun_gen / rerun_sync / rerun_cf / state_sync / state_cf: spec only


def evaluate(ctx, name, cases, obs, spec_defs, spec_fn, variant="repaired", shard=36):
    """Let Coq evaluate model (tie) and spec on every observed run.  Returns (bad, usable) where bad =
    {"tie": [case indices], "spec": [case indices]}.  All modes go into the same shard files (one list of cases
    and two Evals per mode present in the shard); the shards are compiled in parallel."""
    from concurrent.futures import ThreadPoolExecutor
    usable = [i for i, o in enumerate(obs) if o.get("outcome") in ("ok", "error") and o.get("order")]
    bad = {"tie": [], "spec": []}
    files = []
    for k in range(0, len(usable), shard):
        part = usable[k:k + shard]
        bymode = {}
        for i in part:
            bymode.setdefault(cases[i]["mode"], []).append(i)
        path = os.path.join(ctx.scratch.dir, "cases_%s_%d.v" % (name, k // shard))
        plan = []
        with open(path, "w") as f:
            f.write("From Pydra Require Import Base.Prelude %s.\n" % " ".join(IMPORTS))
            f.write("Set Printing Width 1000000.\nSet Printing Depth 1000000.\n")
            f.write(defs(variant) + spec_defs + "\n")
            for n, (mode, idx) in enumerate(sorted(bymode.items())):
                enc = []
                for i in idx:
                    o = obs[i]
                    if mode == "sync" and o["outcome"] == "error":
                        o = dict(o, polls=o["polls"] + [dict(raised="job")])  # status 1: the job's exception escaped
                    enc.append(enc_case(cases[i], o))
                f.write("Definition cases%d : list case_t :=\n [%s]%%list.\n" % (n, ";\n  ".join(enc)))
                f.write("Eval vm_compute in (bad (%s) cases%d).\n" % (TIES.get(mode, NO_TIE), n))
                f.write("Eval vm_compute in (bad (%s) cases%d).\n" % (spec_fn, n))
                plan.append(idx)
        files.append((path, plan))

    def comp(item):
        path, plan = item
        rc, out, _ = coqio.coqc(path, 900)
        return path, plan, rc, out

    errors = []
    with ThreadPoolExecutor(max_workers=8) as ex:
        for path, plan, rc, out in ex.map(comp, files):
            vals = coqio.split_evals(out) if rc == 0 else []
            if rc != 0 or len(vals) != 2 * len(plan):
                errors.append((path, out[-2000:]))
                continue
            for n, idx in enumerate(plan):
                bad["tie"] += [idx[j] for j in coqio.parse_nat_list(vals[2 * n])]
                bad["spec"] += [idx[j] for j in coqio.parse_nat_list(vals[2 * n + 1])]
    if errors:
        raise coqio.CoqCaseError(errors)
    bad["tie"].sort()
    bad["spec"].sort()
    return bad, usable


def model_values(ctx, case, obs, terms, spec_defs="", variant="repaired"):
    """Printed values of Gallina terms over `c` (the encoded case), for replay files."""
    o = obs
    if case["mode"] == "sync" and o["outcome"] == "error":
        o = dict(o, polls=o["polls"] + [dict(raised="job")])
    extra = defs(variant) + spec_defs + "\nDefinition c : case_t := %s.\n" % enc_case(case, o)
    return coqio.eval_terms(ctx.scratch, "rv%d" % (abs(hash(json.dumps(case, sort_keys=True))) % 10**8), IMPORTS, terms,
                            extra=extra)


def drive(ctx, name, spec_defs, n_async, n_sync, n_exh, rule, spec_note, fail_p=0.5, force_k=False, extra_cases=(),
          model_terms=None, nproc=None, classify=None):
    """The common part of the four drivers: build cases (corpus first), run them in fresh interpreters,
    let Coq evaluate tie and spec, fill an Outcome.  Returns (outcome, cases, obs, usable, bad)."""
    from .runner import Outcome, Failure
    rng = ctx.rng
    corpus = [c["case"] if "case" in c else c for c in ctx.corpus()]
    cases, exh_total = make_cases(ctx, n_async, n_sync, n_exh, corpus)
    for c in cases[len(corpus):]:
        if c["mode"] == "async" and not c.get("exh"):
            nj = sum(njobs(n) for n in c["nodes"])
            if force_k and c.get("k") is None:
                c["k"] = rng.randint(1, max(1, nj - 1))
            if fail_p != 0.5:
                c["fail"] = gen_fail(rng, c["nodes"], fail_p)
        if c.get("exh") and fail_p == 0.0:
            c["fail"] = []
        if c["mode"] == "sync" and fail_p == 0.0:
            c["fail"] = []
    cases += [dict(c) for c in extra_cases]
    import time as _t
    t0 = _t.time()
    obs = run_batch(cases, nproc=nproc or (6 if ctx.tier == "thorough" else 4))
    # cases the harness could not drive (watchdog under load, a dead interpreter) are retried once, alone
    redo = [i for i, o in enumerate(obs) if o.get("outcome") not in ("ok", "error")]
    for i, o in zip(redo, run_batch([cases[i] for i in redo], nproc=2) if redo else []):
        obs[i] = o
    t1 = _t.time()
    bad, usable = evaluate(ctx, name, cases, obs, spec_defs, "spec_ok")
    t2 = _t.time()
    out = Outcome(rule=rule)
    seen = set()
    dist = {"async": 0, "sync": 0, "cf": 0, "with_failures": 0, "k_limited": 0, "exhaustive_small": 0,
            "harness_errors": 0, "jobs_total": 0, "status_ok": 0, "status_error": 0, "multi_completion_steps": 0,
            "seen_running": 0}
    for i in usable:
        c, o = cases[i], obs[i]
        out.evaluations += 1
        dist[c["mode"]] = dist.get(c["mode"], 0) + 1
        dist["with_failures"] += bool(c.get("fail"))
        dist["k_limited"] += c.get("k") is not None
        dist["exhaustive_small"] += bool(c.get("exh"))
        dist["jobs_total"] += sum(njobs(n) for n in c["nodes"])
        dist["status_ok" if o["outcome"] == "ok" else "status_error"] += 1
        dist["multi_completion_steps"] += sum(len(s["done"]) > 1 for s in o.get("steps") or [])
        dist["seen_running"] += sum(len(s["vis"]) for s in o.get("steps") or [])
        k = case_key(c, o)
        if k not in seen:
            seen.add(k)
            out.distinct_nontrivial += nontrivial(c)
    dist["harness_errors"] = len(cases) - len(usable)
    out.traces_validated = len(usable)
    out.distribution = dist
    out.samples = [{"case": {k: v for k, v in cases[i].items() if k != "oracle"}, "observed": slim(obs[i])}
                   for i in usable[:3]]
    out.extra = {"exhaustive_space_small_shapes": exh_total,
                 "timing_s": {"implementation_runs": round(t1 - t0, 1), "coq_evaluation": round(t2 - t1, 1)}}
    for i, o in enumerate(obs):
        if i not in usable:
            out.failures.append(Failure(case=cases[i], observed=o, expected="a run", kind="tie",
                                        note="the implementation could not be driven (harness error)"))
    for kind in ("spec", "tie"):
        chosen = bad[kind][:6]
        if classify and kind == "spec":
            # one example per finding class, and every unclassified one
            seen_f, chosen = set(), []
            for i in bad[kind]:
                f = classify(cases[i], obs[i])
                if f is None or f not in seen_f:
                    chosen.append(i)
                    seen_f.add(f)
            chosen = chosen[:8]
        for i in chosen:
            m = cases[i]["mode"]
            terms = ["event_log (sync_of c)" if m == "sync" else ("event_log (warm_of c)" if m.startswith("rerun") else
                                                                  "event_log (run_of c)"), "spec_ok c"]
            terms += list(model_terms or [])
            try:
                vals = model_values(ctx, cases[i], obs[i], terms, spec_defs)
            except Exception as e:  # noqa
                vals = ["(could not evaluate: %s)" % str(e)[:200]] * len(terms)
            out.failures.append(Failure(
                case=cases[i], observed=slim(obs[i]),
                expected=dict(zip(["model_event_log", "spec_holds_on_observation"] + list(model_terms or []), vals)),
                kind=kind, finding=(classify(cases[i], obs[i]) if (classify and kind == "spec") else None),
                note=(spec_note if kind == "spec"
                      else "Model.Sched run != implementation (polls, launches, log, errors or outputs)")))
    return out, cases, obs, usable, bad


def replay_case(ctx, payload, spec_defs):
    case = payload["case"]
    o = run_batch([case], nproc=1)[0]
    print("implementation:", json.dumps(slim(o), default=repr)[:3000])
    if case["mode"] == "cf":
        print("cf run: peak concurrency", o.get("cf_peak"), "outputs", o.get("outputs"))
    m = case["mode"]
    terms = ["event_log (sync_of c)" if m == "sync" else ("event_log (warm_of c)" if m.startswith("rerun") else
                                                          "event_log (run_of c)"), "spec_ok c"]
    tie = {k: v + " c" for k, v in TIES.items()}.get(m)
    if tie:
        terms.append(tie)
    vals = model_values(ctx, case, o, terms, spec_defs)
    print("model event log:", vals[0])
    print("spec on the observation:", vals[1])
    if len(vals) > 2:
        print("model = implementation:", vals[2])


def slim(obs):
    return {k: obs.get(k) for k in ("outcome", "exc", "failed_named", "evlog", "launches", "steps", "outputs", "maxlive",
                                    "order", "msg", "cf_peak", "cf_bodies", "generations", "hook_calls") if k in obs}
