import json, os, sys
import importlib
HOOK_COMMITS = [l.strip() for l in open(os.path.join(os.path.dirname(os.path.dirname(os.path.dirname(os.path.abspath(__file__)))), 'hooks_commits.txt')) if l.strip()]
VERIF = os.path.dirname(os.path.dirname(os.path.dirname(os.path.abspath(__file__))))

def main():
    props = [json.loads(l) for l in open(os.path.join(VERIF, "properties.jsonl"))]
    checks, na = [], []
    for p in props:
        pid = p["id"]
        ok = (os.path.exists(os.path.join(VERIF, "harness", pid.lower() + ".py"))
              and os.path.exists(os.path.join(VERIF, "coq", "Props", pid + ".v")))
        c = None
        if ok:
            c = getattr(importlib.import_module("harness." + pid.lower()), "MANIFEST", None)
        if not c:
            na.append({"property_id": pid, "reason": "model, theorems and correspondence driver not finished yet (see DESIGN.md §8); not claimed until they exist and pass on the unchanged tree"})
            continue
        checks.append({
            "property_id": pid,
            "quick_cmd": "./check %s --tier quick" % pid,
            "thorough_cmd": "./check %s --tier thorough" % pid,
            "evidence_file": "/verif/evidence/%s.json" % pid,
            "replay_cmd_template": "./check %s --replay {path}" % pid,
            "engine": "coq-model-correspondence",
            "level_claimed": {"category": "proof", "text": c["text"], "design_ref": c["design"]},
            "level_note": c["note"],
            "technique": c["technique"],
        })
    m = {
        "version": 1,
        "setup_cmd": "/verif/coq/pregen.sh && /verif/coq/build.sh",
        "hooks": {
            "guard": "NIPYPE_PYDRA_VERIF",
            "enable": "export NIPYPE_PYDRA_VERIF=1 (done by /verif/check); the package is imported from /repo's working tree via PYTHONPATH=/repo, nothing is built",
            "baseline_off_cmd": "cd /repo && env -u NIPYPE_PYDRA_VERIF /venv/bin/python -m pytest -ra -q -p no:cacheprovider --timeout=900 --continue-on-collection-errors",
            "source_commits": HOOK_COMMITS,
            "add_only": True,
        },
        "engines": [{
            "name": "coq-model-correspondence",
            "path": "/verif/check",
            "serves_properties": [c["property_id"] for c in checks],
            "kind_free_text": "Rocq/Coq 8.16.1 development under /verif/coq (Model, Spec, Proofs, Props) + Python correspondence drivers under /verif/harness that run /repo's implementation and evaluate model and spec on the same cases inside Coq with vm_compute",
        }],
        "checks": checks,
        "notes": "Every check: (a) rebuilds and re-checks the property's theorems (make, Print Assumptions, forbidden-vernacular gate); (b) ties the hand-written model to /repo's working tree by differential execution on generated cases evaluated inside Coq; (c) compares the implementation with the executable spec to find a concrete failing input. See DESIGN.md.",
        "not_applicable": na,
    }
    with open(os.path.join(VERIF, "MANIFEST.json"), "w") as f:
        json.dump(m, f, indent=1)
    print("claimed:", len(checks), "not claimed:", len(na))

if __name__ == "__main__":
    main()
