(* C33 — Workflow output files are collected without clashes or loss.
   copy_one stands for fileformats' FileSet.copy; copy_contract (Proofs/CopyFiles.v) is what is assumed of
   it; ff_copy (Model/CopyFiles.v) is the model of fileformats' algorithm for single-path file-sets, proved
   to meet the contract and compared with the real FileSet.copy on every run. *)
From Pydra Require Import Base.Prelude Base.PyPath Model.Mount Model.CopyFiles Spec.CopyFiles Proofs.CopyFiles.

(* for every mount table, target directory, initial file system (whatever the directory already holds) and
   list of output values whose files exist: collection succeeds and the result meets the spec [collected]
   (shape, class, inside the directory, content, sources intact, hard link or independent copy as the
   mounts allow, distinct sources -> distinct destinations) *)
Definition C33_full_statement : Prop :=
  forall (tab : table) (dest : string) (fs0 : fsT) (fields : list value),
    sources_exist fs0 fields ->
    exists outs fs1 av, copyfile_workflow ff_copy tab dest fields fs0 = Ok (outs, fs1, av)
                        /\ collected tab dest fs0 fs1 fields (map fst outs).

Theorem C33_full : C33_full_statement.
Proof. exact c33_full. Qed.
Print Assumptions C33_full.

(* the same for any implementation of FileSet.copy that meets the contract, whenever it succeeds *)
Theorem C33_collected :
  forall copy_one, copy_contract copy_one ->
  forall tab dest fs0 fields outs fs1 av,
    sources_exist fs0 fields ->
    copyfile_workflow copy_one tab dest fields fs0 = Ok (outs, fs1, av) ->
    collected tab dest fs0 fs1 fields (map fst outs).
Proof. exact c33_collected. Qed.
Print Assumptions C33_collected.

Theorem C33_shape :
  forall copy_one, copy_contract copy_one ->
  forall tab dest fs0 fields outs fs1 av,
    sources_exist fs0 fields ->
    copyfile_workflow copy_one tab dest fields fs0 = Ok (outs, fs1, av) ->
    Forall2 (fun v v' => same_shape v v' = true) fields (map fst outs).
Proof. intros. eapply c_shape, c33_collected; eauto. Qed.
Print Assumptions C33_shape.

Theorem C33_injective :
  forall copy_one, copy_contract copy_one ->
  forall tab dest fs0 fields outs fs1 av,
    sources_exist fs0 fields ->
    copyfile_workflow copy_one tab dest fields fs0 = Ok (outs, fs1, av) ->
    forall s1 d1 s2 d2,
      In (s1, d1) (all_pairs fields (map fst outs)) -> In (s2, d2) (all_pairs fields (map fst outs)) ->
      snd d1 = snd d2 -> snd s1 = snd s2.
Proof. intros until 3. eapply c_inj, c33_collected; eauto. Qed.
Print Assumptions C33_injective.

Theorem C33_content :
  forall copy_one, copy_contract copy_one ->
  forall tab dest fs0 fields outs fs1 av,
    sources_exist fs0 fields ->
    copyfile_workflow copy_one tab dest fields fs0 = Ok (outs, fs1, av) ->
    forall s d, In (s, d) (all_pairs fields (map fst outs)) ->
      fst (snd d) = dest /\ read fs0 (snd s) <> None
      /\ read fs1 (snd d) = read fs0 (snd s) /\ read fs1 (snd s) = read fs0 (snd s).
Proof.
  intros copy_one HC tab dest fs0 fields outs fs1 av S E s d I.
  destruct (c_leaf _ _ _ _ _ _ (c33_collected _ HC _ _ _ _ _ _ _ S E) _ _ I) as (_ & A & B & C & D & _). auto.
Qed.
Print Assumptions C33_content.

(* the model of fileformats' algorithm meets the contract; with it collection never fails *)
Theorem C33_ff_contract : copy_contract ff_copy.
Proof. exact ff_copy_contract. Qed.
Print Assumptions C33_ff_contract.

Theorem C33_total :
  forall tab dest fs0 fields, sources_exist fs0 fields ->
  exists r, copyfile_workflow ff_copy tab dest fields fs0 = Ok r.
Proof. exact c33_total. Qed.
Print Assumptions C33_total.

(* result.save then writes `_result.pklz` (and the engine keeps `_job.pklz`, `_error.pklz`, `_return_values.pklz`)
   in the same directory: those names are in the initial clash set, so no collected file has one of them and
   the later write — a new file — leaves every collected file and every source with its content *)
Theorem C33_save_safe :
  forall copy_one, copy_contract copy_one ->
  forall tab dest fs0 fields outs fs1 av n c,
    sources_exist fs0 fields ->
    copyfile_workflow copy_one tab dest fields fs0 = Ok (outs, fs1, av) ->
    In n reserved_names -> ino_of fs0 (dest, n) = None ->
    forall s d, In (s, d) (all_pairs fields (map fst outs)) ->
      snd d <> (dest, n)
      /\ read (dump fs1 (dest, n) c) (snd d) = read fs0 (snd s)
      /\ read (dump fs1 (dest, n) c) (snd s) = read fs0 (snd s).
Proof. exact c33_save_safe. Qed.
Print Assumptions C33_save_safe.
