(* Proofs/CacheSeqMut.v — C19: an in-place change of an input is detected by the post-run
   hash check, up to the two ways a hash can miss a change; identity is that of the original. *)
From Pydra Require Import Base.Prelude Model.CacheSeq Spec.CacheSeq.
Local Open Scope bool_scope.

(* ------------------------------------------------------------------ induction over values *)
Section PyvalInd.
  Variable P : pyval -> Prop.
  Hypothesis HI : forall n, P (VInt n).
  Hypothesis HS : forall s, P (VStr s).
  Hypothesis HL : forall xs, Forall P xs -> P (VList xs).
  Hypothesis HA : forall s d, P (VArr s d).
  Hypothesis HF : forall p c, P (VFile p c).
  Fixpoint pyval_ind2 (v : pyval) : P v :=
    match v with
    | VInt n => HI n
    | VStr s => HS s
    | VList xs => HL xs ((fix go (l : list pyval) : Forall P l :=
                            match l with [] => Forall_nil P | x :: r => Forall_cons x (pyval_ind2 x) (go r) end) xs)
    | VArr s d => HA s d
    | VFile p c => HF p c
    end.
End PyvalInd.

(* ------------------------------------------------------------------ the encoding is prefix free *)
Lemma app_same_length {A} (a b r r' : list A) :
  List.length a = List.length b -> a ++ r = b ++ r' -> a = b /\ r = r'.
Proof.
  revert b. induction a as [|x a IH]; intros [|y b] HL E; cbn in *; try discriminate; [auto|].
  injection E as -> E. injection HL as HL. destruct (IH b HL E) as [-> ->]. auto.
Qed.

Lemma nat_of_ascii_inj a b : nat_of_ascii a = nat_of_ascii b -> a = b.
Proof. intros H. rewrite <- (ascii_nat_embedding a), <- (ascii_nat_embedding b). now rewrite H. Qed.

Lemma map_nat_of_ascii_inj a b : map nat_of_ascii a = map nat_of_ascii b -> a = b.
Proof.
  revert b. induction a as [|x a IH]; intros [|y b] E; cbn in *; try discriminate; [reflexivity|].
  injection E as E1 E2. f_equal; [now apply nat_of_ascii_inj|now apply IH].
Qed.

Lemma string_chars_inj s t : list_ascii_of_string s = list_ascii_of_string t -> s = t.
Proof. intros H. rewrite <- (string_of_list_ascii_of_string s), <- (string_of_list_ascii_of_string t). now rewrite H. Qed.

Lemma string_length_chars s : List.length (map nat_of_ascii (list_ascii_of_string s)) = String.length s.
Proof. rewrite map_length. induction s; cbn; auto. Qed.

Definition prefix_free (v : pyval) : Prop :=
  forall v' r r', ser true v ++ r = ser true v' ++ r' -> v = v' /\ r = r'.

Lemma flat_ser_prefix_free xs : Forall prefix_free xs ->
  forall ys r r', List.length xs = List.length ys ->
    flat_map (ser true) xs ++ r = flat_map (ser true) ys ++ r' -> xs = ys /\ r = r'.
Proof.
  induction 1 as [|x xs Hx _ IH]; intros [|y ys] r r' HL E; cbn in *; try discriminate; [auto|].
  rewrite <- !app_assoc in E. destruct (Hx y _ _ E) as [-> E'].
  injection HL as HL. destruct (IH ys r r' HL E') as [-> ->]. auto.
Qed.

Theorem ser_prefix_free v : prefix_free v.
Proof.
  induction v as [n|s|xs IH|sh d|p c] using pyval_ind2; intros v' r r' E;
    destruct v' as [n'|s'|xs'|sh' d'|p' c']; cbn in E; try discriminate.
  - injection E as -> ->. auto.
  - injection E as HL E.
    destruct (app_same_length _ _ _ _ ltac:(rewrite !string_length_chars; exact HL) E) as [E1 ->].
    apply map_nat_of_ascii_inj, string_chars_inj in E1. subst. auto.
  - injection E as HL E. destruct (flat_ser_prefix_free xs IH xs' r r' HL E) as [-> ->]. auto.
  - injection E as HL E. rewrite <- !app_assoc in E.
    destruct (app_same_length _ _ _ _ HL E) as [-> E2]. cbn in E2. injection E2 as HL2 E2.
    destruct (app_same_length _ _ _ _ HL2 E2) as [-> ->]. auto.
  - injection E as HL E. rewrite <- !app_assoc in E.
    destruct (app_same_length _ _ _ _ ltac:(rewrite !string_length_chars; exact HL) E) as [E1 E2].
    apply map_nat_of_ascii_inj, string_chars_inj in E1. cbn in E2. injection E2 as -> ->. subst. auto.
Qed.

Corollary ser_injective x y : ser true x = ser true y -> x = y.
Proof.
  intros E. destruct (ser_prefix_free x y [] []) as [-> _]; [now rewrite !app_nil_r|reflexivity].
Qed.

(* ------------------------------------------------------------------ detection *)
Section Detect.
  Variable sh : bool.
  Variable H : list nat -> nat.

  Lemma no_change_digests i i' :
    same_shape i i' -> hash_changes sh H (field_hashes sh H i) i' = [] ->
    Forall2 (fun f f' => fst f = fst f' /\ digest sh H (snd f) = digest sh H (snd f')) i i'.
  Proof.
    revert i'. induction i as [|[k x] i IH]; intros [|[k' y] i'] Hs Hc; cbn in *; try contradiction; [constructor|].
    destruct Hs as [-> Hs].
    destruct (Nat.eqb_spec (digest sh H x) (digest sh H y)) as [E|]; [|discriminate].
    constructor; [cbn; auto|now apply IH].
  Qed.

  (* no report => every field is unchanged, or the encoding / the hash missed the change *)
  Theorem undetected_means_unchanged_or_missed i i' :
    same_shape i i' -> hash_changes sh H (field_hashes sh H i) i' = [] ->
    (forall x y : pyval, x = y \/ x <> y) ->
    unchanged_or_missed (ser sh) H i i'.
  Proof.
    intros Hs Hc Hdec. pose proof (no_change_digests i i' Hs Hc) as F. clear Hs Hc.
    induction F as [|[k x] [k' y] i i' [_ Hd] _ IH]; cbn; [exact I|]. split; [|exact IH].
    cbn in Hd. unfold digest in Hd.
    destruct (Hdec x y) as [->|Hne]; [now left|right].
    destruct (list_eq_dec Nat.eq_dec (ser sh x) (ser sh y)) as [E|E].
    - now apply NotDiscriminated.
    - now apply Collision.
  Qed.

  (* a reported field really differs *)
  Theorem reported_fields_differ i i' k :
    same_shape i i' -> In k (hash_changes sh H (field_hashes sh H i) i') ->
    exists x y, In (k, x) i /\ In (k, y) i' /\ x <> y.
  Proof.
    revert i'. induction i as [|[k0 x] i IH]; intros [|[k' y] i'] Hs Hin; cbn in *; try contradiction.
    destruct Hs as [-> Hs].
    destruct (Nat.eqb_spec (digest sh H x) (digest sh H y)) as [E|E].
    - destruct (IH i' Hs Hin) as (a & b & H1 & H2 & H3). exists a, b. auto.
    - destruct Hin as [<-|Hin].
      + exists x, y. repeat split; auto. intros ->. now apply E.
      + destruct (IH i' Hs Hin) as (a & b & H1 & H2 & H3). exists a, b. auto.
  Qed.
End Detect.

Lemma pyval_eq_dec_all : forall x y : pyval, x = y \/ x <> y.
Proof.
  induction x as [n|s|xs IH|sh d|p c] using pyval_ind2; intros [n'|s'|xs'|sh' d'|p' c']; try (right; discriminate).
  - destruct (Nat.eq_dec n n') as [->|]; [now left|right; congruence].
  - destruct (string_dec s s') as [->|]; [now left|right; congruence].
  - assert (Hl : xs = xs' \/ xs <> xs').
    { revert xs'. induction IH as [|x xs Hx _ IHl]; intros [|y ys]; try (right; discriminate); [now left|].
      destruct (Hx y) as [->|]; [|right; congruence]. destruct (IHl ys) as [->|]; [now left|right; congruence]. }
    destruct Hl as [->|]; [now left|right; congruence].
  - destruct (list_eq_dec Nat.eq_dec sh sh') as [->|]; [|right; congruence].
    destruct (list_eq_dec Nat.eq_dec d d') as [->|]; [now left|right; congruence].
  - destruct (string_dec p p') as [->|]; [|right; congruence].
    destruct (Nat.eq_dec c c') as [->|]; [now left|right; congruence].
Qed.

(* with the shape hashed the encoding discriminates every two values: only a collision of H
   itself can hide an in-place change *)
Theorem detect_or_unchanged H i i' :
  same_shape i i' -> hash_changes true H (field_hashes true H i) i' = [] ->
  Forall2 (fun f f' => snd f = snd f' \/ (ser true (snd f) <> ser true (snd f') /\ H (ser true (snd f)) = H (ser true (snd f')))) i i'.
Proof.
  intros Hs Hc. pose proof (no_change_digests true H i i' Hs Hc) as F. clear Hs Hc.
  induction F as [|[k x] [k' y] i i' [_ Hd] _ IH]; [constructor|]. constructor; [|exact IH]. cbn in *. unfold digest in Hd.
  destruct (list_eq_dec Nat.eq_dec (ser true x) (ser true y)) as [E|E]; [left; now apply ser_injective|right; auto].
Qed.

(* when the tree does not hash the shape, an in-place reshape is invisible (finding F08a of C08) *)
Definition detect_statement (sh : bool) : Prop :=
  forall H i i', same_shape i i' -> hash_changes sh H (field_hashes sh H i) i' = [] ->
    Forall2 (fun f f' => snd f = snd f' \/ (ser sh (snd f) <> ser sh (snd f') /\ H (ser sh (snd f)) = H (ser sh (snd f')))) i i'.

Theorem detect_refuted_without_shape : ~ detect_statement false.
Proof.
  intros St.
  specialize (St (fun l => List.length l) [("x"%string, VArr [2; 3] [0; 0; 0; 0; 0; 0])] [("x"%string, VArr [3; 2] [0; 0; 0; 0; 0; 0])]).
  cbn in St. specialize (St (conj eq_refl I) eq_refl).
  inversion St as [|? ? ? ? [E|[E _]] _]; subst; [discriminate|now apply E].
Qed.

(* the directory name is that of the inputs as submitted, whatever the body does; with
   raise_errors the caller is told exactly when a change was detected *)
Theorem identity_of_original sh H re late shared i f g :
  fst (fst (run_with_check sh H re late shared i f)) = checksum sh H i /\
  fst (fst (run_with_check sh H re late shared i f)) = fst (fst (run_with_check sh H re late shared i g)).
Proof. split; reflexivity. Qed.

Theorem reported_iff_detected sh H late shared i f :
  snd (run_with_check sh H true late shared i f) = snd (fst (run_with_check sh H true late shared i f)).
Proof. unfold run_with_check. cbn. apply andb_true_r. Qed.

(* "an in-place modification is reported as an error", for every way of submitting: refuted
   on the current tree — without raise_errors the RuntimeError is logged and the stored
   (successful) result is returned (finding F19) *)
Definition reported_statement : Prop :=
  forall sh H re late shared i f,
    snd (fst (run_with_check sh H re late shared i f)) = true -> snd (run_with_check sh H re late shared i f) = true.

Theorem swallowed_without_raise_errors : ~ reported_statement.
Proof.
  intros St.
  specialize (St true (fun l => List.length l + hd 0 (rev l)) false false true [("x"%string, VList [VInt 1])] (fun _ => [("x"%string, VList [VInt 1; VInt 99])])).
  vm_compute in St. specialize (St eq_refl). discriminate.
Qed.

(* copy mode: the body gets a different file; writing it leaves the original as it was *)
Lemma append_longer a b : String.length (a ++ b) = String.length a + String.length b.
Proof. induction a; cbn; auto. Qed.

Theorem copy_leaves_original f jobdir orig c :
  let '(f1, dest) := stage_copy f jobdir orig in
  dest <> orig /\ f1 dest = f orig /\ fs_set f1 dest c orig = f orig.
Proof.
  unfold stage_copy. cbn.
  assert (Hne : (jobdir ++ "/" ++ orig)%string <> orig).
  { intros E. apply (f_equal String.length) in E. rewrite !append_longer in E. cbn in E. lia. }
  repeat split; [exact Hne| |].
  - unfold fs_set. now rewrite String.eqb_refl.
  - unfold fs_set. apply String.eqb_neq in Hne. cbn in Hne |- *. now rewrite !Hne.
Qed.

Example mutation_examples :
  let H := fun l : list nat => fold_left (fun a x => 2 * a + x) l 0 in
  let i := [("x"%string, VList [VInt 1; VInt 2]); ("a"%string, VArr [2; 3] [0; 0; 0; 0; 0; 0])] in
  (* list append: detected *)
  snd (fst (run_with_check true H true false true i (fun _ => [("x"%string, VList [VInt 1; VInt 2; VInt 99]); ("a"%string, VArr [2; 3] [0; 0; 0; 0; 0; 0])]))) = true /\
  (* reshape: detected when the shape is hashed, invisible otherwise *)
  snd (fst (run_with_check true H true false true i (fun _ => [("x"%string, VList [VInt 1; VInt 2]); ("a"%string, VArr [3; 2] [0; 0; 0; 0; 0; 0])]))) = true /\
  snd (fst (run_with_check false H true false true i (fun _ => [("x"%string, VList [VInt 1; VInt 2]); ("a"%string, VArr [3; 2] [0; 0; 0; 0; 0; 0])]))) = false /\
  (* nothing touched: nothing reported *)
  snd (fst (run_with_check true H true false true i (fun x => x))) = false.
Proof. repeat split; vm_compute; reflexivity. Qed.
