(* Proofs/Nested.v — lemmas for C04 (nested containers). *)
From Pydra Require Import Base.Prelude Model.Nested Spec.Nested.
Local Open Scope nat_scope.

(* ------------------------------------------------------------------ generic list facts *)

Lemma sequence_map_Some {A} (l : list A) : sequence (map Some l) = Some l.
Proof. induction l as [|x l IH]; cbn; [reflexivity| now rewrite IH]. Qed.

Lemma sequence_length {A} (l : list (option A)) r : sequence l = Some r -> List.length r = List.length l.
Proof.
  revert r. induction l as [|[x|] l IH]; cbn; intros r H.
  - inversion H; reflexivity.
  - destruct (sequence l) as [r'|]; [|discriminate]. inversion H; subst. cbn. now rewrite (IH r').
  - discriminate.
Qed.

Lemma map_nth_error_seq {A} (xs : list A) :
  map (nth_error xs) (seq 0 (List.length xs)) = map Some xs.
Proof.
  induction xs as [|a xs IH]; [reflexivity|].
  cbn [List.length seq map nth_error]. f_equal.
  rewrite <- seq_shift, map_map. exact IH.
Qed.

Lemma length_flat_map_const {A B} (g : A -> list B) k l :
  Forall (fun v => List.length (g v) = k) l -> List.length (flat_map g l) = List.length l * k.
Proof.
  induction 1 as [|v l Hv _ IH]; [reflexivity|].
  cbn [flat_map List.length]. rewrite app_length, Hv, IH. lia.
Qed.

Lemma nat_list_eqb_eq a b : list_eqb Nat.eqb a b = true <-> a = b.
Proof. apply list_eqb_spec. intros; apply Nat.eqb_eq. Qed.

(* pairing two index lists that enumerate X and Y enumerates the product / the zip of X and Y *)
Definition pairup {A B} (f : nat -> option A) (g : nat -> option B) (p : nat * nat) : option (A * B) :=
  match f (fst p), g (snd p) with Some a, Some b => Some (a, b) | _, _ => None end.

Lemma pairup_row {A B} (f : nat -> option A) (g : nat -> option B) i a iy Y :
  f i = Some a -> map g iy = map Some Y ->
  map (pairup f g) (map (fun y => (i, y)) iy) = map Some (map (fun y => (a, y)) Y).
Proof.
  intros Hi. revert Y. induction iy as [|j iy IH]; intros [|b Y] H; try discriminate; [reflexivity|].
  cbn in H. inversion H as [[Hj Hr]]. cbn [map]. rewrite (IH Y Hr).
  unfold pairup at 1; cbn [fst snd]. now rewrite Hi, Hj.
Qed.

Lemma pairup_prod {A B} (f : nat -> option A) (g : nat -> option B) ix X iy Y :
  map f ix = map Some X -> map g iy = map Some Y ->
  map (pairup f g) (list_prod ix iy) = map Some (list_prod X Y).
Proof.
  intros HX HY. revert X HX. induction ix as [|i ix IH]; intros [|a X] HX; try discriminate; [reflexivity|].
  cbn in HX. inversion HX as [[Hi Hr]].
  cbn [list_prod]. rewrite !map_app, (IH X Hr). f_equal. now apply pairup_row.
Qed.

Lemma pairup_combine {A B} (f : nat -> option A) (g : nat -> option B) ix X iy Y :
  map f ix = map Some X -> map g iy = map Some Y ->
  map (pairup f g) (combine ix iy) = map Some (combine X Y).
Proof.
  intros HX. revert X HX iy Y. induction ix as [|i ix IH]; intros [|a X] HX; try discriminate; [reflexivity|].
  cbn in HX. inversion HX as [[Hi Hr]].
  intros [|j iy] [|b Y] HY; try discriminate; [reflexivity|].
  cbn in HY. inversion HY as [[Hj Hr']].
  cbn [combine map]. rewrite (IH X Hr iy Y Hr'). unfold pairup at 1; cbn [fst snd]. now rewrite Hi, Hj.
Qed.

(* ------------------------------------------------------------------ flatten = elements at depth *)

Lemma elements_leaf n z : elements_at_depth n (Leaf z) = [Leaf z].
Proof. destruct n; reflexivity. Qed.

Lemma flatten_spec n : forall l, flatten n l = elements_at_depth n (Node l).
Proof.
  induction n as [|n IH]; intros l; [reflexivity|].
  cbn [flatten elements_at_depth]. apply flat_map_ext. intros [z|ch].
  - now rewrite elements_leaf.
  - apply IH.
Qed.

(* ------------------------------------------------------------------ rectangular values (spec level) *)

Lemma rectangular_node n v : rectangular (S n) v -> exists l, v = Node l.
Proof. destruct v as [z|l]; cbn; [tauto| now exists l]. Qed.

Lemma prod_dims n : forall v, rectangular n v -> prod (dims n v) = List.length (elements_at_depth n v).
Proof.
  induction n as [|n IH]; intros v R; [reflexivity|].
  destruct v as [z|l]; [destruct R|]. destruct R as [RF RD].
  cbn [dims elements_at_depth].
  destruct l as [|c r]; [reflexivity|].
  set (l := c :: r) in *.
  rewrite (length_flat_map_const (elements_at_depth n) (prod (dims n c)) l).
  - reflexivity.
  - rewrite Forall_forall in *. intros c' Hc'. rewrite <- (IH c' (RF c' Hc')).
    now rewrite (RD c' c Hc' (or_introl eq_refl)).
Qed.

Lemma rectangularb_spec n : forall v, rectangularb n v = true <-> rectangular n v.
Proof.
  induction n as [|n IH]; intros v; cbn [rectangularb rectangular]; [tauto|].
  destruct v as [z|l]; [split; [discriminate|tauto]|].
  rewrite andb_true_iff, forallb_forall, Forall_forall.
  split.
  - intros [HF HD]. split; [intros c Hc; apply IH, HF, Hc|].
    destruct l as [|c0 r]; [intros c c' []|].
    rewrite forallb_forall in HD.
    assert (E : forall c, In c (c0 :: r) -> dims n c = dims n c0).
    { intros c [<-|Hc]; [reflexivity|]. symmetry. apply nat_list_eqb_eq, HD, Hc. }
    intros c c' Hc Hc'. now rewrite (E c Hc), (E c' Hc').
  - intros [HF HD]. split; [intros c Hc; apply IH, HF, Hc|].
    destruct l as [|c0 r]; [reflexivity|].
    apply forallb_forall. intros c' Hc'. apply nat_list_eqb_eq.
    apply HD; [left; reflexivity| right; exact Hc'].
Qed.

(* ------------------------------------------------------------------ the input_shape loop *)

Definition all_shape (f : list value -> list nat) (s : list nat) (l : list value) : Prop :=
  Forall (fun v => exists ch, v = Node ch /\ f ch = s) l.

Lemma scan_Some_intro f s l : all_shape f s l -> scan f (Some s) l = Some s.
Proof.
  induction 1 as [|v l [ch [-> E]] _ IH]; [reflexivity|].
  cbn [scan]. rewrite E. now rewrite (proj2 (nat_list_eqb_eq s s) eq_refl).
Qed.

Lemma scan_Some_inv f s0 l s : scan f (Some s0) l = Some s -> s = s0 /\ all_shape f s0 l.
Proof.
  induction l as [|[z|ch] l IH]; cbn [scan]; intros H.
  - inversion H; split; [reflexivity|constructor].
  - discriminate.
  - destruct (list_eqb Nat.eqb s0 (f ch)) eqn:E; [|discriminate].
    apply nat_list_eqb_eq in E. destruct (IH H) as [-> Hl]. split; [reflexivity|].
    constructor; [exists ch; auto|exact Hl].
Qed.

Lemma scan_None_inv f l s :
  scan f None l = Some s -> exists ch r, l = Node ch :: r /\ f ch = s /\ all_shape f s (Node ch :: r).
Proof.
  destruct l as [|[z|ch] r]; cbn [scan]; try discriminate.
  intros H. destruct (scan_Some_inv _ _ _ _ H) as [-> Hr].
  exists ch, r. split; [reflexivity|]. split; [reflexivity|].
  constructor; [exists ch; auto|exact Hr].
Qed.

(* the shape of a rectangular value is its dimension vector *)
Lemma shape_rec_rect c : forall l, rectangular (S c) (Node l) -> shape_rec c l = dims (S c) (Node l).
Proof.
  induction c as [|c IH]; intros l R.
  - cbn. destruct l; reflexivity.
  - destruct R as [RF RD]. cbn [shape_rec].
    destruct l as [|v r]; [reflexivity|].
    rewrite Forall_forall in RF.
    destruct (rectangular_node c v (RF v (or_introl eq_refl))) as [ch ->].
    cbn [scan].
    rewrite (scan_Some_intro (shape_rec c) (shape_rec c ch) r).
    + cbn [dims]. rewrite (IH ch (RF _ (or_introl eq_refl))). reflexivity.
    + apply Forall_forall. intros v' Hv'.
      destruct (rectangular_node c v' (RF v' (or_intror Hv'))) as [ch' ->].
      exists ch'. split; [reflexivity|].
      rewrite (IH ch' (RF _ (or_intror Hv'))), (IH ch (RF _ (or_introl eq_refl))).
      apply RD; [right; exact Hv'| left; reflexivity].
Qed.

Lemma input_shape_rect n l :
  1 <= n -> rectangular n (Node l) -> input_shape l n = dims n (Node l).
Proof.
  intros Hn R. destruct n as [|c]; [lia|]. unfold input_shape.
  replace (S c - 1) with c by lia. now apply shape_rec_rect.
Qed.

(* the count invariant of the (repaired) input_shape: the product of the shape is the number of
   elements flatten yields, for every value, rectangular or not *)
Lemma prod_shape_rec c : forall l, prod (shape_rec c l) = List.length (flatten (S c) l).
Proof.
  induction c as [|c IH]; intros l.
  - cbn [shape_rec prod fold_right flatten].
    rewrite (length_flat_map_const _ 1 l); [lia|].
    apply Forall_forall. intros [z|ch] _; reflexivity.
  - cbn [shape_rec].
    destruct (scan (shape_rec c) None l) as [s|] eqn:E.
    + destruct (scan_None_inv _ _ _ E) as [ch [r [-> [_ Hall]]]].
      set (l := Node ch :: r) in *.
      cbn [prod fold_right]. change (fold_right Nat.mul 1 s) with (prod s).
      change (flatten (S (S c)) l) with
        (flat_map (fun val => match val with Node ch => flatten (S c) ch | Leaf _ => [val] end) l).
      rewrite (length_flat_map_const _ (prod s) l); [reflexivity|].
      unfold all_shape in Hall. rewrite Forall_forall in *. intros v Hv.
      destruct (Hall v Hv) as [ch' [-> <-]]. symmetry. apply IH.
    + cbn [prod fold_right]. lia.
Qed.

Lemma prod_input_shape n l : 1 <= n -> prod (input_shape l n) = List.length (flatten n l).
Proof.
  intros Hn. unfold input_shape. destruct n as [|c]; [lia|].
  replace (S c - 1) with c by lia. apply prod_shape_rec.
Qed.

(* ------------------------------------------------------------------ element extraction *)

(* the indices of a field enumerate, through map_splits' lookup, exactly the elements at its depth *)
Lemma get_all cd l :
  1 <= ndim_shape cd ->
  map (get_elem cd l) (single_ind cd l) = map Some (elements_at_depth (ndim_shape cd) (Node l)).
Proof.
  intros Hn. unfold get_elem, single_ind, range.
  assert (E : ndim_flat cd l = ndim_shape cd) by (destruct cd; reflexivity).
  rewrite E, (prod_input_shape _ _ Hn), <- flatten_spec. apply map_nth_error_seq.
Qed.

Lemma single_ind_length cd l :
  1 <= ndim_shape cd -> List.length (single_ind cd l) = List.length (elements_at_depth (ndim_shape cd) (Node l)).
Proof.
  intros Hn. unfold single_ind, range. rewrite seq_length, (prod_input_shape _ _ Hn). now rewrite flatten_spec.
Qed.

(* ------------------------------------------------------------------ one field *)

Lemma split1_full cd l :
  1 <= ndim_shape cd -> split1 cd l = Jobs (elements_at_depth (ndim_shape cd) (Node l)).
Proof. intros Hn. unfold split1. now rewrite (get_all cd l Hn), sequence_map_Some. Qed.

Lemma single_full n l : 1 <= n -> single_ok n (Node l) (split1 (Some n) l).
Proof. intros Hn. exact (split1_full (Some n) l Hn). Qed.

(* a field without a container_ndim entry behaves like container dimension 1 *)
Lemma split1_default l : split1 None l = split1 (Some 1) l.
Proof. reflexivity. Qed.

(* ------------------------------------------------------------------ two fields *)

Lemma split2_outer cdx x cdy y :
  1 <= ndim_shape cdx -> 1 <= ndim_shape cdy ->
  split2 Outer cdx x cdy y =
  Jobs (list_prod (elements_at_depth (ndim_shape cdx) (Node x)) (elements_at_depth (ndim_shape cdy) (Node y))).
Proof.
  intros Hx Hy. unfold split2, pair_ind.
  change (get_pair cdx x cdy y) with (pairup (get_elem cdx x) (get_elem cdy y)).
  change (range (prod (input_shape x (ndim_shape cdx)))) with (single_ind cdx x).
  change (range (prod (input_shape y (ndim_shape cdy)))) with (single_ind cdy y).
  rewrite (pairup_prod _ _ _ _ _ _ (get_all cdx x Hx) (get_all cdy y Hy)).
  now rewrite sequence_map_Some.
Qed.

Lemma split2_inner cdx x cdy y :
  1 <= ndim_shape cdx -> 1 <= ndim_shape cdy ->
  inner_ok (ndim_shape cdx) (Node x) (ndim_shape cdy) (Node y) (split2 Inner cdx x cdy y).
Proof.
  intros Hx Hy. unfold split2, pair_ind.
  destruct (list_eqb Nat.eqb (input_shape x (ndim_shape cdx)) (input_shape y (ndim_shape cdy))) eqn:E.
  - apply nat_list_eqb_eq in E.
    change (get_pair cdx x cdy y) with (pairup (get_elem cdx x) (get_elem cdy y)).
    change (range (prod (input_shape x (ndim_shape cdx)))) with (single_ind cdx x).
    change (range (prod (input_shape y (ndim_shape cdy)))) with (single_ind cdy y).
    rewrite (pairup_combine _ _ _ _ _ _ (get_all cdx x Hx) (get_all cdy y Hy)), sequence_map_Some.
    cbn [inner_ok]. split; [|reflexivity].
    rewrite <- !flatten_spec, <- (prod_input_shape _ _ Hx), <- (prod_input_shape _ _ Hy). now rewrite E.
  - cbn [inner_ok]. intros [Rx [Ry D]].
    rewrite (input_shape_rect _ _ Hx Rx), (input_shape_rect _ _ Hy Ry), D in E.
    now rewrite (proj2 (nat_list_eqb_eq _ _) eq_refl) in E.
Qed.

(* equal-shape rectangular operands are accepted and paired position by position *)
Lemma split2_inner_rect cdx x cdy y :
  1 <= ndim_shape cdx -> 1 <= ndim_shape cdy ->
  rectangular (ndim_shape cdx) (Node x) -> rectangular (ndim_shape cdy) (Node y) ->
  dims (ndim_shape cdx) (Node x) = dims (ndim_shape cdy) (Node y) ->
  split2 Inner cdx x cdy y =
  Jobs (combine (elements_at_depth (ndim_shape cdx) (Node x)) (elements_at_depth (ndim_shape cdy) (Node y))).
Proof.
  intros Hx Hy Rx Ry D. pose proof (split2_inner cdx x cdy y Hx Hy) as H.
  destruct (split2 Inner cdx x cdy y) as [l| |]; cbn [inner_ok] in H.
  - destruct H as [_ ->]. reflexivity.
  - exfalso. apply H. auto.
  - destruct H.
Qed.

(* ------------------------------------------------------------------ examples: the hypotheses are met
   non-trivially, and the value that lost an element before the repair now yields all three *)
Definition witness : list value := [Node [Leaf 1; Leaf 2]; Node [Leaf 3]]%Z.
Example witness_ragged : rectangularb 2 (Node witness) = false.
Proof. reflexivity. Qed.
Example witness_all : split1 (Some 2) witness = Jobs [Leaf 1; Leaf 2; Leaf 3]%Z.
Proof. vm_compute. reflexivity. Qed.
Definition square : list value := [Node [Leaf 1; Leaf 2]; Node [Leaf 3; Leaf 4]]%Z.
Example square_rect : rectangular 2 (Node square) /\ dims 2 (Node square) = [2; 2].
Proof. split; [apply (rectangularb_spec 2); reflexivity| reflexivity]. Qed.
Example square_inner :
  split2 Inner (Some 2) square (Some 2) square =
  Jobs [(Leaf 1, Leaf 1); (Leaf 2, Leaf 2); (Leaf 3, Leaf 3); (Leaf 4, Leaf 4)]%Z.
Proof. vm_compute. reflexivity. Qed.
Example square_inner_plain_rejected :
  split2 Inner (Some 2) square None [Leaf 5; Leaf 6; Leaf 7; Leaf 8]%Z = ShapeError.
Proof. vm_compute. reflexivity. Qed.

(* ------------------------------------------------------------------ the executable spec used on the
   correspondence cases decides the Prop spec the theorems are about *)
Section ValueInd.
  Variable P : value -> Prop.
  Hypothesis HLeaf : forall z, P (Leaf z).
  Hypothesis HNode : forall l, Forall P l -> P (Node l).
  Fixpoint value_ind' (v : value) : P v :=
    match v with
    | Leaf z => HLeaf z
    | Node l => HNode l ((fix go (l : list value) : Forall P l :=
                            match l with
                            | [] => Forall_nil P
                            | x :: r => Forall_cons x (value_ind' x) (go r)
                            end) l)
    end.
End ValueInd.

Lemma value_eqb_node l : forall m, value_eqb (Node l) (Node m) = list_eqb value_eqb l m.
Proof.
  induction l as [|x l IH]; intros [|y m]; try reflexivity.
  cbn [list_eqb]. rewrite <- IH. reflexivity.
Qed.

Lemma list_eqb_Forall {A} (eqb : A -> A -> bool) l :
  Forall (fun x => forall y, eqb x y = true <-> x = y) l ->
  forall m, list_eqb eqb l m = true <-> l = m.
Proof.
  induction 1 as [|x l Hx _ IH]; intros [|y m]; cbn [list_eqb].
  - tauto.
  - split; discriminate.
  - split; discriminate.
  - rewrite andb_true_iff, Hx, IH. split; [intros [-> ->]; reflexivity| intros E; inversion E; auto].
Qed.

Lemma value_eqb_eq : forall a b, value_eqb a b = true <-> a = b.
Proof.
  induction a as [z|l IH] using value_ind'; intros [z'|m].
  - cbn. rewrite Z.eqb_eq. split; [now intros ->| now intros [= ->]].
  - split; discriminate.
  - split; discriminate.
  - rewrite value_eqb_node, (list_eqb_Forall value_eqb l IH m).
    split; [now intros ->| now intros [= ->]].
Qed.

Lemma pair_eqb'_eq a b : pair_eqb' a b = true <-> a = b.
Proof.
  destruct a as [a1 a2], b as [b1 b2]. unfold pair_eqb'. cbn [fst snd].
  rewrite andb_true_iff, !value_eqb_eq. split; [intros [-> ->]; reflexivity| intros [= -> ->]; auto].
Qed.

Lemma outcome_eqb_eq {A} (eqb : A -> A -> bool) (H : forall x y, eqb x y = true <-> x = y) :
  forall a b : outcome A, outcome_eqb eqb a b = true <-> a = b.
Proof.
  intros [l| |] [m| |]; cbn [outcome_eqb]; try (split; [discriminate|discriminate]); try tauto.
  rewrite (list_eqb_spec eqb H). split; [now intros ->| now intros [= ->]].
Qed.

Lemma single_okb_spec n v o : single_okb n v o = true <-> single_ok n v o.
Proof. apply (outcome_eqb_eq value_eqb value_eqb_eq). Qed.

Lemma outer_okb_spec nx x ny y o : outer_okb nx x ny y o = true <-> outer_ok nx x ny y o.
Proof. apply (outcome_eqb_eq pair_eqb' pair_eqb'_eq). Qed.

Lemma inner_okb_spec nx x ny y o : inner_okb nx x ny y o = true <-> inner_ok nx x ny y o.
Proof.
  unfold inner_okb, inner_ok. destruct o as [l| |].
  - rewrite andb_true_iff, Nat.eqb_eq, (list_eqb_spec pair_eqb' pair_eqb'_eq). tauto.
  - rewrite negb_true_iff. split.
    + intros E [Rx [Ry D]]. apply rectangularb_spec in Rx, Ry. apply nat_list_eqb_eq in D.
      now rewrite Rx, Ry, D in E.
    + intros H.
      destruct (rectangularb nx x) eqn:Ex; [|reflexivity].
      destruct (rectangularb ny y) eqn:Ey; [|reflexivity].
      destruct (list_eqb Nat.eqb (dims nx x) (dims ny y)) eqn:Ed; [|reflexivity].
      exfalso. apply H. rewrite <- !rectangularb_spec, <- nat_list_eqb_eq. auto.
  - split; [discriminate|tauto].
Qed.

(* ------------------------------------------------------------------ the recursive definition of
   "rectangular" implies the level-by-level reading: every level k < n holds lists of one common
   length, the k-th dimension *)
Lemma rect_levels k : forall n v,
  rectangular n v -> k < n -> Forall (node_len (nth k (dims n v) 0)) (elements_at_depth k v).
Proof.
  induction k as [|k IH]; intros n v R Hk; (destruct n as [|n]; [lia|]);
    (destruct v as [z|l]; [destruct R|]); destruct R as [RF RD].
  - cbn. constructor; [|constructor]. exists l. auto.
  - cbn [elements_at_depth dims nth].
    destruct l as [|c0 r]; [constructor|].
    apply Forall_flat_map. rewrite Forall_forall in *. intros c Hc.
    rewrite <- (RD c c0 Hc (or_introl eq_refl)).
    apply IH; [apply RF, Hc| lia].
Qed.

Lemma rect_level_uniform n v k : rectangular n v -> k < n -> level_uniform (elements_at_depth k v).
Proof. intros R Hk. eexists. apply (rect_levels k n v R Hk). Qed.

(* ================================================================== any number of fields *)

Definition op_of (f : field) : operand := (ndim_shape (fst f), Node (snd f)).
Definition field_ok (f : field) : Prop := 1 <= ndim_shape (fst f).

Lemma field_get_all f : field_ok f -> map (get_elem (fst f) (snd f)) (field_ind f) = map Some (op_elements (op_of f)).
Proof. intros H. exact (get_all (fst f) (snd f) H). Qed.

Lemma flat_map_flat_map {A B C} (f : A -> list B) (g : B -> list C) l :
  flat_map g (flat_map f l) = flat_map (fun x => flat_map g (f x)) l.
Proof. induction l as [|x l IH]; [reflexivity|]. cbn [flat_map]. now rewrite flat_map_app, IH. Qed.

Lemma map_flat_map {A B C} (f : A -> list B) (h : B -> C) l :
  map h (flat_map f l) = flat_map (fun x => map h (f x)) l.
Proof. induction l as [|x l IH]; [reflexivity|]. cbn [flat_map]. now rewrite map_app, IH. Qed.

Lemma flat_map_map {A B C} (g : A -> B) (f : B -> list C) l :
  flat_map f (map g l) = flat_map (fun x => f (g x)) l.
Proof. induction l as [|x l IH]; [reflexivity|]. cbn [map flat_map]. now rewrite IH. Qed.

(* ---- outer: the left fold of itertools.product enumerates the lexicographic product *)
Lemma fold_outer (Rs : list (list nat)) : forall acc,
  fold_left step_outer Rs acc = flat_map (fun t => map (app t) (prod_n Rs)) acc.
Proof.
  induction Rs as [|R Rs IH]; intros acc.
  - cbn [fold_left prod_n map]. induction acc as [|t acc IHa]; [reflexivity|].
    cbn [flat_map]. rewrite app_nil_r. cbn. now rewrite <- IHa.
  - cbn [fold_left]. rewrite IH. unfold step_outer. rewrite flat_map_flat_map.
    apply flat_map_ext. intros t. cbn [prod_n].
    rewrite flat_map_map, map_flat_map. apply flat_map_ext. intros j.
    rewrite map_map. apply map_ext. intros r. now rewrite <- app_assoc.
Qed.

Lemma outer_ind_prod R0 Rs :
  fold_left step_outer Rs (map (fun i => [i]) R0) = prod_n (R0 :: Rs).
Proof. rewrite fold_outer, flat_map_map. reflexivity. Qed.

Lemma get_tuple_cons f fs i t :
  get_tuple (f :: fs) (i :: t) =
  match get_elem (fst f) (snd f) i with
  | Some a => option_map (cons a) (get_tuple fs t)
  | None => None
  end.
Proof. cbn [get_tuple]. destruct (get_elem (fst f) (snd f) i), (get_tuple fs t); reflexivity. Qed.

Lemma get_tuple_prod fs :
  Forall field_ok fs ->
  map (get_tuple fs) (prod_n (map field_ind fs)) = map Some (prod_n (map (fun f => op_elements (op_of f)) fs)).
Proof.
  induction 1 as [|f fs Hf _ IH]; [reflexivity|].
  cbn [map prod_n]. pose proof (field_get_all f Hf) as HX.
  set (P := prod_n (map field_ind fs)) in *.
  set (Q := prod_n (map (fun f => op_elements (op_of f)) fs)) in *.
  revert HX. generalize (op_elements (op_of f)) as X. generalize (field_ind f) as R.
  induction R as [|i R IHR]; intros [|a X] HX; try discriminate; [reflexivity|].
  cbn in HX. inversion HX as [[Hi Hr]]. cbn [flat_map]. rewrite !map_app, (IHR X Hr). f_equal.
  transitivity (map (option_map (cons a)) (map (get_tuple fs) P)).
  - rewrite !map_map. apply map_ext. intros t. now rewrite get_tuple_cons, Hi.
  - rewrite IH, !map_map. reflexivity.
Qed.

Lemma splitN_outer f0 fs :
  Forall field_ok (f0 :: fs) ->
  outer_n_ok (map op_of (f0 :: fs)) (splitN Outer f0 fs).
Proof.
  intros H. unfold outer_n_ok, splitN, nary_ind.
  rewrite outer_ind_prod.
  change (field_ind f0 :: map field_ind fs) with (map field_ind (f0 :: fs)).
  rewrite (get_tuple_prod (f0 :: fs) H), sequence_map_Some, map_map. reflexivity.
Qed.

(* ---- inner: the left fold of zip pairs position by position *)
Lemma zip3 (acc : list (list nat)) : forall (R : list nat) (Z : list (list nat)),
  map (fun p => fst p ++ snd p) (combine (map (fun p => fst p ++ [snd p]) (combine acc R)) Z) =
  map (fun p => fst p ++ snd p) (combine acc (map (fun p => fst p :: snd p) (combine R Z))).
Proof.
  induction acc as [|t acc IH]; intros [|j R] [|z Z]; try reflexivity.
  cbn [combine map fst snd]. rewrite IH, <- app_assoc. reflexivity.
Qed.

Lemma combine_map_r {A B C} (f : B -> C) (a : list A) : forall b,
  combine a (map f b) = map (fun p => (fst p, f (snd p))) (combine a b).
Proof. induction a as [|x a IH]; intros [|y b]; try reflexivity. cbn. now rewrite IH. Qed.

Lemma combine_map_l {A B C} (f : A -> C) (a : list A) : forall (b : list B),
  combine (map f a) b = map (fun p => (f (fst p), snd p)) (combine a b).
Proof. induction a as [|x a IH]; intros [|y b]; try reflexivity. cbn. now rewrite IH. Qed.

Lemma fold_inner (Rs : list (list nat)) : forall acc,
  Rs <> [] ->
  fold_left step_inner Rs acc = map (fun p => fst p ++ snd p) (combine acc (zip_n Rs)).
Proof.
  induction Rs as [|R Rs IH]; intros acc HN; [congruence|].
  destruct Rs as [|R' Rs].
  - cbn [fold_left zip_n]. unfold step_inner. rewrite combine_map_r, map_map. reflexivity.
  - change (fold_left step_inner (R :: R' :: Rs) acc)
      with (fold_left step_inner (R' :: Rs) (step_inner acc R)).
    rewrite IH by discriminate.
    unfold step_inner. rewrite zip3. reflexivity.
Qed.

Lemma inner_ind_zip R0 Rs :
  fold_left step_inner Rs (map (fun i => [i]) R0) = zip_n (R0 :: Rs).
Proof.
  destruct Rs as [|R Rs]; [reflexivity|].
  rewrite fold_inner by discriminate. rewrite combine_map_l, map_map. reflexivity.
Qed.

Lemma get_tuple_zip fs :
  Forall field_ok fs ->
  map (get_tuple fs) (zip_n (map field_ind fs)) = map Some (zip_n (map (fun f => op_elements (op_of f)) fs)).
Proof.
  induction 1 as [|f fs Hf Hfs IH]; [reflexivity|].
  pose proof (field_get_all f Hf) as HX.
  destruct fs as [|f' fs].
  - cbn [map zip_n]. rewrite !map_map.
    transitivity (map (option_map (fun a => [a])) (map (get_elem (fst f) (snd f)) (field_ind f))).
    + rewrite map_map. apply map_ext. intros i. cbn [get_tuple].
      destruct (get_elem (fst f) (snd f) i); reflexivity.
    + rewrite HX, map_map. reflexivity.
  - set (fs' := f' :: fs) in *.
    assert (E1 : zip_n (map field_ind (f :: fs')) =
                 map (fun p => fst p :: snd p) (combine (field_ind f) (zip_n (map field_ind fs')))) by reflexivity.
    assert (E2 : zip_n (map (fun f => op_elements (op_of f)) (f :: fs')) =
                 map (fun p => fst p :: snd p)
                     (combine (op_elements (op_of f)) (zip_n (map (fun f => op_elements (op_of f)) fs')))) by reflexivity.
    rewrite E1, E2. clear E1 E2. clearbody fs'.
    set (P := zip_n (map field_ind fs')) in *.
    set (Q := zip_n (map (fun f => op_elements (op_of f)) fs')) in *.
    revert HX IH. generalize (op_elements (op_of f)) as X. generalize (field_ind f) as R.
    clearbody P Q. intros R X HX HPQ. revert P Q X HX HPQ.
    induction R as [|i R IHR]; intros P Q [|a X] HX HPQ; try discriminate; [reflexivity|].
    cbn in HX. inversion HX as [[Hi Hr]].
    destruct P as [|t P], Q as [|q Q]; try discriminate; [reflexivity|].
    cbn in HPQ. inversion HPQ as [[Ht HPQ']].
    cbn [combine map fst snd]. rewrite (IHR P Q X Hr HPQ'). f_equal.
    now rewrite get_tuple_cons, Hi, Ht.
Qed.

Lemma chain_eq_all s ss : chain_eq s ss = true -> Forall (eq s) ss.
Proof.
  revert s. induction ss as [|s' ss IH]; intros s H; [constructor|].
  cbn in H. apply andb_true_iff in H. destruct H as [E H]. apply nat_list_eqb_eq in E. subst s'.
  constructor; [reflexivity| apply IH, H].
Qed.

Lemma chain_eq_intro s ss : Forall (eq s) ss -> chain_eq s ss = true.
Proof.
  induction 1 as [|s' ss <- _ IH]; [reflexivity|].
  cbn. now rewrite (proj2 (nat_list_eqb_eq s s) eq_refl), IH.
Qed.

Lemma op_elements_length f : field_ok f -> List.length (op_elements (op_of f)) = prod (field_shape f).
Proof.
  intros H. unfold op_elements, op_of, field_shape. cbn [fst snd].
  rewrite (prod_input_shape _ _ H). now rewrite flatten_spec.
Qed.

Lemma splitN_inner f0 fs :
  Forall field_ok (f0 :: fs) ->
  inner_n_ok (map op_of (f0 :: fs)) (splitN Inner f0 fs).
Proof.
  intros H. unfold splitN, nary_ind.
  destruct (chain_eq (field_shape f0) (map field_shape fs)) eqn:E.
  - rewrite inner_ind_zip.
    change (field_ind f0 :: map field_ind fs) with (map field_ind (f0 :: fs)).
    rewrite (get_tuple_zip (f0 :: fs) H), sequence_map_Some. cbn [inner_n_ok]. rewrite map_map.
    split; [|reflexivity].
    apply chain_eq_all in E.
    assert (L : forall e, In e (map (fun f => op_elements (op_of f)) (f0 :: fs)) ->
                          List.length e = prod (field_shape f0)).
    { intros e He. apply in_map_iff in He. destruct He as [f [<- Hf]].
      rewrite Forall_forall in H. rewrite (op_elements_length f (H f Hf)).
      destruct Hf as [<-|Hf]; [reflexivity|].
      rewrite Forall_forall in E. rewrite (E (field_shape f)); [reflexivity|]. now apply in_map. }
    intros e e' He He'. now rewrite (L e He), (L e' He').
  - cbn [inner_n_ok]. intros [R D].
    assert (S : forall f, In f (f0 :: fs) -> field_shape f = dims (fst (op_of f)) (snd (op_of f))).
    { intros f Hf. unfold field_shape. rewrite Forall_forall in H, R.
      apply (input_shape_rect _ _ (H f Hf)). apply (R (op_of f)). now apply in_map. }
    rewrite chain_eq_intro in E; [discriminate|].
    apply Forall_forall. intros s Hs. apply in_map_iff in Hs. destruct Hs as [f [<- Hf]].
    rewrite (S f0 (or_introl eq_refl)), (S f (or_intror Hf)).
    apply D; apply in_map; [left; reflexivity| right; exact Hf].
Qed.

(* non-vacuity: three fields, the middle one nested and ragged, in both kinds of splitter *)
Definition ex_fields : field * list field :=
  ((None, [Leaf 10; Leaf 11; Leaf 12]%Z), [(Some 2, witness); (None, [Leaf 20; Leaf 21; Leaf 22]%Z)]).
Example ex_fields_ok : Forall field_ok (fst ex_fields :: snd ex_fields).
Proof. repeat constructor. Qed.
Example ex_inner_n :
  splitN Inner (fst ex_fields) (snd ex_fields) =
  Jobs [[Leaf 10; Leaf 1; Leaf 20]; [Leaf 11; Leaf 2; Leaf 21]; [Leaf 12; Leaf 3; Leaf 22]]%Z.
Proof. vm_compute. reflexivity. Qed.
Example ex_outer_n :
  exists l, splitN Outer (fst ex_fields) (snd ex_fields) = Jobs l /\ List.length l = 27 /\
            nth_error l 4 = Some [Leaf 10; Leaf 2; Leaf 21]%Z.
Proof. eexists. split; [vm_compute; reflexivity|]. split; reflexivity. Qed.
Example ex_inner_n_rejected :
  splitN Inner (None, [Leaf 10; Leaf 11; Leaf 12; Leaf 13]%Z) [(Some 2, square); (None, [Leaf 1; Leaf 2; Leaf 3; Leaf 4]%Z)]
  = ShapeError.
Proof. vm_compute. reflexivity. Qed.

(* ------------------------------------------------------------------ the n-ary executable checks decide
   the n-ary Prop specs *)
Lemma head_all {A B} (f : A -> B) (eqb : B -> B -> bool) (H : forall x y, eqb x y = true <-> x = y) (l : list A) :
  match l with [] => true | x :: r => forallb (fun y => eqb (f x) (f y)) r end = true <->
  (forall a b, In a l -> In b l -> f a = f b).
Proof.
  destruct l as [|x r].
  - split; [intros _ a b []| reflexivity].
  - rewrite forallb_forall. split.
    + intros HF.
      assert (E : forall a, In a (x :: r) -> f a = f x).
      { intros a [<-|Ha]; [reflexivity|]. symmetry. apply H, HF, Ha. }
      intros a b Ha Hb. now rewrite (E a Ha), (E b Hb).
    + intros HA y Hy. apply H. apply HA; [left; reflexivity| right; exact Hy].
Qed.

Lemma value_list_eqb_eq : forall a b : list value, list_eqb value_eqb a b = true <-> a = b.
Proof. apply list_eqb_spec, value_eqb_eq. Qed.

Lemma outer_n_okb_spec ops o : outer_n_okb ops o = true <-> outer_n_ok ops o.
Proof. apply (outcome_eqb_eq (list_eqb value_eqb) value_list_eqb_eq). Qed.

Lemma inner_n_okb_spec ops o : inner_n_okb ops o = true <-> inner_n_ok ops o.
Proof.
  unfold inner_n_okb, inner_n_ok. destruct o as [l| |].
  - rewrite andb_true_iff, (list_eqb_spec (list_eqb value_eqb) value_list_eqb_eq).
    rewrite (head_all (@List.length value) Nat.eqb Nat.eqb_eq). tauto.
  - rewrite negb_true_iff.
    assert (R : forallb (fun p : operand => rectangularb (fst p) (snd p)) ops = true <->
                Forall (fun p => rectangular (fst p) (snd p)) ops).
    { rewrite forallb_forall, Forall_forall. split; intros HH p Hp; apply rectangularb_spec, HH, Hp. }
    pose proof (head_all (fun p : operand => dims (fst p) (snd p)) (list_eqb Nat.eqb) nat_list_eqb_eq ops) as D.
    fold (same_dims ops) in D.
    split.
    + intros E [HR HD]. apply R in HR. apply D in HD.
      exact (eq_true_false_abs _ (proj2 (andb_true_iff _ _) (conj HR HD)) E).
    + intros HN. apply not_true_is_false. intros T. apply andb_true_iff in T. destruct T as [TR TD].
      apply HN. split; [exact (proj1 R TR)| exact (proj1 D TD)].
  - split; [discriminate|tauto].
Qed.

(* ================================================================== tuples inside split values *)

Lemma telements_leaf n z : telements n (TLeaf z) = [TLeaf z].
Proof. destruct n; reflexivity. Qed.

Lemma tflatten_spec d : forall v, tflatten d v = telements d v.
Proof.
  induction d as [|d IH]; intros v; [reflexivity|].
  assert (E : forall val, match val with TLeaf _ => [val] | _ => tflatten d val end = telements d val).
  { intros [z|l|l]; [now rewrite telements_leaf| apply IH| apply IH]. }
  destruct v as [z|l|l]; cbn [tflatten telements]; [reflexivity| |]; apply flat_map_ext; exact E.
Qed.

Definition tall_shape (f : list tvalue -> list nat) (s : list nat) (l : list tvalue) : Prop :=
  Forall (fun v => exists ch, v = TList ch /\ f ch = s) l.

Lemma tscan_Some_inv f s0 l s : tscan f (Some s0) l = Some s -> s = s0 /\ tall_shape f s0 l.
Proof.
  induction l as [|[z|ch|ch] l IH]; cbn [tscan]; intros H.
  - inversion H; split; [reflexivity|constructor].
  - discriminate.
  - destruct (list_eqb Nat.eqb s0 (f ch)) eqn:E; [|discriminate].
    apply nat_list_eqb_eq in E. destruct (IH H) as [-> Hl]. split; [reflexivity|].
    constructor; [exists ch; auto|exact Hl].
  - discriminate.
Qed.

Lemma tscan_None_inv f l s : tscan f None l = Some s -> l <> [] /\ tall_shape f s l.
Proof.
  destruct l as [|[z|ch|ch] r]; cbn [tscan]; try discriminate.
  intros H. destruct (tscan_Some_inv _ _ _ _ H) as [-> Hr].
  split; [discriminate|]. constructor; [exists ch; auto|exact Hr].
Qed.

Lemma tprod_shape_rec c : forall l, prod (tshape_rec c l) = List.length (tflatten (S c) (TList l)).
Proof.
  induction c as [|c IH]; intros l.
  - cbn [tshape_rec prod fold_right tflatten].
    rewrite (length_flat_map_const _ 1 l); [lia|].
    apply Forall_forall. intros [z|ch|ch] _; reflexivity.
  - cbn [tshape_rec].
    destruct (tscan (tshape_rec c) None l) as [s|] eqn:E.
    + destruct (tscan_None_inv _ _ _ E) as [_ Hall].
      cbn [prod fold_right]. change (fold_right Nat.mul 1 s) with (prod s).
      rewrite tflatten_spec. change (telements (S (S c)) (TList l)) with (flat_map (telements (S c)) l).
      rewrite (length_flat_map_const _ (prod s) l); [reflexivity|].
      unfold tall_shape in Hall. rewrite Forall_forall in *. intros v Hv.
      destruct (Hall v Hv) as [ch' [-> <-]]. cbv beta. rewrite <- (tflatten_spec (S c) (TList ch')). symmetry. apply IH.
    + cbn [prod fold_right]. lia.
Qed.

Lemma tsplit1_full n l : 1 <= n -> tsplit1 n l = Jobs (telements n (TList l)).
Proof.
  intros Hn. unfold tsplit1, tsingle_ind, tinput_shape, range.
  destruct n as [|c]; [lia|]. replace (S c - 1) with c by lia.
  rewrite tprod_shape_rec, map_nth_error_seq, sequence_map_Some, tflatten_spec. reflexivity.
Qed.

(* tuples are opened by flatten but not by input_shape: a rectangular nesting made of tuples has the flat
   shape (count,), not its dimension vector — it only matters for the shape test of inner splitters *)
Example tuple_jobs :
  tsplit1 2 [TTup [TLeaf 1; TLeaf 2]; TTup [TLeaf 3]; TList [TLeaf 4; TLeaf 5]]%Z =
  Jobs [TLeaf 1; TLeaf 2; TLeaf 3; TLeaf 4; TLeaf 5]%Z.
Proof. vm_compute. reflexivity. Qed.
Example tuple_shape_is_flat :
  tinput_shape [TTup [TLeaf 1; TLeaf 2]; TTup [TLeaf 3; TLeaf 4]]%Z 2 = [4] /\
  tinput_shape [TList [TLeaf 1; TLeaf 2]; TList [TLeaf 3; TLeaf 4]]%Z 2 = [2; 2].
Proof. split; reflexivity. Qed.
