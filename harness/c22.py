"""C22 — Shell argument vector follows the documented field semantics
(pydra/compose/shell/task.py _command_args/_command_pos_args/_format_arg/split_cmd, pydra/utils/general.py
position_sort, pydra/compose/shell/builder.py remaining_positions, pydra/compose/shell/templating.py argstr_formatting)."""
import json

from .lib import coqio, shellgen as sg
from .lib.runner import Outcome, Failure

PROP = "C22"
PROPS_FILE = "Props/C22.v"
MANIFEST = dict(
    text="Partial. The property at full strength (C22_full_statement: for every accepted definition and value "
         "assignment the vector pydra builds is executable, set fields by position [non-negative ascending, "
         "unpositioned in definition order, negative ascending], appended arguments, with the omission and list "
         "rules) is REFUTED for the unchanged code by machine-checked witnesses (C22_refuted_gap, "
         "C22_refuted_class_form, C22_refuted_wrap, C22_refuted_falsy, C22_refuted_dots_sep: findings F22, F22b-e). "
         "C22_partial proves, for all definitions and values inside a computable class (functional form, explicit "
         "non-negative positions below the first implicit one, benign truthy words, '...' only with a blank "
         "separator), that the faithful model of define/_command_args (including the shlex re-tokenisation) yields "
         "exactly the reference vector; C22_order_dense, C22_omission, C22_list_expansion are its parts. The model is "
         "tied to the code on every run by differential execution of generated definitions (functional and class "
         "form) evaluated inside Coq.",
    note="Trusted: Coq kernel + vm_compute; hand-written model Model/Shell.v + Base/Shlex.v (tied to CPython shlex "
         "in C23/C24); str(float) taken from Python; str.format modelled for plain {name} only; formatter callables, "
         "xor groups, readonly fields and path templates are not modelled; correspondence is differential testing.",
    technique="Coq proof (sorted-permutation uniqueness for position_sort vs the stated order; per-field "
              "re-tokenisation lemma via shlex = whitespace split on quote-free text) + refutation witnesses + "
              "model/impl correspondence via generated cases.v",
    design="§8 Group F / C22",
)
TIE_NAME = "Model.Shell.define/task_argv vs pydra.compose.shell.define + ShellTask._command_args (through Native.execute)"
TRUSTED = [
    "Model/Shell.v + Base/Shlex.v: hand-written model of remaining_positions/define, _command_args, _command_pos_args, "
    "_format_arg, argstr_formatting, split_cmd, position_sort, append_args_converter",
    "modelled-not-verified: str(float) is taken from Python; str.format only for plain {name}; the runtime "
    "'position already used' check, xor groups, formatter callables, readonly fields, path templates are not modelled",
    "the harness: shellgen generator / Gallina encoder / exception canonicaliser / finding classifier",
]
ASSUMPTIONS = ["strings are byte strings (UTF-8) without NUL and without non-ASCII Unicode whitespace",
               "values are those _command_args receives (after the attrs converters / TypeParser coercion)"]
RULE = ("generated shell definitions (0-6 fields of kinds bool/str/int/float/path/list/MultiInputObj, optional or not, "
        "argstr absent/empty/flag/two flags/templated incl. repeated and cross-field placeholders, '...', separators "
        "blank , ; : + empty, positions absent/dense/sparse/negative/colliding, functional and class form) with "
        "benign word values (shell metacharacters and unicode but no whitespace/quotes/backslash), falsy values at "
        "5%, unset optionals at 30%, appended arguments as list or string; non-trivial = at least two fields "
        "contribute arguments; distinct = distinct (definition, values) JSON")

def contributes(case):
    n = 0
    for f in case["fields"]:
        v = case["values"].get(f["name"])
        if f["argstr"] is None or v is None or v is False or v == {"list": []}:
            continue
        n += 1
    return n


def classify(case, obs):
    """finding class of a spec failure, from the input (and, for F22c, the rejection) -- None = not a known class"""
    fields = case["fields"]
    n = len(fields)
    explicit = [f["pos"] for f in fields if f["pos"] is not None]
    raw_dup = len(set(explicit + [0])) != len(explicit) + 1
    if obs["error"] == "EOverlap":
        return None if raw_dup else "F22c"
    # implicit positions as pydra's remaining_positions computes them
    used = {0} | {p if p >= 0 else n + 1 + p for p in explicit}
    free = [i for i in range(0, n + 1) if i not in used]
    unpos = [f for f in fields if f["pos"] is None]
    if unpos and free and any(p >= 0 and p > free[0] for p in explicit):
        return "F22"
    if case["form"] == "class" and [f["name"] for f in unpos] != sorted(f["name"] for f in unpos):
        return "F22b"
    for f in fields:
        v = case["values"].get(f["name"])
        if f["argstr"] is None or v is None or isinstance(v, bool):
            continue
        atoms = v["list"] if isinstance(v, dict) else [v]
        if any(a[0] == "str" and a[1] == "" for a in atoms):
            return "F22d"
        # `if value:` is consulted only for a scalar / MultiInputObj element of an argstr WITHOUT placeholder -- this is
        # exactly what atom_ok (Spec/Shell.v) excludes from C22_partial; 0 inside a template is inside the theorem
        if f["ty"] != "list" and not sg.has_placeholder(f) and any(
                (a[0] == "int" and a[1] == 0) or (a[0] == "float" and not a[2]) for a in atoms):
            return "F22d"
    for f in fields:
        v = case["values"].get(f["name"])
        if f["ty"] == "list" and f["argstr"] and f["argstr"]["dots"] and f["sep"] != " " and isinstance(v, dict) \
                and len(v["list"]) >= 2:
            return "F22e"
    return None


WHAT = {"F22": "explicit position above the first implicit one", "F22b": "class form numbers unpositioned fields by name",
        "F22c": "positive and negative position rejected as overlapping", "F22d": "falsy value dropped",
        "F22e": "'...' with non-blank separator"}


def gen_cases(ctx, n, file_dir=None):
    rng = ctx.rng
    cases = [c for c in ctx.corpus() if "fields" in c]
    while len(cases) < n:
        c = sg.gen_definition(rng, file_dir=file_dir)
        sg.gen_values(rng, c, nasty=0.0, braces=0.0, falsy=0.05)
        cases.append(c)
    return cases


def run(ctx):
    import shutil as _sh, tempfile as _tf
    file_dir = _tf.mkdtemp(prefix="verif-c22-files-")
    try:
        return _run(ctx, file_dir)
    finally:
        _sh.rmtree(file_dir, ignore_errors=True)


def _run(ctx, file_dir):
    import time
    t0 = time.time()
    n = ctx.budget(300, 2500)
    cases = gen_cases(ctx, n, file_dir)
    dist = {"form_class": 0, "define_rejected": 0, "errors": 0, "fields_total": 0, "with_negative_pos": 0,
            "with_explicit_pos": 0, "list_fields": 0, "templated_fields": 0, "dots_fields": 0, "append_str": 0}
    metas, codes = sg.evaluate_argv(ctx, "c22", cases)
    t1 = time.time()
    seen, nontrivial = set(), 0
    for c, obs in zip(cases, metas):
        dist["form_class"] += c["form"] == "class"
        dist["define_rejected"] += obs["stage"] == "define"
        dist["errors"] += obs["error"] is not None
        dist["fields_total"] += len(c["fields"])
        dist["with_negative_pos"] += any((f["pos"] or 0) < 0 for f in c["fields"])
        dist["with_explicit_pos"] += any(f["pos"] is not None for f in c["fields"])
        dist["list_fields"] += sum(f["ty"] in ("list", "multi") for f in c["fields"])
        dist["templated_fields"] += sum(sg.has_placeholder(f) for f in c["fields"])
        dist["dots_fields"] += sum(bool(f["argstr"] and f["argstr"]["dots"]) for f in c["fields"])
        dist["append_str"] += isinstance(c["append"], dict)
        key = json.dumps([c["form"], c["exe"], c["fields"], c["values"], c["append"]], sort_keys=True)
        if key not in seen:
            seen.add(key)
            nontrivial += contributes(c) >= 2
    dist["in_partial_theorem_domain"] = sum(1 for k in codes if not k & 4)
    dist["spec_disagreements"] = sum(1 for k in codes if k & 2)
    out = Outcome(evaluations=len(cases), distinct_nontrivial=nontrivial, rule=RULE, distribution=dist,
                  traces_validated=len(cases),
                  samples=[{"case": sg.strip_case(c), "observed": {k: metas[i][k] for k in ("positions", "argv", "error")}}
                           for i, c in enumerate(cases[:3])],
                  extra={"model_agreements": sum(1 for k in codes if not k & 1),
                         "model_agreements_outside_domain": sum(1 for k in codes if k & 4 and not k & 1),
                         "cases_outside_domain": sum(1 for k in codes if k & 4)})
    by_class, pending = {}, []
    for i, k in enumerate(codes):
        c, obs = cases[i], metas[i]
        observed = {x: obs[x] for x in ("positions", "argv", "error", "stage")}
        if k & 2:
            fid = classify(c, obs) if k & 4 else None
            by_class[fid] = by_class.get(fid, 0) + 1
            if sum(1 for f, _ in pending if f.finding == fid and f.kind == "spec") < 3:
                pending.append((Failure(case=sg.strip_case(c), observed=observed, kind="spec", finding=fid,
                                        note=WHAT.get(fid, "argv differs from the reference vector"
                                                      + (" inside the domain of C22_partial" if not k & 4 else ""))),
                                sg.spec_term(c)))
        # the model no longer describes the code: inside the theorem's domain, or outside it when the code changed to
        # something that is not the spec either
        if k & 1 and (not k & 4 or k & 2) and sum(1 for f, _ in pending if f.kind == "tie") < 6:
            pending.append((Failure(case=sg.strip_case(c), observed=observed, kind="tie",
                                    note="model != implementation" + (" inside the domain of C22_partial" if not k & 4
                                                                        else " (and implementation != spec)")),
                            sg.model_term(c)))
    dist["spec_disagreements_by_class"] = {str(k): v for k, v in by_class.items()}
    out.failures = sg.fill_expected(ctx, pending)
    out.extra["phase_wall_s"] = {"implementation_and_coq": round(t1 - t0, 1), "replay_values": round(time.time() - t1, 1)}
    return out


def replay(ctx, payload):
    c = payload["case"]
    obs = sg.observe(c)
    print("definition:", json.dumps(c["fields"]))
    print("values    :", json.dumps(c["values"]), "append:", c["append"], "exe:", c["exe"], "form:", c["form"])
    print("implementation: positions=%s argv=%s error=%s" % (obs["positions"], obs["argv"], obs["error"]))
    vals = coqio.eval_terms(ctx.scratch, "replay", sg.IMPORTS, [sg.model_term(c), sg.spec_term(c)], extra=sg.ARGV_DEFS)
    print("model         :", vals[0])
    print("spec          :", vals[1])
    return 0
