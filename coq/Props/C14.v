(* C14 — a failing job never stops independent jobs (asynchronous loop). *)
From Pydra Require Import Base.Prelude Base.SchedBase Model.Sched Spec.Sched Proofs.SchedG Proofs.SchedH Proofs.SchedM Proofs.SchedTermA.

(* The property for the model of a given code variant: whatever the oracle (completion order,
   jobs seen running), no exception escapes the scheduling loop, and a run that ends by itself has
   executed exactly the jobs that are not downstream of a failing job and reports exactly the
   jobs that failed. *)
Definition C14_statement (vr : variant) : Prop :=
  forall (V : Type) (body : nat -> nat -> list (list (option V)) -> V) (fails : job -> bool)
         (g : graph) (kmax : option nat) (orc : list oracle_step) (fuel : nat),
    wf_graph g ->
    let o := run_async V body fails vr g kmax orc fuel in
    o_status o <> Raised /\ (o_status o = Finished -> c14_outcome g fails (launches o) (error_names o)).

Definition C14_full_statement : Prop := C14_statement repaired.

Theorem C14_full : C14_full_statement.
Proof.
  intros V body fails g kmax orc fuel WF. split.
  - apply async_never_raises; auto.
  - apply async_c14; auto.
Qed.
Print Assumptions C14_full.

(* jobs that depend on a failed job are never executed — at any moment of any run, not only at the end *)
Theorem C14_never_downstream :
  forall (V : Type) (body : nat -> nat -> list (list (option V)) -> V) (fails : job -> bool)
         (vr : variant) (g : graph) (kmax : option nat) (orc : list oracle_step) (fuel : nat),
    fix14 vr = true -> wf_graph g ->
    forall j, In j (launches (run_async V body fails vr g kmax orc fuel)) -> should_run g fails j.
Proof. intros. eapply async_launched_should_run; eauto. Qed.
Print Assumptions C14_never_downstream.

(* Finding F14 (repaired by a fix: commit): on the code as pinned the statement is false.
   A, B independent; D after B; E after D.  B completes while A is seen running, then A fails:
   update_status raises out of the loop and E — independent of A — is never launched. *)
Definition f14_graph : graph := [mkNode 0 [] 1; mkNode 1 [] 1; mkNode 2 [1] 1; mkNode 3 [2] 1].
Definition f14_oracle : list oracle_step := [mkStep [1] [true]; mkStep [0] []].
Definition f14_fails : job -> bool := fun j => job_eqb j (0, 0).

Theorem C14_refuted_running_then_fail : ~ C14_statement pinned.
Proof.
  intros H.
  destruct (H unit (fun _ _ _ => tt) f14_fails f14_graph None f14_oracle 20 eq_refl) as [A _].
  apply A. vm_compute. reflexivity.
Qed.
Print Assumptions C14_refuted_running_then_fail.

Example C14_pinned_witness_detail :
  let o := run_async unit (fun _ _ _ => tt) f14_fails pinned f14_graph None f14_oracle 20 in
  o_status o = Raised /\ launches o = [(0, 0); (1, 0); (2, 0)] /\ should_run_b f14_graph f14_fails (3, 0) = true.
Proof. vm_compute. repeat split. Qed.

(* the same oracle on the repaired code: every independent job runs, the error names the failed job *)
Example C14_repaired_same_oracle :
  let o := run_async unit (fun _ _ _ => tt) f14_fails repaired f14_graph None f14_oracle 20 in
  o_status o = Finished /\ launches o = [(0, 0); (1, 0); (2, 0); (3, 0)] /\ error_names o = [(0, 0)].
Proof. vm_compute. repeat split. Qed.

(* ------------------------------------------------------------------------------------------------
   Total version (termination with failing jobs: Proofs/SchedTermA.v, builder D1, on this model).
   For every oracle, every failing set, max_concurrent >= 1 or none, fuel >= |jobs| + 2, the run ENDS:
   - Finished: exactly the jobs not downstream of a failure were launched, the error names exactly the
     failed jobs (c14_outcome);
   - Stalled (the ten-poll stall detector fired: only possible while more than ten nodes still have to
     be marked unrunnable / have zero jobs, one per poll): every launched job was allowed to run
     (none is downstream of a failure), every job named in the error is a failed job that was launched;
     NOT claimed in this case: that every job not downstream of a failure has been launched.
   It never ends by an exception out of a poll and never runs out of fuel. *)
Definition C14_total_statement (vr : variant) : Prop :=
  forall (V : Type) (body : nat -> nat -> list (list (option V)) -> V) (fails : job -> bool)
         (g : graph) (kmax : option nat) (orc : list oracle_step) (fuel : nat),
    wf_graph g -> (forall k, kmax = Some k -> 1 <= k) -> List.length (all_jobs g) + 2 <= fuel ->
    let o := run_async V body fails vr g kmax orc fuel in
    (o_status o = Finished /\ c14_outcome g fails (launches o) (error_names o))
    \/ (o_status o = Stalled
        /\ (forall j, In j (launches o) -> should_run g fails j)
        /\ (forall j, In j (error_names o) -> should_fail g fails j /\ In j (launches o))).

Theorem C14_full_total : C14_total_statement repaired.
Proof.
  intros V body fails g kmax orc fuel WF KP B o.
  destruct (async_terminates_full V body fails repaired eq_refl g WF kmax KP orc fuel B) as [S|S].
  - left. split; [exact S|]. apply async_c14; auto.
  - right. split; [exact S|split].
    + intros j Hj. apply (async_launched_should_run V body fails repaired eq_refl g WF kmax orc fuel j Hj).
    + intros j Hj. apply (async_errors_should_fail V body fails repaired eq_refl g WF kmax orc fuel j Hj).
Qed.
Print Assumptions C14_full_total.

(* both disjuncts occur: the F14 graph ends Finished; a failing source followed by a chain of twelve nodes
   trips the stall detector (the source ran and is the one error; nothing downstream was launched) *)
Definition stall_chain : graph := mkNode 0 [] 1 :: map (fun i => mkNode (S i) [i] 1) (seq 0 12).
Example C14_total_nonvacuous :
  (wf_graph f14_graph /\ List.length (all_jobs f14_graph) + 2 <= 20
   /\ o_status (run_async unit (fun _ _ _ => tt) f14_fails repaired f14_graph None f14_oracle 20) = Finished)
  /\ (wf_graph stall_chain /\ List.length (all_jobs stall_chain) + 2 <= 15
      /\ let o := run_async unit (fun _ _ _ => tt) f14_fails repaired stall_chain None [] 15 in
         o_status o = Stalled /\ launches o = [(0, 0)] /\ error_names o = [(0, 0)]).
Proof. vm_compute. repeat split; repeat constructor. Qed.
