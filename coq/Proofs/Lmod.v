(* Proofs/Lmod.v — C39 *)
From Pydra Require Import Base.Prelude Model.Lmod Spec.Lmod.
Local Open Scope char_scope.

(* ------------------------------------------------------------------ dictionaries *)
Lemma lookup_set_item e k v k0 :
  lookup k0 (set_item e k v) = if String.eqb k0 k then Some v else lookup k0 e.
Proof.
  induction e as [|[k' v'] e IH]; cbn.
  - destruct (String.eqb k0 k); reflexivity.
  - destruct (String.eqb k k') eqn:E; cbn.
    + apply String.eqb_eq in E; subst k'. destruct (String.eqb k0 k); reflexivity.
    + rewrite IH. destruct (String.eqb k0 k') eqn:E1; [|reflexivity].
      apply String.eqb_eq in E1; subst k'.
      destruct (String.eqb k0 k) eqn:E2; [|reflexivity].
      apply String.eqb_eq in E2; subst k0. rewrite String.eqb_refl in E. discriminate.
Qed.

Lemma keys_set_item e k v :
  map fst (set_item e k v) = if existsb (String.eqb k) (map fst e) then map fst e else map fst e ++ [k].
Proof.
  induction e as [|[k' v'] e IH]; cbn; [reflexivity|].
  destruct (String.eqb k k') eqn:E; cbn; [reflexivity|].
  rewrite IH. destruct (existsb (String.eqb k) (map fst e)); reflexivity.
Qed.

Lemma NoDup_app_snoc {A} (l : list A) (x : A) : NoDup l -> ~ In x l -> NoDup (l ++ [x]).
Proof.
  induction l as [|a l IH]; intros Hn Hx; cbn.
  - apply NoDup_cons; [intros []|apply NoDup_nil].
  - inversion Hn; subst. apply NoDup_cons.
    + rewrite in_app_iff. intros [H|[H|[]]]; [tauto| subst; apply Hx; now left].
    + apply IH; [assumption| intros H; apply Hx; now right].
Qed.

Lemma nodup_set_item e k v : NoDup (map fst e) -> NoDup (map fst (set_item e k v)).
Proof.
  intros H. rewrite keys_set_item.
  destruct (existsb (String.eqb k) (map fst e)) eqn:E; [exact H|].
  apply NoDup_app_snoc; [exact H|].
  intros Hin. assert (existsb (String.eqb k) (map fst e) = true) as X.
  { apply existsb_exists. exists k. split; [exact Hin|apply String.eqb_refl]. }
  congruence.
Qed.

(* last pair for k0 in a list of pairs *)
Fixpoint last_of (kvs : list (string * string)) (k0 : string) : option string :=
  match kvs with
  | [] => None
  | (k, v) :: r => match last_of r k0 with
                   | Some w => Some w
                   | None => if String.eqb k0 k then Some v else None
                   end
  end.

Lemma lookup_set_all kvs : forall e k0,
  lookup k0 (set_all e kvs) = match last_of kvs k0 with Some v => Some v | None => lookup k0 e end.
Proof.
  unfold set_all. induction kvs as [|[k v] kvs IH]; intros e k0; cbn; [reflexivity|].
  rewrite IH. destruct (last_of kvs k0); [reflexivity|].
  rewrite lookup_set_item. destruct (String.eqb k0 k); reflexivity.
Qed.

Lemma nodup_set_all kvs : forall e, NoDup (map fst e) -> NoDup (map fst (set_all e kvs)).
Proof.
  unfold set_all. induction kvs as [|[k v] kvs IH]; intros e H; cbn; [exact H|].
  apply IH. apply nodup_set_item. exact H.
Qed.

(* ------------------------------------------------------------------ scanner on a rendered program *)
Lemma is_prefix_refl_app (p x : chars) : is_prefix Ascii.eqb p (p ++ x) = true.
Proof. apply is_prefix_spec; [intros; apply Ascii.eqb_eq| now exists x]. Qed.

Lemma skipn_exact {A} (p x : list A) : skipn (List.length p) (p ++ x) = x.
Proof. induction p; cbn; auto. Qed.

Lemma is_prefix_nth (p l : chars) :
  is_prefix Ascii.eqb p l = true -> forall i c, nth_error p i = Some c -> nth_error l i = Some c.
Proof.
  intros H i c Hi. apply is_prefix_spec in H; [|intros; apply Ascii.eqb_eq].
  destruct H as [r ->]. rewrite nth_error_app1; [exact Hi|].
  apply nth_error_Some. congruence.
Qed.

Lemma no_lbracket_In l : no_lbracket l = true -> ~ In "["%char l.
Proof.
  unfold no_lbracket. rewrite forallb_forall. intros H Hin. specialize (H _ Hin). cbn in H. discriminate.
Qed.

(* a line without an opening bracket cannot contain (or begin, across its newline) the literal prefix *)
Lemma no_match_in_line (N rest : chars) :
  no_lbracket N = true -> is_prefix Ascii.eqb prefix_lit (N ++ nl :: rest) = false.
Proof.
  intros HN. destruct (is_prefix Ascii.eqb prefix_lit (N ++ nl :: rest)) eqn:E; [exfalso|reflexivity].
  pose proof (is_prefix_nth _ _ E) as Hn.
  destruct (Nat.ltb (List.length N) 11) eqn:L.
  - apply Nat.ltb_lt in L.
    assert (exists c, nth_error prefix_lit (List.length N) = Some c) as [c Hc].
    { destruct (nth_error prefix_lit (List.length N)) eqn:X; [eauto|].
      apply nth_error_None in X. change (List.length prefix_lit) with 11 in X. lia. }
    pose proof (Hn _ _ Hc) as H1.
    rewrite nth_error_app2 in H1 by lia. rewrite Nat.sub_diag in H1. cbn in H1. inversion H1; subst c.
    apply nth_error_In in Hc. vm_compute in Hc.
    repeat (destruct Hc as [Hc|Hc]; [discriminate Hc|]). exact Hc.
  - apply Nat.ltb_ge in L.
    assert (nth_error prefix_lit 10 = Some "["%char) as Hc by reflexivity.
    pose proof (Hn _ _ Hc) as H1. rewrite nth_error_app1 in H1 by lia.
    apply nth_error_In in H1. exact (no_lbracket_In _ HN H1).
Qed.

Lemma match_here_line (N rest : chars) : no_lbracket N = true -> match_here (N ++ nl :: rest) = None.
Proof. intros H. unfold match_here. rewrite no_match_in_line by exact H. reflexivity. Qed.

Lemma no_lbracket_tail c N : no_lbracket (c :: N) = true -> no_lbracket N = true.
Proof. unfold no_lbracket. cbn. rewrite andb_true_iff. tauto. Qed.

Lemma scan_line (N rest : chars) : no_lbracket N = true -> scan (N ++ nl :: rest) 0 = scan rest 0.
Proof.
  induction N as [|c N IH]; intros H.
  - pose proof (match_here_line [] rest eq_refl) as H0. cbn [app] in H0 |- *. cbn [scan]. now rewrite H0.
  - change ((c :: N) ++ nl :: rest) with (c :: (N ++ nl :: rest)). cbn [scan].
    change (c :: (N ++ nl :: rest)) with ((c :: N) ++ nl :: rest).
    rewrite match_here_line by exact H. apply IH. eapply no_lbracket_tail; eauto.
Qed.

Lemma scan_skip (pre rest : chars) : scan (pre ++ rest) (List.length pre) = scan rest 0.
Proof. induction pre as [|c pre IH]; cbn [app List.length scan]; [destruct rest; reflexivity| exact IH]. Qed.

Lemma scan_match l c pre k v rest' :
  l = c :: pre ++ rest' -> match_here l = Some (k, v, rest') ->
  scan l 0 = (str_of k, str_of v) :: scan rest' 0.
Proof.
  intros -> H. cbn [scan]. rewrite H. f_equal. rewrite app_length.
  replace (List.length pre + List.length rest' - List.length rest') with (List.length pre) by lia.
  apply scan_skip.
Qed.

Lemma plain_cons c l : plain (c :: l) = true ->
  is_quote c = false /\ is_nl c = false /\ Ascii.eqb c bslash = false /\ plain l = true.
Proof.
  unfold plain. cbn. rewrite !andb_true_iff, !negb_true_iff. tauto.
Qed.

Lemma escape_plain q l : is_quote q = true -> plain l = true -> escape q l = l.
Proof.
  intros HQ. induction l as [|c l IH]; intros H; [reflexivity|].
  apply plain_cons in H. destruct H as (Hq & _ & Hb & Hl). cbn. rewrite Hb.
  assert (Ascii.eqb c q = false) as ->.
  { destruct (Ascii.eqb c q) eqn:E; [|reflexivity]. apply Ascii.eqb_eq in E. subst c. congruence. }
  cbn. now rewrite IH.
Qed.

Lemma lazy_to_quote_plain v : forall q T acc, plain v = true -> is_quote q = true ->
  lazy_to_quote (v ++ q :: T) acc = Some (rev acc ++ v, T).
Proof.
  induction v as [|c v IH]; intros q T acc Hv Hq; cbn.
  - rewrite Hq, app_nil_r. reflexivity.
  - apply plain_cons in Hv. destruct Hv as (H1 & H2 & _ & H4). rewrite H1, H2.
    rewrite IH by assumption. cbn. now rewrite <- app_assoc.
Qed.

Lemma skip_ws_blanks w : forall c X, forallb is_blank w = true -> is_ws c = false ->
  skip_ws (w ++ c :: X) = c :: X.
Proof.
  induction w as [|b w IH]; intros c X Hw Hc; cbn.
  - now rewrite Hc.
  - cbn in Hw. apply andb_true_iff in Hw. destruct Hw as [Hb Hw].
    assert (is_ws b = true) as ->.
    { unfold is_blank in Hb. apply orb_true_iff in Hb.
      destruct Hb as [Hb|Hb]; apply Ascii.eqb_eq in Hb; subst b; reflexivity. }
    now apply IH.
Qed.

Lemma is_quote_qc b : is_quote (qc b) = true.
Proof. destruct b; reflexivity. Qed.
Lemma is_ws_quote q : is_quote q = true -> is_ws q = false.
Proof.
  unfold is_quote. rewrite orb_true_iff. intros [H|H]; apply Ascii.eqb_eq in H; subst q; reflexivity.
Qed.

Lemma tail_match_ok q1 q2 q3 w1 w2 v T :
  is_quote q1 = true -> is_quote q2 = true -> is_quote q3 = true ->
  forallb is_blank w1 = true -> forallb is_blank w2 = true -> plain v = true ->
  tail_match (q1 :: "]" :: w1 ++ "=" :: w2 ++ q2 :: v ++ q3 :: T) = Some (v, T).
Proof.
  intros H1 H2 H3 Hw1 Hw2 Hv. unfold tail_match. rewrite H1. cbn [andb Ascii.eqb].
  change (Ascii.eqb "]" "]") with true. cbn iota.
  rewrite (skip_ws_blanks w1 "=") by (auto; reflexivity).
  change (Ascii.eqb "=" "=") with true. cbn iota.
  rewrite (skip_ws_blanks w2 q2) by (auto using is_ws_quote).
  rewrite H2. rewrite lazy_to_quote_plain by assumption. reflexivity.
Qed.

Lemma key_match_plain k : forall acc q W v T, plain k = true ->
  tail_match (q :: "]" :: W) = Some (v, T) ->
  key_match (k ++ q :: "]" :: W) acc = Some (rev acc ++ k, v, T).
Proof.
  induction k as [|c k IH]; intros acc q W v T Hk Ht.
  - cbn [app]. destruct W; cbn [key_match]; rewrite Ht; now rewrite app_nil_r.
  - apply plain_cons in Hk. destruct Hk as (H1 & H2 & _ & H4).
    change ((c :: k) ++ q :: "]" :: W) with (c :: (k ++ q :: "]" :: W)).
    assert (tail_match (c :: (k ++ q :: "]" :: W)) = None) as Hn.
    { destruct (k ++ q :: "]" :: W) eqn:E; [reflexivity|]. unfold tail_match. rewrite H1. reflexivity. }
    cbn [key_match]. rewrite Hn, H2.
    rewrite (IH (c :: acc) q W v T H4 Ht). cbn [rev]. now rewrite <- app_assoc.
Qed.

Definition pair_of (s : stmt) : list (string * string) :=
  match s with Assign _ k v => [(k, v)] | Other _ => [] end.
Definition assigns (stmts : list stmt) : list (string * string) := flat_map pair_of stmts.

Lemma wf_assign sty k v : wf_stmt (Assign sty k v) = true ->
  forallb is_blank (ws_before sty) = true /\ forallb is_blank (ws_after sty) = true /\
  no_nl (trailer sty) = true /\ no_lbracket (trailer sty) = true /\ plain (la_of k) = true.
Proof. cbn. unfold wf_style. rewrite !andb_true_iff. tauto. Qed.

Lemma scan_stmt s rest : wf_stmt s = true -> plain_stmt s = true ->
  scan (render_stmt s ++ rest) 0 = pair_of s ++ scan rest 0.
Proof.
  destruct s as [sty k v|line]; intros Hwf Hp.
  - apply wf_assign in Hwf. destruct Hwf as (Hw1 & Hw2 & _ & Hlb & Hk). cbn in Hp.
    cbn [render_stmt pair_of].
    rewrite !escape_plain by (auto using is_quote_qc).
    set (body := qc (key_dq sty) :: la_of k ++ qc (key_dq sty) :: "]" :: ws_before sty ++ "=" :: ws_after sty ++
                 qc (val_dq sty) :: la_of v ++ qc (val_dq sty) :: trailer sty ++ [nl]).
    assert (Hm : match_here (prefix_lit ++ body ++ rest) = Some (la_of k, la_of v, trailer sty ++ nl :: rest)).
    { unfold match_here. rewrite is_prefix_refl_app, skipn_exact. unfold body. cbn [app].
      rewrite is_quote_qc.
      repeat (rewrite <- app_assoc; cbn [app]).
      rewrite (key_match_plain (la_of k) [] (qc (key_dq sty))
                 (ws_before sty ++ "=" :: ws_after sty ++ qc (val_dq sty) :: la_of v ++ qc (val_dq sty) :: trailer sty ++ nl :: rest)
                 (la_of v) (trailer sty ++ nl :: rest) Hk).
      - reflexivity.
      - apply tail_match_ok; auto using is_quote_qc. }
    set (pre := tl prefix_lit ++ qc (key_dq sty) :: la_of k ++ qc (key_dq sty) :: "]" :: ws_before sty ++ "=" :: ws_after sty ++
                 qc (val_dq sty) :: la_of v ++ [qc (val_dq sty)]).
    assert (E : prefix_lit ++ body ++ rest = "o" :: pre ++ (trailer sty ++ nl :: rest)).
    { unfold pre, body. repeat (rewrite <- ?app_assoc; cbn [app]). reflexivity. }
    rewrite <- app_assoc.
    rewrite (scan_match _ _ _ _ _ _ E Hm). rewrite !str_of_la_of. cbn [app]. f_equal.
    apply scan_line. exact Hlb.
  - cbn in Hwf. apply andb_true_iff in Hwf. destruct Hwf as [_ Hlb].
    cbn [render_stmt pair_of app]. rewrite <- app_assoc. cbn [app]. apply scan_line. exact Hlb.
Qed.

Lemma scan_render stmts :
  forallb wf_stmt stmts = true -> forallb plain_stmt stmts = true ->
  scan (render stmts) 0 = assigns stmts.
Proof.
  induction stmts as [|s stmts IH]; intros Hwf Hp; [reflexivity|].
  cbn in Hwf, Hp. apply andb_true_iff in Hwf. apply andb_true_iff in Hp.
  destruct Hwf as [Hs Hwf]. destruct Hp as [Hps Hp].
  unfold render, assigns. cbn [flat_map]. rewrite scan_stmt by assumption.
  f_equal. apply IH; assumption.
Qed.

Lemma final_last_of stmts k : final stmts k = last_of (assigns stmts) k.
Proof.
  induction stmts as [|s stmts IH]; [reflexivity|].
  cbn [final]. rewrite IH. unfold assigns. cbn [flat_map]. fold (assigns stmts).
  destruct s as [sty k' v|line]; cbn [pair_of app last_of].
  - reflexivity.
  - destruct (last_of (assigns stmts) k); reflexivity.
Qed.

(* ------------------------------------------------------------------ the theorems *)
(* for EVERY text lmod may print (not only well-formed programs): the child environment is the caller
   environment overridden by the pairs the scanner reads; nothing else is changed or dropped *)
Theorem child_env_any_output caller out argv child :
  NoDup (map fst caller) ->
  execute caller out argv = Ran child argv ->
  NoDup (map fst child) /\
  forall k, lookup k child = match last_of (findall out) k with Some v => Some v | None => lookup k caller end.
Proof.
  unfold execute. intros Hnd H.
  destruct (lookup "MODULESHOME"%string caller); [|discriminate].
  destruct (String.eqb out mlstatus_false); [discriminate|].
  inversion H; subst child. split; [now apply nodup_set_all| intros k; apply lookup_set_all].
Qed.

Theorem untouched_pass_through caller out argv child k :
  execute caller out argv = Ran child argv ->
  last_of (findall out) k = None -> lookup k child = lookup k caller.
Proof.
  unfold execute. intros H Hk.
  destruct (lookup "MODULESHOME"%string caller); [|discriminate].
  destruct (String.eqb out mlstatus_false); [discriminate|].
  inversion H; subst child. rewrite lookup_set_all, Hk. reflexivity.
Qed.

Definition full_statement : Prop :=
  forall (caller : env) (stmts : list stmt) (argv : list string) (home : string),
    lookup "MODULESHOME"%string caller = Some home -> NoDup (map fst caller) ->
    forallb wf_stmt stmts = true -> str_of (render stmts) <> mlstatus_false ->
    exists child, execute caller (str_of (render stmts)) argv = Ran child argv /\
                  spec_child_env caller stmts child.

Theorem partial :
  forall (caller : env) (stmts : list stmt) (argv : list string) (home : string),
    lookup "MODULESHOME"%string caller = Some home -> NoDup (map fst caller) ->
    forallb wf_stmt stmts = true -> forallb plain_stmt stmts = true ->
    str_of (render stmts) <> mlstatus_false ->
    exists child, execute caller (str_of (render stmts)) argv = Ran child argv /\
                  spec_child_env caller stmts child.
Proof.
  intros caller stmts argv home Hh Hnd Hwf Hp Hne.
  unfold execute. rewrite Hh.
  destruct (String.eqb (str_of (render stmts)) mlstatus_false) eqn:E.
  { apply String.eqb_eq in E. contradiction. }
  eexists. split; [reflexivity|]. split; [now apply nodup_set_all|].
  intros k. rewrite lookup_set_all. unfold findall. rewrite la_of_str_of.
  rewrite scan_render by assumption. unfold spec_lookup. now rewrite final_last_of.
Qed.

Corollary partial_untouched :
  forall caller stmts argv home child,
    lookup "MODULESHOME"%string caller = Some home ->
    forallb wf_stmt stmts = true -> forallb plain_stmt stmts = true ->
    execute caller (str_of (render stmts)) argv = Ran child argv ->
    forall k, ~ In k (assigned stmts) -> lookup k child = lookup k caller.
Proof.
  intros caller stmts argv home child Hh Hwf Hp Hx k Hk.
  apply (untouched_pass_through _ _ _ _ _ Hx).
  unfold findall. rewrite la_of_str_of, scan_render by assumption.
  rewrite <- final_last_of. clear - Hk.
  induction stmts as [|s stmts IH]; [reflexivity|].
  unfold assigned in Hk. cbn [flat_map] in Hk. fold (assigned stmts) in Hk. rewrite in_app_iff in Hk.
  cbn [final]. rewrite IH by tauto.
  destruct s as [sty k' v|line]; [|reflexivity].
  destruct (String.eqb k k') eqn:E; [|reflexivity].
  apply String.eqb_eq in E. subst k'. exfalso. apply Hk. left. now left.
Qed.

(* a value with an apostrophe, printed as Lmod prints it: the scanner cuts it at the apostrophe *)
Definition sty0 : style := {| key_dq := true; val_dq := true; ws_before := [" "]; ws_after := [" "]; trailer := [] |}.
Definition witness_caller : env := [("MODULESHOME", "/opt/lmod"); ("HOME", "/home/u")]%string.
Definition witness_stmts : list stmt := [Assign sty0 "MSG" "it's"]%string.

Theorem refuted_quote_in_value : ~ full_statement.
Proof.
  intros H.
  destruct (H witness_caller witness_stmts ["cmd"%string] "/opt/lmod"%string) as [child [Hx [_ Hs]]];
    try reflexivity.
  - apply NoDup_cons; [cbn; intros [X|[]]; discriminate|]. apply NoDup_cons; [intros []|apply NoDup_nil].
  - vm_compute. discriminate.
  - vm_compute in Hx. inversion Hx; subst child. specialize (Hs "MSG"%string). vm_compute in Hs. discriminate.
Qed.

(* the tree before the fix commit: the caller environment was dropped *)
Definition pinned_statement : Prop :=
  forall (caller : env) (stmts : list stmt) (argv : list string) (home : string),
    lookup "MODULESHOME"%string caller = Some home -> NoDup (map fst caller) ->
    forallb wf_stmt stmts = true -> forallb plain_stmt stmts = true ->
    str_of (render stmts) <> mlstatus_false ->
    exists child, execute_pinned caller (str_of (render stmts)) argv = Ran child argv /\
                  spec_child_env caller stmts child.

Theorem pinned_refuted_env_dropped : ~ pinned_statement.
Proof.
  intros H.
  destruct (H witness_caller [Assign sty0 "FOO" "bar"]%string ["cmd"%string] "/opt/lmod"%string)
    as [child [Hx [_ Hs]]]; try reflexivity.
  - apply NoDup_cons; [cbn; intros [X|[]]; discriminate|]. apply NoDup_cons; [intros []|apply NoDup_nil].
  - vm_compute. discriminate.
  - vm_compute in Hx. inversion Hx; subst child. specialize (Hs "HOME"%string). vm_compute in Hs. discriminate.
Qed.

Theorem argv_is_native caller out argv child argv' :
  execute caller out argv = Ran child argv' -> argv' = argv.
Proof.
  unfold execute. destruct (lookup "MODULESHOME"%string caller); [|discriminate].
  destruct (String.eqb out mlstatus_false); [discriminate|]. intros H; now inversion H.
Qed.

Theorem errors caller argv :
  (lookup "MODULESHOME"%string caller = None -> forall out, execute caller out argv = ErrNoLmod) /\
  (forall home, lookup "MODULESHOME"%string caller = Some home -> execute caller mlstatus_false argv = ErrModule).
Proof.
  split; unfold execute.
  - intros -> out. reflexivity.
  - intros home ->. rewrite String.eqb_refl. reflexivity.
Qed.

(* the hypotheses of [partial] are met by a non-trivial program *)
Example partial_nonvacuous :
  let stmts := [Assign sty0 "PATH" "/opt/m/bin:/usr/bin"; Other "_mlstatus = True";
                Assign {| key_dq := false; val_dq := false; ws_before := []; ws_after := []; trailer := [";"%char] |} "FOO" "a b"]%string in
  forallb wf_stmt stmts = true /\ forallb plain_stmt stmts = true /\
  execute (("PATH", "/usr/bin") :: witness_caller)%string (str_of (render stmts)) ["cmd"%string]
  = Ran [("PATH", "/opt/m/bin:/usr/bin"); ("MODULESHOME", "/opt/lmod"); ("HOME", "/home/u"); ("FOO", "a b")]%string ["cmd"%string].
Proof. vm_compute. auto. Qed.

(* what Lmod prints for an unset (unsetenv / unload): an assignment of the empty string followed by a del.
   The scanner reads the assignment and never the del, so the command sees the variable set to the empty string.
   Recorded as behaviour, not as a violation: the property speaks of variables the modules set and of
   variables they do not touch; a variable a module unsets is neither. *)
Definition unset_text : string :=
  str_of (la_of "os.environ[""X""] = ''" ++ [nl] ++ la_of "del os.environ[""X""]" ++ [nl]).
Example unset_reads_as_empty :
  execute [("MODULESHOME", "/m"); ("X", "old"); ("HOME", "/h")]%string unset_text ["cmd"%string]
  = Ran [("MODULESHOME", "/m"); ("X", ""); ("HOME", "/h")]%string ["cmd"%string] /\
  findall unset_text = [("X", "")]%string.
Proof. vm_compute. auto. Qed.
