(* Proofs/GraphInv.v — the invariant kept by every DiGraph operation that returns:
   the recorded order (if any) is a permutation of the remaining nodes and places every node
   after each recorded predecessor that is still a node. *)
From Pydra Require Import Base.Prelude Model.Graph Proofs.GraphBase Proofs.GraphSort.
From Coq Require Import Sorting.Permutation.
Local Open Scope nat_scope.
Local Open Scope list_scope.

Definition pred_ok (ns : list node) (pd : dict) (s : list node) : Prop :=
  Permutation s ns /\ forall a b, In a ns -> In b ns -> inW pd b a -> before a b s.

Definition inv (g : graph) : Prop :=
  NoDup (g_nodes g) /\ NoDup (dkeys (g_preds g)) /\
  forall s, g_sorted g = Some s -> pred_ok (g_nodes g) (g_preds g) s.

Lemma inS_dec sd a b : {inS sd a b} + {~ inS sd a b}.
Proof.
  unfold inS. destruct (dget sd a) as [sl|].
  - destruct (in_dec Nat.eq_dec b sl) as [H|H]; [left; eauto|right].
    intros [sl' [E Hin]]. inversion E; subst. contradiction.
  - right. intros [sl' [E _]]. discriminate.
Qed.

(* ---- sorting *)
Lemma sorting_sound g pres g' :
  sorting g pres = Ok g' ->
  exists l, g' = set_sorted g (Some l) /\ Permutation l (if nonempty pres then pres else g_nodes g) /\
            forall a b, In a (if nonempty pres then pres else g_nodes g) ->
                        In b (if nonempty pres then pres else g_nodes g) ->
                        inW (g_preds g) b a -> before a b l.
Proof.
  unfold sorting. set (ns := if nonempty pres then pres else g_nodes g). intros H.
  apply bind_ok in H. destruct H as [w0 [Hrel H]].
  apply bind_ok in H. destruct H as [l [Hloop H]]. inversion H; subst g'. clear H.
  exists l. split; [reflexivity|].
  destruct (release_shrinks _ _ _ _ Hrel) as [Hsh _].
  destruct (sort_loop_sound _ _ _ _ _ _ Hloop) as [rest [E [Hperm [Hbef Hs]]]].
  cbn in E. subst rest. split; [exact Hperm|].
  intros a b Ha Hb Hw. apply Hbef; [exact Hb|exact Ha|].
  destruct (inS_dec (g_succs g) a b) as [Hsab|Hn].
  - apply Hs; assumption.
  - eapply shrinks_keep; [exact Hsh|exact Hw|]. intros [_ Hc]. contradiction.
Qed.

Lemma nonempty_perm (pres ns : list node) :
  Permutation pres ns -> Permutation (if nonempty pres then pres else ns) ns.
Proof.
  destruct pres; cbn; intros H; [|exact H]. apply Permutation_nil in H. subst. constructor.
Qed.

Lemma sorting_inv g pres g' :
  NoDup (g_nodes g) -> NoDup (dkeys (g_preds g)) ->
  Permutation (if nonempty pres then pres else g_nodes g) (g_nodes g) ->
  sorting g pres = Ok g' ->
  inv g' /\ exists l, g' = set_sorted g (Some l).
Proof.
  intros Hnd Hk Hp H. destruct (sorting_sound g pres g' H) as [l [-> [Hperm Hbef]]].
  split; [|eauto]. split; [exact Hnd|]. split; [exact Hk|]. cbn. intros s E. inversion E; subst s. split.
  - eapply Permutation_trans; eauto.
  - intros a b Ha Hb Hw. apply Hbef; try assumption;
      (eapply Permutation_in; [symmetry; exact Hp|assumption]).
Qed.

(* ---- before *)
Lemma before_drop_prefix a b l s :
  before a b (l ++ s) -> ~ In a l -> before a b s.
Proof.
  intros [l1 [l2 [E [Ha Hb]]]] Hna. revert l1 E Ha. induction l as [|x l IH]; cbn; intros l1 E Ha.
  - exists l1, l2. auto.
  - destruct l1 as [|y l1]; [contradiction|]. cbn in E. inversion E; subst y.
    destruct Ha as [->|Ha]; [exfalso; apply Hna; left; reflexivity|].
    apply (IH (fun H => Hna (or_intror H)) l1); assumption.
Qed.

(* ---- construction *)
Lemma dkeys_empty (ns : list node) : dkeys (map (fun n => (n, @nil node)) ns) = ns.
Proof. unfold dkeys. rewrite map_map. cbn. apply map_id. Qed.

Lemma connect_keys pd sd e pd' sd' :
  connect pd sd e = Ok (pd', sd') -> NoDup (dkeys pd) -> NoDup (dkeys pd').
Proof.
  unfold connect. intros H Hnd. apply bind_ok in H. destruct H as [p1 [H1 H]].
  apply bind_ok in H. destruct H as [s1 [H2 H]]. inversion H; subst.
  apply dappend_ok in H1. destruct H1 as [v [_ ->]]. apply dset_nodup_keys, Hnd.
Qed.

Lemma connect_all_keys es : forall pd sd ps,
  connect_all es pd sd = Ok ps -> NoDup (dkeys pd) -> NoDup (dkeys (fst ps)).
Proof.
  unfold connect_all. induction es as [|e es IH]; cbn; intros pd sd ps H Hnd.
  - inversion H; subst. exact Hnd.
  - apply bind_ok in H. destruct H as [[p1 s1] [H1 H]]. cbn in H1.
    eapply (IH p1 s1); [exact H|]. eapply connect_keys; eauto.
Qed.

Lemma check_dup_nodup (l : list node) : nonempty l && has_dup l = false -> NoDup l.
Proof.
  destruct l as [|x l]; cbn [nonempty andb]; intros H; [constructor|]. now apply has_dup_false.
Qed.

Lemma init_inv ns es g : init ns es = Ok g -> inv g.
Proof.
  unfold init. destruct (nonempty ns && has_dup ns) eqn:Hd; [discriminate|].
  destruct (nonempty es && negb (edges_in_nodes ns es)); [discriminate|].
  intros H. apply bind_ok in H. destruct H as [ps [Hc H]]. inversion H; subst g. clear H.
  apply check_dup_nodup in Hd. split; [exact Hd|]. split; [|cbn; discriminate]. cbn.
  eapply connect_all_keys; [exact Hc|]. rewrite dkeys_empty. exact Hd.
Qed.

Lemma fold_dset_nodup new : forall d, NoDup (dkeys d) ->
  NoDup (dkeys (fold_left (fun d n => dset d n []) new d)).
Proof. induction new as [|n new IH]; cbn; intros d H; [exact H|]. apply IH, dset_nodup_keys, H. Qed.

Lemma add_nodes_inv g new g' : inv g -> add_nodes g new = Ok g' -> inv g'.
Proof.
  intros [Hnd [Hk Hs]]. unfold add_nodes.
  destruct (nonempty (g_nodes g ++ new) && has_dup (g_nodes g ++ new)) eqn:Hd; [discriminate|].
  apply check_dup_nodup in Hd.
  destruct (g_sorted g) as [s|] eqn:Hsorted.
  - intros H. eapply sorting_inv in H; [exact (proj1 H)|exact Hd| |]; cbn.
    + apply fold_dset_nodup, Hk.
    + apply nonempty_perm. apply Permutation_app_tail. exact (proj1 (Hs s eq_refl)).
  - intros H. inversion H; subst g'. split; [exact Hd|]. split; [apply fold_dset_nodup, Hk|].
    cbn. discriminate.
Qed.

Lemma add_edges_inv g new g' : inv g -> add_edges g new = Ok g' -> inv g'.
Proof.
  intros [Hnd [Hk Hs]]. unfold add_edges.
  destruct (nonempty (g_edges g ++ new) && negb (edges_in_nodes (g_nodes g) (g_edges g ++ new))); [discriminate|].
  intros H. apply bind_ok in H. destruct H as [ps [Hc H]].
  assert (Hk' : NoDup (dkeys (fst ps))) by (eapply connect_all_keys; eauto).
  destruct (g_sorted g) as [s|] eqn:Hsorted.
  - eapply sorting_inv in H; [exact (proj1 H)|exact Hnd|exact Hk'|]; cbn.
    apply nonempty_perm. exact (proj1 (Hs s eq_refl)).
  - inversion H; subst g'. split; [exact Hnd|]. split; [exact Hk'|]. cbn. discriminate.
Qed.

(* ---- remove_nodes *)
Lemma mark_removed_spec c g nd g' :
  mark_removed c g nd = Ok g' ->
  Permutation (g_nodes g) (nd :: g_nodes g') /\
  g_preds g' = g_preds g /\ g_succs g' = g_succs g /\ g_edges g' = g_edges g /\
  g_sorted g' = g_sorted g /\ g_wip g' = g_wip g ++ [nd].
Proof.
  unfold mark_removed. destruct (negb (memb nd (g_nodes g))); [discriminate|].
  intros H. apply bind_ok in H. destruct H as [p [_ H]].
  destruct (nonempty p && c); [discriminate|].
  apply bind_ok in H. destruct H as [ns [Hr H]]. inversion H; subst g'. cbn.
  apply of_opt_ok in Hr. repeat split. eapply (remove_one_perm Nat.eqb Nat.eqb_eq); eauto.
Qed.

Lemma mark_removed_all c l : forall g g',
  foldM (mark_removed c) l g = Ok g' ->
  Permutation (g_nodes g) (l ++ g_nodes g') /\
  g_preds g' = g_preds g /\ g_succs g' = g_succs g /\ g_edges g' = g_edges g /\
  g_sorted g' = g_sorted g /\ g_wip g' = g_wip g ++ l.
Proof.
  induction l as [|x l IH]; cbn; intros g g' H.
  - inversion H; subst. rewrite app_nil_r. repeat split. reflexivity.
  - apply bind_ok in H. destruct H as [g1 [H1 H]].
    destruct (mark_removed_spec _ _ _ _ H1) as [P1 [E1 [E2 [E3 [E4 E5]]]]].
    destruct (IH _ _ H) as [P2 [F1 [F2 [F3 [F4 F5]]]]].
    repeat split; try congruence.
    + rewrite P1. constructor. exact P2.
    + rewrite F5, E5, <- app_assoc. reflexivity.
Qed.

Lemma remove_all_perm l : forall s s', remove_all l s = Ok s' -> Permutation s (l ++ s').
Proof.
  unfold remove_all. induction l as [|x l IH]; cbn; intros s s' H.
  - inversion H; subst. reflexivity.
  - apply bind_ok in H. destruct H as [s1 [H1 H]]. apply of_opt_ok in H1.
    rewrite (remove_one_perm Nat.eqb Nat.eqb_eq _ _ _ H1). constructor. apply IH, H.
Qed.

Lemma list_eqb_nat a b : list_eqb Nat.eqb a b = true -> a = b.
Proof. apply list_eqb_spec. intros; apply Nat.eqb_eq. Qed.

Lemma nodup_app_disj (l r : list node) x : NoDup (l ++ r) -> In x l -> In x r -> False.
Proof.
  induction l as [|y l IH]; cbn; intros Hnd Hl Hr; [contradiction|].
  inversion Hnd; subst. destruct Hl as [->|Hl]; [apply H1, in_or_app; auto|auto].
Qed.

Lemma pred_ok_remove l ns' pd s s' :
  NoDup (l ++ ns') -> Permutation s (l ++ s') -> pred_ok (l ++ ns') pd s ->
  (* s' is what remains of s once the nodes of l are taken out, in the same relative order *)
  (forall a b, before a b s -> ~ In a l -> ~ In b l -> before a b s') ->
  pred_ok ns' pd s'.
Proof.
  intros Hnd Hp [Hperm Hbef] Hkeep. split.
  - eapply Permutation_app_inv_l. rewrite <- Hp. exact Hperm.
  - intros a b Ha Hb Hw.
    assert (Hd : forall x, In x ns' -> ~ In x l).
    { intros x Hx Hl. eapply nodup_app_disj; eauto. }
    apply Hkeep; [|apply Hd, Ha|apply Hd, Hb].
    apply Hbef; [apply in_or_app; auto|apply in_or_app; auto|exact Hw].
Qed.

Lemma nodup_app_r (l r : list node) : NoDup (l ++ r) -> NoDup r.
Proof. induction l as [|y l IH]; cbn; intros H; [exact H|]. inversion H; auto. Qed.

Lemma firstn_incl {A} n (l : list A) x : In x (firstn n l) -> In x l.
Proof. intros H. rewrite <- (firstn_skipn n l). apply in_or_app. auto. Qed.

Lemma finish_remove_uses g2 l s g' x : finish_remove g2 l s = Ok g' -> In x l -> In x s.
Proof.
  unfold finish_remove. destruct (list_eqb Nat.eqb l (firstn (List.length l) s)) eqn:E.
  - intros _ Hx. apply list_eqb_nat in E. rewrite E in Hx. eapply firstn_incl; eauto.
  - intros H Hx. apply bind_ok in H. destruct H as [s' [Hr _]]. apply remove_all_perm in Hr.
    eapply Permutation_in; [symmetry; exact Hr|apply in_or_app; auto].
Qed.

Lemma finish_remove_inv g2 l s g' :
  NoDup (l ++ g_nodes g2) -> NoDup (dkeys (g_preds g2)) ->
  pred_ok (l ++ g_nodes g2) (g_preds g2) s ->
  finish_remove g2 l s = Ok g' -> inv g'.
Proof.
  intros Hnd Hk Hok. unfold finish_remove.
  destruct (list_eqb Nat.eqb l (firstn (List.length l) s)) eqn:E.
  - intros H. inversion H; subst g'. clear H. apply list_eqb_nat in E.
    assert (Es : s = l ++ skipn (List.length l) s) by (rewrite E at 1; symmetry; apply firstn_skipn).
    split; [eapply nodup_app_r; eauto|]. split; [exact Hk|]. cbn. intros s0 E0. inversion E0; subst s0.
    eapply pred_ok_remove; [exact Hnd| |exact Hok|].
    + rewrite <- Es. reflexivity.
    + intros a b Hb Ha _. rewrite Es in Hb. eapply before_drop_prefix; eauto.
  - intros H. apply bind_ok in H. destruct H as [s' [Hr H]]. apply remove_all_perm in Hr.
    eapply sorting_inv in H; [exact (proj1 H)| | |]; cbn.
    + eapply nodup_app_r; eauto.
    + exact Hk.
    + apply nonempty_perm. eapply Permutation_app_inv_l. rewrite <- Hr. exact (proj1 Hok).
Qed.

Lemma remove_nodes_inv g l c g' : inv g -> remove_nodes g l c = Ok g' -> inv g'.
Proof.
  intros [Hnd [Hk Hs]]. unfold remove_nodes. intros H.
  apply bind_ok in H. destruct H as [g1 [Hm H]].
  destruct (mark_removed_all _ _ _ _ Hm) as [Pn [Ep [_ [_ [Es _]]]]].
  assert (Hnd1 : NoDup (l ++ g_nodes g1)) by (eapply Permutation_NoDup; eauto).
  destruct (g_sorted g1) as [s|] eqn:Hs1.
  - eapply finish_remove_inv; [exact Hnd1|rewrite Ep; exact Hk| |exact H].
    rewrite Ep. destruct (Hs s (eq_sym Es)) as [Hp Hb]. split.
    + rewrite Hp. exact Pn.
    + intros a b Ha Hb'. apply Hb; (eapply Permutation_in; [symmetry; exact Pn|assumption]).
  - inversion H; subst g'. split; [eapply nodup_app_r; eauto|]. split; [rewrite Ep; exact Hk|].
    rewrite Hs1. discriminate.
Qed.

(* ---- removing connections: the predecessors dictionary only loses entries *)
Definition sub_dict (pd' pd : dict) : Prop := forall b a, inW pd' b a -> inW pd b a.

Lemma inv_shrink_preds g g' :
  inv g -> g_nodes g' = g_nodes g -> g_sorted g' = g_sorted g ->
  sub_dict (g_preds g') (g_preds g) -> NoDup (dkeys (g_preds g')) -> inv g'.
Proof.
  intros [Hnd [Hk Hs]] En Es Hsub Hk'. split; [rewrite En; exact Hnd|]. split; [exact Hk'|].
  rewrite En, Es. intros s E. destruct (Hs s E) as [Hp Hb]. split; [exact Hp|].
  intros a b Ha Hb' Hw. apply Hb; auto.
Qed.

Lemma dremove_sub w b a w' :
  dremove w b a = Ok w' -> sub_dict w' w /\ (NoDup (dkeys w) -> NoDup (dkeys w')).
Proof.
  intros H. apply dremove_ok in H. destruct H as [v [v' [Hg [Hr ->]]]]. split.
  - intros c x [pl [Hc Hx]]. rewrite dget_dset in Hc. destruct (Nat.eqb c b) eqn:E.
    + apply Nat.eqb_eq in E. subst c. inversion Hc; subst pl. exists v. split; [exact Hg|].
      eapply (remove_one_incl Nat.eqb Nat.eqb_eq); eauto.
    + exists pl. auto.
  - apply dset_nodup_keys.
Qed.

Lemma dpop_sub d k d' :
  dpop d k = Some d' -> NoDup (dkeys d) -> sub_dict d' d /\ NoDup (dkeys d').
Proof.
  intros H Hnd. destruct (dpop_spec _ _ _ H Hnd) as [Hg Hnd']. split; [|exact Hnd'].
  intros b a [pl [Hb Ha]]. rewrite Hg in Hb. destruct (Nat.eqb b k); [discriminate|]. exists pl. auto.
Qed.

Lemma sub_dict_refl d : sub_dict d d.
Proof. intros b a H. exact H. Qed.
Lemma sub_dict_trans d1 d2 d3 : sub_dict d1 d2 -> sub_dict d2 d3 -> sub_dict d1 d3.
Proof. intros H1 H2 b a H. auto. Qed.

Lemma disconnect_succ_all nd sl : forall st st',
  foldM (disconnect_succ nd) sl st = Ok st' ->
  sub_dict (fst st') (fst st) /\ (NoDup (dkeys (fst st)) -> NoDup (dkeys (fst st'))).
Proof.
  induction sl as [|x sl IH]; cbn; intros st st' H.
  - inversion H; subst. split; [apply sub_dict_refl|auto].
  - apply bind_ok in H. destruct H as [st1 [H1 H]]. unfold disconnect_succ in H1.
    apply bind_ok in H1. destruct H1 as [pd [Hd H1]]. apply bind_ok in H1. destruct H1 as [es [_ H1]].
    inversion H1; subst st1. clear H1. destruct (dremove_sub _ _ _ _ Hd) as [S1 K1].
    destruct (IH _ _ H) as [S2 K2]. cbn in *. split; [eapply sub_dict_trans; eauto|auto].
Qed.

Lemma pop_node_spec g pd sd es nd g' :
  pop_node g pd sd es nd = Ok g' -> NoDup (dkeys pd) ->
  g_nodes g' = g_nodes g /\ g_sorted g' = g_sorted g /\ sub_dict (g_preds g') pd /\ NoDup (dkeys (g_preds g')).
Proof.
  unfold pop_node. intros H Hnd. apply bind_ok in H. destruct H as [sd' [_ H]].
  apply bind_ok in H. destruct H as [pd' [Hp H]]. apply bind_ok in H. destruct H as [wip [_ H]].
  inversion H; subst g'. cbn. apply of_opt_ok in Hp. destruct (dpop_sub _ _ _ Hp Hnd). auto.
Qed.

Lemma remove_connections_one_inv g nd g' : inv g -> remove_connections_one g nd = Ok g' -> inv g'.
Proof.
  intros Hi H. unfold remove_connections_one in H.
  apply bind_ok in H. destruct H as [sl [_ H]]. apply bind_ok in H. destruct H as [st [Hf H]].
  destruct (disconnect_succ_all _ _ _ _ Hf) as [S1 K1]. cbn in S1, K1.
  destruct (pop_node_spec _ _ _ _ _ _ H (K1 (proj1 (proj2 Hi)))) as [En [Es [S2 K2]]].
  eapply inv_shrink_preds; eauto. eapply sub_dict_trans; eauto.
Qed.

Lemma remove_nodes_connections_inv g l g' : inv g -> remove_nodes_connections g l = Ok g' -> inv g'.
Proof.
  unfold remove_nodes_connections. apply (foldM_inv remove_connections_one inv).
  intros s x s' _. apply remove_connections_one_inv.
Qed.

Lemma remove_previous_one_inv g nd g' : inv g -> remove_previous_one g nd = Ok g' -> inv g'.
Proof.
  intros Hi H. unfold remove_previous_one in H.
  apply bind_ok in H. destruct H as [pl [_ H]]. apply bind_ok in H. destruct H as [st [_ H]].
  destruct (pop_node_spec _ _ _ _ _ _ H (proj1 (proj2 Hi))) as [En [Es [S2 K2]]].
  eapply inv_shrink_preds; eauto.
Qed.

Lemma remove_previous_connections_inv g l g' : inv g -> remove_previous_connections g l = Ok g' -> inv g'.
Proof.
  unfold remove_previous_connections. apply (foldM_inv remove_previous_one inv).
  intros s x s' _. apply remove_previous_one_inv.
Qed.

Lemma remove_successors_nodes_inv g n g' : inv g -> remove_successors_nodes g n = Ok g' -> inv g'.
Proof.
  unfold remove_successors_nodes. intros Hi H.
  apply bind_ok in H. destruct H as [all [_ H]]. apply bind_ok in H. destruct H as [g1 [H1 H]].
  apply bind_ok in H. destruct H as [g2 [H2 H]].
  eapply (foldM_inv (fun g nd => remove_previous_connections g [nd]) inv); [| |exact H].
  - intros s x s' _. apply remove_previous_connections_inv.
  - eapply (foldM_inv (fun g nd => remove_nodes g [nd] false) inv); [| |exact H2].
    + intros s x s' _. apply remove_nodes_inv.
    + eapply remove_nodes_connections_inv; eauto.
Qed.

Lemma sorted_nodes_inv g g' s : inv g -> sorted_nodes g = Ok (g', s) -> inv g'.
Proof.
  unfold sorted_nodes. intros Hi. destruct (g_sorted g) eqn:E.
  - intros H. inversion H; subst. exact Hi.
  - intros H. apply bind_ok in H. destruct H as [g1 [H1 H]]. inversion H; subst g'.
    destruct Hi as [Hnd [Hk _]]. eapply sorting_inv in H1; [exact (proj1 H1)|exact Hnd|exact Hk|reflexivity].
Qed.

Lemma copy_graph_inv g : inv g -> inv (copy_graph g).
Proof.
  intros Hi. unfold copy_graph. destruct (g_sorted g) as [[|x s]|]; try exact Hi.
  destruct Hi as [Hnd [Hk _]]. split; [exact Hnd|]. split; [exact Hk|]. cbn. discriminate.
Qed.

Lemma step_inv g o g' : inv g -> step g o = Ok g' -> inv g'.
Proof.
  intros Hi. destruct o; cbn.
  - apply add_nodes_inv, Hi.
  - apply add_edges_inv, Hi.
  - apply remove_nodes_inv, Hi.
  - apply remove_nodes_connections_inv, Hi.
  - apply remove_previous_connections_inv, Hi.
  - apply remove_successors_nodes_inv, Hi.
  - intros H. destruct Hi as [Hnd [Hk _]]. eapply sorting_inv in H; [exact (proj1 H)|exact Hnd|exact Hk|reflexivity].
  - intros H. apply bind_ok in H. destruct H as [[g1 s] [H1 H]]. inversion H; subst g'.
    eapply sorted_nodes_inv; eauto.
  - intros H. inversion H; subst. apply copy_graph_inv, Hi.
Qed.

Lemma run_inv g ops g' : inv g -> run g ops = Ok g' -> inv g'.
Proof. unfold run. apply (foldM_inv step inv). intros s x s' _. apply step_inv. Qed.
