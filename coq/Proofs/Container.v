(* Proofs/Container.v — C27: pathlib normalisation lemmas, the bindings dictionary as a fold, the theorems. *)
From Pydra Require Import Base.Prelude Base.PyPath Model.Container Spec.Container.
Local Open Scope list_scope.

(* ---------- components ---------- *)
Definition no_slash (c : list ascii) : bool := forallb (fun x => negb (Ascii.eqb x slash)) c.
Definition wfc (c : list ascii) : bool := no_slash c && keep_comp c.
Definition A (cs : list (list ascii)) : ppath := {| p_anchor := ARoot; p_comps := cs |}.

Lemma split_slash_comp c : forall cur rest, no_slash c = true ->
  split_slash (c ++ slash :: rest) cur = (rev cur ++ c) :: split_slash rest [].
Proof.
  induction c as [|x c IH]; intros cur rest H; cbn.
  - rewrite ?Ascii.eqb_refl, app_nil_r. reflexivity.
  - cbn in H. apply andb_true_iff in H. destruct H as [Hx Hc]. apply negb_true_iff in Hx. rewrite Hx.
    rewrite IH by exact Hc. cbn. now rewrite <- app_assoc.
Qed.

Lemma split_slash_last c : forall cur, no_slash c = true -> split_slash c cur = [rev cur ++ c].
Proof.
  induction c as [|x c IH]; intros cur H; cbn.
  - now rewrite app_nil_r.
  - cbn in H. apply andb_true_iff in H. destruct H as [Hx Hc]. apply negb_true_iff in Hx. rewrite Hx.
    rewrite IH by exact Hc. cbn. now rewrite <- app_assoc.
Qed.

Lemma join_cons c cs : cs <> [] -> join_slash (c :: cs) = c ++ slash :: join_slash cs.
Proof. destruct cs; [congruence|reflexivity]. Qed.

Lemma split_join cs : forall rest, cs <> [] -> forallb no_slash cs = true ->
  split_slash (join_slash cs ++ slash :: rest) [] = cs ++ split_slash rest [].
Proof.
  induction cs as [|c cs IH]; intros rest Hne H; [congruence|].
  cbn in H. apply andb_true_iff in H. destruct H as [Hc Hcs].
  destruct cs as [|c2 cs].
  - cbn [join_slash]. rewrite split_slash_comp by exact Hc. reflexivity.
  - rewrite join_cons by discriminate. rewrite <- app_assoc. cbn [app].
    rewrite split_slash_comp by exact Hc. cbn [rev app]. f_equal. apply IH; [discriminate|exact Hcs].
Qed.

Lemma split_join_end cs : cs <> [] -> forallb no_slash cs = true -> split_slash (join_slash cs) [] = cs.
Proof.
  induction cs as [|c cs IH]; intros Hne H; [congruence|].
  cbn in H. apply andb_true_iff in H. destruct H as [Hc Hcs].
  destruct cs as [|c2 cs].
  - cbn [join_slash]. now rewrite split_slash_last.
  - rewrite join_cons by discriminate. rewrite split_slash_comp by exact Hc. cbn [rev app]. f_equal.
    apply IH; [discriminate|exact Hcs].
Qed.

Lemma split_slashes k : forall Z, split_slash (repeat slash k ++ Z) [] = repeat [] k ++ split_slash Z [].
Proof. induction k as [|k IH]; intros Z; cbn; [reflexivity|]. rewrite ?Ascii.eqb_refl. cbn. now rewrite IH. Qed.

Lemma filter_keep_wf cs : forallb wfc cs = true -> filter keep_comp cs = cs.
Proof.
  induction cs as [|c cs IH]; intros H; [reflexivity|]. cbn in H. apply andb_true_iff in H. destruct H as [Hc Hcs].
  unfold wfc in Hc. apply andb_true_iff in Hc. destruct Hc as [_ Hk]. cbn. rewrite Hk. now rewrite IH.
Qed.
Lemma filter_keep_empties k : filter keep_comp (repeat [] k) = [].
Proof. induction k; cbn; auto. Qed.

Lemma wfc_no_slash cs : forallb wfc cs = true -> forallb no_slash cs = true.
Proof.
  induction cs as [|c cs IH]; intros H; [reflexivity|]. cbn in H |- *. apply andb_true_iff in H. destruct H as [Hc Hcs].
  unfold wfc in Hc. apply andb_true_iff in Hc. destruct Hc as [Hn _]. now rewrite Hn, IH.
Qed.

(* first character of a non-empty join of wf components is not a slash *)
Lemma leading_join cs Z : cs <> [] -> forallb wfc cs = true -> leading_slashes (join_slash cs ++ Z) = 0.
Proof.
  intros Hne H. destruct cs as [|c cs]; [congruence|]. cbn in H. apply andb_true_iff in H. destruct H as [Hc _].
  unfold wfc in Hc. apply andb_true_iff in Hc. destruct Hc as [Hn Hk].
  destruct c as [|x c]; [discriminate Hk|]. cbn in Hn. apply andb_true_iff in Hn. destruct Hn as [Hx _].
  apply negb_true_iff in Hx.
  destruct cs; cbn; now rewrite Hx.
Qed.

(* str(Path(render (A cs))) round trip *)
Lemma parse_render_abs cs : forallb wfc cs = true -> parse (render (A cs)) = A cs.
Proof.
  intros H. unfold parse, A. cbn [render p_anchor p_comps].
  destruct cs as [|c cs].
  - reflexivity.
  - assert (Hne : c :: cs <> []) by discriminate.
    cbn [leading_slashes]. rewrite Ascii.eqb_refl.
    pose proof (leading_join (c :: cs) [] Hne H) as L. rewrite app_nil_r in L. rewrite L.
    f_equal. cbn [split_slash]. rewrite ?Ascii.eqb_refl. cbn [rev].
    rewrite split_join_end by (auto using wfc_no_slash).
    replace (filter keep_comp ([] :: c :: cs)) with (filter keep_comp (c :: cs)) by reflexivity.
    now apply filter_keep_wf.
Qed.

Lemma repeat_snoc_app {T} (x : T) k Z : repeat x k ++ x :: Z = x :: repeat x k ++ Z.
Proof. induction k; cbn; [reflexivity|]. now rewrite IHk. Qed.

(* Path(root + dir): root = normalised absolute rs followed by k slashes *)
Lemma parse_root_concat rs cs k : rs <> [] -> forallb wfc rs = true -> forallb wfc cs = true ->
  parse (render (A rs) ++ repeat slash k ++ render (A cs)) = A (rs ++ cs).
Proof.
  intros Hne Hr Hc. unfold parse, A. cbn [render p_anchor p_comps].
  cbn [app leading_slashes]. rewrite Ascii.eqb_refl.
  rewrite (leading_join rs _ Hne Hr). apply (f_equal (Build_ppath ARoot)).
  cbn [split_slash]. rewrite ?Ascii.eqb_refl. cbn [rev].
  rewrite repeat_snoc_app.
  rewrite split_join by (auto using wfc_no_slash).
  rewrite split_slashes.
  cbn [filter keep_comp]. rewrite !filter_app, filter_keep_empties. cbn [app].
  rewrite (filter_keep_wf rs Hr). f_equal.
  destruct cs as [|c cs]; [reflexivity|].
  rewrite split_join_end by (try discriminate; auto using wfc_no_slash). now apply filter_keep_wf.
Qed.

Lemma join_app rs cs : rs <> [] -> cs <> [] -> join_slash (rs ++ cs) = join_slash rs ++ slash :: join_slash cs.
Proof.
  induction rs as [|r rs IH]; intros Hr Hc; [congruence|].
  destruct rs as [|r2 rs].
  - cbn [app]. now rewrite join_cons.
  - change ((r :: r2 :: rs) ++ cs) with (r :: ((r2 :: rs) ++ cs)).
    rewrite join_cons by discriminate. rewrite IH by (auto; discriminate).
    rewrite (join_cons r (r2 :: rs)) by discriminate. now rewrite <- app_assoc.
Qed.

Lemma str_of_app a b : str_of (a ++ b) = String.append (str_of a) (str_of b).
Proof. induction a; cbn; [reflexivity| now rewrite IHa]. Qed.
Lemma la_of_append a b : la_of (String.append a b) = la_of a ++ la_of b.
Proof. unfold la_of. induction a; cbn; [reflexivity| now rewrite IHa]. Qed.

(* ---------- from the boolean domain predicates to components ---------- *)
Lemma forallb_rev_compat {T} (f : T -> bool) l : forallb f (rev l) = forallb f l.
Proof.
  induction l as [|x l IH]; [reflexivity|]. cbn. rewrite forallb_app, IH. cbn. rewrite andb_true_r. apply andb_comm.
Qed.
Lemma no_slash_rev cur : no_slash (rev cur) = no_slash cur.
Proof. unfold no_slash. apply forallb_rev_compat. Qed.

Lemma split_slash_no_slash l : forall cur, no_slash cur = true -> forallb no_slash (split_slash l cur) = true.
Proof.
  induction l as [|x l IH]; intros cur H; cbn [split_slash].
  - cbn. now rewrite no_slash_rev, H.
  - destruct (Ascii.eqb x slash) eqn:E.
    + cbn [forallb]. rewrite no_slash_rev, H. cbn. apply IH. reflexivity.
    + apply IH. unfold no_slash in *. cbn [forallb]. now rewrite E, H.
Qed.

Lemma wfc_filter l : forallb no_slash l = true -> forallb wfc (filter keep_comp l) = true.
Proof.
  induction l as [|c l IH]; intros H; [reflexivity|]. cbn in H. apply andb_true_iff in H. destruct H as [Hc Hl].
  cbn [filter]. destruct (keep_comp c) eqn:K; [|now apply IH]. cbn [forallb]. unfold wfc at 1. rewrite Hc, K. cbn. now apply IH.
Qed.

Lemma abs_norm_comps p : abs_norm p = true ->
  exists cs, forallb wfc cs = true /\ ppath_of p = A cs /\ p = pstr (A cs).
Proof.
  unfold abs_norm. rewrite andb_true_iff. intros [H1 H2]. apply String.eqb_eq in H1.
  exists (p_comps (ppath_of p)).
  assert (Ha : p_anchor (ppath_of p) = ARoot) by (destruct (p_anchor (ppath_of p)); try discriminate; reflexivity).
  assert (E : ppath_of p = A (p_comps (ppath_of p))).
  { destruct (ppath_of p) as [a cs]. cbn in *. now subst a. }
  split; [|split].
  - unfold ppath_of, parse. cbn [p_comps]. apply wfc_filter. apply split_slash_no_slash. reflexivity.
  - exact E.
  - rewrite <- E. now symmetry.
Qed.

Lemma pstr_A_nil : pstr (A []) = "/"%string.
Proof. reflexivity. Qed.

Lemma lstrip_decomp l : exists k, l = repeat slash k ++ lstrip_slash l.
Proof.
  induction l as [|c l [k IH]]; [now exists 0|]. cbn. destruct (Ascii.eqb c slash) eqn:E.
  - apply Ascii.eqb_eq in E. subst c. exists (S k). cbn. now rewrite <- IH.
  - now exists 0.
Qed.

Lemma rev_repeat_same {T} (x : T) k : rev (repeat x k) = repeat x k.
Proof.
  induction k; [reflexivity|]. cbn. rewrite IHk.
  pose proof (repeat_snoc_app x k []) as H. rewrite app_nil_r in H. exact H.
Qed.

Lemma rstrip_decomp root : exists k, la_of root = la_of (rstrip_slash root) ++ repeat slash k.
Proof.
  unfold rstrip_slash. destruct (lstrip_decomp (rev (la_of root))) as [k H]. exists k.
  rewrite la_of_str_of. rewrite <- (rev_involutive (la_of root)) at 1. rewrite H at 1.
  rewrite rev_app_distr, rev_repeat_same. reflexivity.
Qed.

Lemma rstrip_empty : rstrip_slash "" = ""%string.
Proof. reflexivity. Qed.

(* the two facts about Path(root + dir) and Path(root + dir) / name that the theorem needs *)
Definition env_dir (root h : string) : string := pstr (ppath_of (String.append root h)).
Definition mapped (root v : string) : string :=
  pstr (path_join (ppath_of (String.append root (pstr (path_parent (ppath_of v))))) (path_name (ppath_of v))).

Lemma render_A cs : render (A cs) = slash :: join_slash cs.
Proof. reflexivity. Qed.

Lemma root_cases root : root_ok root = true ->
  root = ""%string \/
  exists rs k, rs <> [] /\ forallb wfc rs = true /\ rstrip_slash root = pstr (A rs) /\
               la_of root = render (A rs) ++ repeat slash k.
Proof.
  unfold root_ok. rewrite orb_true_iff, andb_true_iff, negb_true_iff. intros [H|[H1 H2]].
  - left. now apply String.eqb_eq.
  - right. destruct (abs_norm_comps _ H1) as (rs & Hw & _ & E).
    destruct (rstrip_decomp root) as [k Hk]. exists rs, k. split; [|split; [exact Hw|split; [exact E|]]].
    + intros ->. rewrite E in H2. cbn in H2. discriminate.
    + rewrite Hk, E. unfold pstr. now rewrite la_of_str_of.
Qed.

Lemma file_cases p : file_ok p = true ->
  exists cs n, cs <> [] /\ forallb wfc (cs ++ [n]) = true /\ ppath_of p = A (cs ++ [n]) /\ p = pstr (A (cs ++ [n])).
Proof.
  unfold file_ok. rewrite !andb_true_iff, !negb_true_iff. intros [[H1 H2] H3].
  destruct (abs_norm_comps _ H1) as (cs & Hw & E1 & E2).
  destruct cs as [|c0 cs0] eqn:Ecs.
  { rewrite E2 in H2. cbn in H2. discriminate. }
  destruct (exists_last (l := c0 :: cs0)) as (cs' & n & El); [discriminate|].
  exists cs', n. rewrite <- El. split; [|auto].
  intros ->. unfold dir_of in H3. rewrite E1, El in H3. cbn in H3. discriminate.
Qed.

Lemma removelast_snoc {T} (l : list T) x : removelast (l ++ [x]) = l.
Proof. apply removelast_last. Qed.
Lemma last_snoc {T} (l : list T) x d : last (l ++ [x]) d = x.
Proof. apply last_last. Qed.

Lemma wfc_app a b : forallb wfc (a ++ b) = true -> forallb wfc a = true /\ forallb wfc b = true.
Proof. rewrite forallb_app, andb_true_iff. tauto. Qed.

Lemma dir_of_file cs n : ppath_of (pstr (A (cs ++ [n]))) = A (cs ++ [n]) -> dir_of (pstr (A (cs ++ [n]))) = pstr (A cs).
Proof. intros E. unfold dir_of. rewrite E. unfold path_parent. cbn [p_anchor p_comps A]. now rewrite removelast_snoc. Qed.

Lemma abs_concat rs cs : rs <> [] -> cs <> [] ->
  pstr (A (rs ++ cs)) = String.append (pstr (A rs)) (pstr (A cs)).
Proof.
  intros Hr Hc. unfold pstr. rewrite !render_A. rewrite join_app by assumption.
  rewrite <- str_of_app. reflexivity.
Qed.

(* P1: the directory the mount points at *)
Lemma env_dir_ok root cs : root_ok root = true -> cs <> [] -> forallb wfc cs = true ->
  env_dir root (pstr (A cs)) = String.append (rstrip_slash root) (pstr (A cs)).
Proof.
  intros Hr Hne Hc. unfold env_dir, ppath_of. rewrite la_of_append.
  destruct (root_cases _ Hr) as [->|(rs & k & Hrs & Hw & E & Hl)].
  - cbn [la_of list_ascii_of_string app]. unfold pstr at 2. rewrite la_of_str_of.
    rewrite parse_render_abs by exact Hc. reflexivity.
  - rewrite Hl. unfold pstr at 2. rewrite la_of_str_of. rewrite <- app_assoc.
    rewrite parse_root_concat by assumption. rewrite E. now apply abs_concat.
Qed.

(* P2: the path given to the command *)
Lemma mapped_ok root p : root_ok root = true -> file_ok p = true ->
  mapped root p = String.append (rstrip_slash root) p.
Proof.
  intros Hr Hp. destruct (file_cases _ Hp) as (cs & n & Hne & Hw & E1 & E2).
  destruct (wfc_app _ _ Hw) as [Hwc Hwn].
  unfold mapped. rewrite E1. unfold path_parent, path_name. cbn [p_anchor p_comps A].
  rewrite removelast_snoc, last_snoc.
  change {| p_anchor := ARoot; p_comps := cs |} with (A cs).
  pose proof (env_dir_ok root cs Hr Hne Hwc) as Henv. unfold env_dir in Henv.
  assert (Hpp : ppath_of (String.append root (pstr (A cs))) =
                match root_cases _ Hr with _ => ppath_of (String.append root (pstr (A cs))) end) by (destruct (root_cases _ Hr); reflexivity).
  clear Hpp.
  (* the parsed form of root + dir *)
  assert (exists rs, forallb wfc rs = true /\ ppath_of (String.append root (pstr (A cs))) = A (rs ++ cs) /\
                     rstrip_slash root = (match rs with [] => ""%string | _ => pstr (A rs) end)) as (rs & Hwr & Hpar & Heff).
  { unfold ppath_of. rewrite la_of_append. destruct (root_cases _ Hr) as [->|(rs & k & Hrs & Hwr & E & Hl)].
    - exists []. split; [reflexivity|]. split; [|reflexivity].
      cbn [la_of list_ascii_of_string app]. unfold pstr. rewrite la_of_str_of. now apply parse_render_abs.
    - exists rs. split; [exact Hwr|]. split.
      + rewrite Hl. unfold pstr. rewrite la_of_str_of, <- app_assoc. now apply parse_root_concat.
      + rewrite E. destruct rs; [congruence|reflexivity]. }
  rewrite Hpar. unfold path_join. cbn [p_anchor p_comps A].
  assert (keep_comp n = true) as ->.
  { cbn in Hwn. rewrite andb_true_r in Hwn. unfold wfc in Hwn. apply andb_true_iff in Hwn. tauto. }
  rewrite Heff, E2. rewrite <- app_assoc.
  change {| p_anchor := ARoot; p_comps := rs ++ cs ++ [n] |} with (A (rs ++ (cs ++ [n]))).
  destruct rs as [|r rs]; [reflexivity|].
  apply abs_concat; [discriminate|]. intros X. apply app_eq_nil in X. destruct X; discriminate.
Qed.

(* ================================================================== bindings *)
Local Open Scope string_scope.
Local Open Scope list_scope.

Lemma b_lookup_set b k v k0 : b_lookup k0 (b_set b k v) = if String.eqb k0 k then Some v else b_lookup k0 b.
Proof.
  induction b as [|[k' v'] b IH]; cbn.
  - destruct (String.eqb k0 k); reflexivity.
  - destruct (String.eqb k k') eqn:E; cbn.
    + apply String.eqb_eq in E; subst k'. destruct (String.eqb k0 k); reflexivity.
    + rewrite IH. destruct (String.eqb k0 k') eqn:E1; [|reflexivity].
      apply String.eqb_eq in E1; subst k'.
      destruct (String.eqb k0 k) eqn:E2; [|reflexivity].
      apply String.eqb_eq in E2; subst k0. rewrite String.eqb_refl in E. discriminate.
Qed.

Lemma b_keys_set b k v :
  map fst (b_set b k v) = if existsb (String.eqb k) (map fst b) then map fst b else map fst b ++ [k].
Proof.
  induction b as [|[k' v'] b IH]; cbn; [reflexivity|].
  destruct (String.eqb k k') eqn:E; cbn; [reflexivity|].
  rewrite IH. destruct (existsb (String.eqb k) (map fst b)); reflexivity.
Qed.

Lemma NoDup_snoc {T} (l : list T) (x : T) : NoDup l -> ~ In x l -> NoDup (l ++ [x]).
Proof.
  induction l as [|a l IH]; intros Hn Hx; cbn.
  - apply NoDup_cons; [intros []|apply NoDup_nil].
  - inversion Hn; subst. apply NoDup_cons.
    + rewrite in_app_iff. intros [H|[H|[]]]; [tauto| subst; apply Hx; now left].
    + apply IH; [assumption| intros H; apply Hx; now right].
Qed.

Lemma b_nodup_set b k v : NoDup (map fst b) -> NoDup (map fst (b_set b k v)).
Proof.
  intros H. rewrite b_keys_set.
  destruct (existsb (String.eqb k) (map fst b)) eqn:E; [exact H|].
  apply NoDup_snoc; [exact H|].
  intros Hin. assert (existsb (String.eqb k) (map fst b) = true) as X.
  { apply existsb_exists. exists k. split; [exact Hin|apply String.eqb_refl]. }
  congruence.
Qed.

Lemma b_lookup_none b k : b_lookup k b = None <-> ~ In k (map fst b).
Proof.
  induction b as [|[k' v'] b IH]; cbn; [tauto|].
  destruct (String.eqb k k') eqn:E.
  - apply String.eqb_eq in E. subst. split; [discriminate| intros H; exfalso; apply H; now left].
  - rewrite IH. apply String.eqb_neq in E. split; [intros H [X|X]; [congruence|tauto]| tauto].
Qed.

Lemma b_lookup_in b k v : NoDup (map fst b) -> In (k, v) b -> b_lookup k b = Some v.
Proof.
  induction b as [|[k' v'] b IH]; cbn; intros Hn Hin; [tauto|].
  inversion Hn; subst. destruct Hin as [E|Hin].
  - inversion E; subst. now rewrite String.eqb_refl.
  - destruct (String.eqb k k') eqn:E.
    + apply String.eqb_eq in E. subst. exfalso. apply H1. change k' with (fst (k', v)). now apply in_map.
    + now apply IH.
Qed.

Lemma b_in_lookup b k v : b_lookup k b = Some v -> In (k, v) b.
Proof.
  induction b as [|[k' v'] b IH]; cbn; [discriminate|].
  destruct (String.eqb k k') eqn:E.
  - apply String.eqb_eq in E. subst. intros H; inversion H; now left.
  - intros H. right. now apply IH.
Qed.

(* one request: directory h must be bound, read-write if rw *)
Definition was_rw (h : string) (b : bindings) : bool :=
  match b_lookup h b with Some (_, true) => true | _ => false end.
Definition stepd (root : string) (b : bindings) (x : string * bool) : bindings :=
  b_set b (fst x) (env_dir root (fst x), snd x || was_rw (fst x) b).
Definition touched (h : string) (dr : list (string * bool)) : bool := existsb (fun x => String.eqb (fst x) h) dr.
Definition anyrw (h : string) (dr : list (string * bool)) : bool := existsb (fun x => String.eqb (fst x) h && snd x) dr.

Lemma anyrw_touched h dr : touched h dr = false -> anyrw h dr = false.
Proof.
  induction dr as [|x dr IH]; cbn; [reflexivity|]. intros H. apply orb_false_iff in H. destruct H as [H1 H2].
  rewrite H1. cbn. now apply IH.
Qed.

Lemma was_rw_set b k e m h : was_rw h (b_set b k (e, m)) = if String.eqb h k then m else was_rw h b.
Proof. unfold was_rw. rewrite b_lookup_set. destruct (String.eqb h k); [destruct m|]; reflexivity. Qed.

Lemma fold_lookup root dr : forall b h,
  b_lookup h (fold_left (stepd root) dr b) =
  if touched h dr then Some (env_dir root h, anyrw h dr || was_rw h b) else b_lookup h b.
Proof.
  induction dr as [|[h1 rw1] dr IH]; intros b h; [reflexivity|].
  cbn [fold_left]. rewrite IH. cbn [touched anyrw existsb fst snd].
  fold (touched h dr). fold (anyrw h dr).
  unfold stepd. cbn [fst snd]. rewrite was_rw_set, b_lookup_set.
  rewrite (String.eqb_sym h1 h).
  destruct (String.eqb h h1) eqn:E.
  - apply String.eqb_eq in E. subst h1. cbn [orb andb].
    destruct (touched h dr) eqn:T.
    + f_equal. f_equal. destruct (anyrw h dr), rw1, (was_rw h b); reflexivity.
    + rewrite (anyrw_touched _ _ T). now rewrite orb_false_r.
  - cbn [orb andb]. reflexivity.
Qed.

Lemma fold_nodup root dr : forall b, NoDup (map fst b) -> NoDup (map fst (fold_left (stepd root) dr b)).
Proof.
  induction dr as [|x dr IH]; intros b H; [exact H|]. cbn [fold_left]. apply IH. unfold stepd. now apply b_nodup_set.
Qed.

(* ================================================================== get_bindings as a fold *)
Definition dreqs (fs : list field) : list (string * bool) :=
  flat_map (fun f => map (fun p => (dir_of p, f_rw f)) (paths_of f)) fs.

Definition ups_of (root : string) (fs : list field) : values :=
  flat_map (fun f => if f_fileset f && truthy (f_value f) then
                       match f_value f with
                       | VOne p => [(f_name f, VOne (mapped root p))]
                       | VMany ps => [(f_name f, VMany (map (mapped root) ps))]
                       | VNone => []
                       end
                     else []) fs.

Lemma map_path_eq root rw b v :
  map_path true root rw b v = (stepd root b (dir_of v, rw), mapped root v).
Proof. reflexivity. Qed.

Lemma map_paths_eq root rw ps : forall b,
  map_paths true root rw b ps =
  (fold_left (stepd root) (map (fun p => (dir_of p, rw)) ps) b, map (mapped root) ps).
Proof.
  induction ps as [|p ps IH]; intros b; [reflexivity|].
  cbn [map_paths]. rewrite map_path_eq. rewrite IH. reflexivity.
Qed.

Lemma scan_fields_eq root fs : forall b,
  scan_fields true root fs b = (fold_left (stepd root) (dreqs fs) b, ups_of root fs).
Proof.
  induction fs as [|f fs IH]; intros b; [reflexivity|].
  cbn [scan_fields]. unfold dreqs, ups_of. cbn [flat_map]. fold (dreqs fs). fold (ups_of root fs).
  unfold paths_of.
  destruct (f_fileset f && truthy (f_value f)) eqn:C.
  - destruct (f_value f) as [|p|ps] eqn:V.
    + rewrite IH. reflexivity.
    + rewrite map_path_eq, IH. reflexivity.
    + rewrite map_paths_eq, IH. rewrite fold_left_app. reflexivity.
  - rewrite IH. reflexivity.
Qed.

Lemma get_bindings_eq root fs cr :
  get_bindings true root fs cr =
  (b_set (fold_left (stepd root) (dreqs fs) []) cr (String.append (rstrip_slash root) cr, true), ups_of root fs).
Proof. unfold get_bindings. rewrite scan_fields_eq. reflexivity. Qed.

Lemma touched_app h a b : touched h (a ++ b) = touched h a || touched h b.
Proof. unfold touched. apply existsb_app. Qed.
Lemma anyrw_app h a b : anyrw h (a ++ b) = anyrw h a || anyrw h b.
Proof. unfold anyrw. apply existsb_app. Qed.

Lemma touched_field h f : touched h (map (fun p => (dir_of p, f_rw f)) (paths_of f)) = uses_dir h f.
Proof. unfold touched, uses_dir. induction (paths_of f); cbn; [reflexivity| now rewrite IHl]. Qed.
Lemma anyrw_field h f : anyrw h (map (fun p => (dir_of p, f_rw f)) (paths_of f)) = f_rw f && uses_dir h f.
Proof.
  unfold anyrw, uses_dir. induction (paths_of f) as [|p l IH]; cbn; [now rewrite andb_false_r|].
  rewrite IH. destruct (f_rw f), (String.eqb (dir_of p) h); reflexivity.
Qed.

Lemma touched_dreqs h fs : touched h (dreqs fs) = existsb (uses_dir h) fs.
Proof.
  induction fs as [|f fs IH]; [reflexivity|]. unfold dreqs. cbn [flat_map]. fold (dreqs fs).
  rewrite touched_app, touched_field, IH. reflexivity.
Qed.
Lemma anyrw_dreqs h fs : anyrw h (dreqs fs) = existsb (fun f => f_rw f && uses_dir h f) fs.
Proof.
  induction fs as [|f fs IH]; [reflexivity|]. unfold dreqs. cbn [flat_map]. fold (dreqs fs).
  rewrite anyrw_app, anyrw_field, IH. reflexivity.
Qed.

Definition final_bindings (root : string) (fs : list field) (cr : string) : bindings :=
  b_set (fold_left (stepd root) (dreqs fs) []) cr (String.append (rstrip_slash root) cr, true).

Lemma final_lookup root fs cr h :
  b_lookup h (final_bindings root fs cr) =
  if String.eqb h cr then Some (String.append (rstrip_slash root) cr, true)
  else if existsb (uses_dir h) fs
       then Some (env_dir root h, existsb (fun f => f_rw f && uses_dir h f) fs)
       else None.
Proof.
  unfold final_bindings. rewrite b_lookup_set. destruct (String.eqb h cr); [reflexivity|].
  rewrite fold_lookup, touched_dreqs, anyrw_dreqs. unfold was_rw. cbn [b_lookup]. now rewrite orb_false_r.
Qed.

Lemma final_nodup root fs cr : NoDup (map fst (final_bindings root fs cr)).
Proof. unfold final_bindings. apply b_nodup_set. apply fold_nodup. apply NoDup_nil. Qed.

(* a directory used by a field is the parent of one of its (well-formed) paths *)
Lemma uses_dir_witness h fs : fields_ok fs = true -> existsb (uses_dir h) fs = true ->
  exists p, file_ok p = true /\ dir_of p = h.
Proof.
  intros Hok H. apply existsb_exists in H. destruct H as (f & Hf & Hu).
  unfold uses_dir in Hu. apply existsb_exists in Hu. destruct Hu as (p & Hp & E).
  apply String.eqb_eq in E. exists p. split; [|exact E].
  unfold fields_ok in Hok. rewrite forallb_forall in Hok. specialize (Hok _ Hf).
  rewrite forallb_forall in Hok. now apply Hok.
Qed.

Lemma env_dir_of_file root p : root_ok root = true -> file_ok p = true ->
  env_dir root (dir_of p) = remap root (dir_of p).
Proof.
  intros Hr Hp. destruct (file_cases _ Hp) as (cs & n & Hne & Hw & E1 & E2).
  destruct (wfc_app _ _ Hw) as [Hwc _].
  rewrite E2. rewrite dir_of_file by (rewrite <- E2; exact E1).
  unfold remap. now apply env_dir_ok.
Qed.

Lemma final_env root fs cr h e m : root_ok root = true -> fields_ok fs = true ->
  In (h, (e, m)) (final_bindings root fs cr) ->
  e = remap root h /\ m = needs_rw fs cr h /\ required fs cr h = true.
Proof.
  intros Hr Hok Hin. apply (b_lookup_in _ _ _ (final_nodup root fs cr)) in Hin.
  rewrite final_lookup in Hin. unfold needs_rw, required, remap.
  destruct (String.eqb h cr) eqn:E.
  - apply String.eqb_eq in E. subst h. inversion Hin; subst. auto.
  - destruct (existsb (uses_dir h) fs) eqn:U; [|discriminate]. inversion Hin; subst. cbn [orb].
    destruct (uses_dir_witness _ _ Hok U) as (p & Hp & Ed). subst h.
    split; [|auto]. now apply env_dir_of_file.
Qed.

(* ================================================================== values *)
Lemma v_lookup_skip n a b : ~ In n (map fst a) -> v_lookup n (a ++ b) = v_lookup n b.
Proof.
  induction a as [|[k v] a IH]; intros H; [reflexivity|]. cbn in H |- *.
  destruct (String.eqb n k) eqn:E; [apply String.eqb_eq in E; subst; tauto|]. apply IH. tauto.
Qed.
Lemma v_lookup_drop n a k v b : k <> n -> v_lookup n (a ++ (k, v) :: b) = v_lookup n (a ++ b).
Proof.
  intros Hk. induction a as [|[k' v'] a IH]; cbn.
  - destruct (String.eqb n k) eqn:E; [apply String.eqb_eq in E; congruence|reflexivity].
  - now rewrite IH.
Qed.

Lemma ups_keys root fs n : In n (map fst (ups_of root fs)) -> In n (map f_name fs).
Proof.
  induction fs as [|f fs IH]; [tauto|]. unfold ups_of. cbn [flat_map]. fold (ups_of root fs).
  rewrite map_app, in_app_iff. intros [H|H]; [|right; now apply IH]. left.
  destruct (f_fileset f && truthy (f_value f)); [|destruct H].
  destruct (f_value f); cbn in H; tauto.
Qed.

Lemma remap_value_mapped root f : root_ok root = true -> forallb file_ok (paths_of f) = true ->
  f_fileset f && truthy (f_value f) = true ->
  match f_value f with
  | VOne p => VOne (mapped root p)
  | VMany ps => VMany (map (mapped root) ps)
  | VNone => VNone
  end = remap_value root f.
Proof.
  intros Hr Hok C. unfold remap_value, paths_of in *. rewrite C in *.
  destruct (f_value f) as [|p|ps]; [reflexivity| |].
  - cbn in Hok. rewrite andb_true_r in Hok. unfold remap. now rewrite mapped_ok.
  - f_equal. apply map_ext_in. intros p Hp. rewrite forallb_forall in Hok. unfold remap. rewrite mapped_ok; auto.
Qed.

Lemma values_agree root fs : root_ok root = true -> fields_ok fs = true -> NoDup (map f_name fs) ->
  forall n, v_lookup n (updated fs (ups_of root fs)) = v_lookup n (map (fun f => (f_name f, remap_value root f)) fs).
Proof.
  intros Hr. unfold updated. induction fs as [|f fs IH]; intros Hok Hnd n; [reflexivity|].
  cbn in Hok. apply andb_true_iff in Hok. destruct Hok as [Hf Hok]. inversion Hnd as [|? ? Hnotin Hnd']; subst.
  unfold ups_of. cbn [flat_map]. fold (ups_of root fs). cbn [inputs_of map]. fold (inputs_of fs).
  destruct (String.eqb n (f_name f)) eqn:E.
  - apply String.eqb_eq in E. subst n.
    destruct (f_fileset f && truthy (f_value f)) eqn:C.
    + pose proof (remap_value_mapped root f Hr Hf C) as M.
      destruct (f_value f) as [|p|ps] eqn:V.
      * exfalso. clear - C V. rewrite ?V in C. cbn in C. rewrite andb_false_r in C. discriminate.
      * cbn [app v_lookup]. now rewrite String.eqb_refl, M.
      * cbn [app v_lookup]. now rewrite String.eqb_refl, M.
    + cbn [app]. rewrite v_lookup_skip by (intros X; apply ups_keys in X; tauto).
      cbn [v_lookup]. rewrite String.eqb_refl. unfold remap_value. now rewrite C.
  - assert (Hne : f_name f <> n) by (intros X; subst; now rewrite String.eqb_refl in E).
    assert (Hskip : forall pre, v_lookup n ((pre ++ ups_of root fs) ++ (f_name f, f_value f) :: inputs_of fs) =
                                v_lookup n (pre ++ ups_of root fs ++ inputs_of fs)).
    { intros pre. rewrite v_lookup_drop by exact Hne. now rewrite app_assoc. }
    cbn [v_lookup]. rewrite E. rewrite <- IH by assumption.
    destruct (f_fileset f && truthy (f_value f)); [|apply (Hskip [])].
    destruct (f_value f); [apply (Hskip [])| |]; rewrite Hskip; cbn [app v_lookup]; now rewrite E.
Qed.

Lemma instantiate_ext vs1 vs2 tmpl : (forall n, v_lookup n vs1 = v_lookup n vs2) ->
  instantiate vs1 tmpl = instantiate vs2 tmpl.
Proof.
  intros H. unfold instantiate. apply map_ext. intros t. unfold inst_token. f_equal.
  apply map_ext. intros [s|f i]; cbn; [reflexivity| now rewrite H].
Qed.

(* ================================================================== the theorems *)
Lemma flat_map_ext_in {X Y} (f g : X -> list Y) l : (forall x, In x l -> f x = g x) -> flat_map f l = flat_map g l.
Proof.
  induction l as [|x l IH]; intros H; [reflexivity|]. cbn. rewrite (H x) by now left.
  f_equal. apply IH. intros y Hy. apply H. now right.
Qed.

Definition proj_mount (x : binding) : string * bool := (fst x, snd (snd x)).

Theorem full : forall (c : config) (fs : list field) (tmpl : list token),
  root_ok (c_root c) = true -> fields_ok fs = true -> NoDup (map f_name fs) ->
  container_spec c fs tmpl (container_argv c fs tmpl).
Proof.
  intros c fs tmpl Hr Hok Hnd. unfold container_argv. rewrite get_bindings_eq.
  fold (final_bindings (c_root c) fs (c_cache_root c)).
  set (B := final_bindings (c_root c) fs (c_cache_root c)).
  exists (map proj_mount B). split; [|split; [|split]].
  - rewrite map_map. cbn [proj_mount fst]. apply final_nodup.
  - intros h. rewrite map_map. cbn [proj_mount fst]. change (map (fun x : binding => fst x) B) with (map fst B).
    split.
    + intros Hin. apply in_map_iff in Hin. destruct Hin as ([h' [e m]] & E & Hin). cbn in E. subst h'.
      now destruct (final_env _ _ _ _ _ _ Hr Hok Hin) as (_ & _ & R).
    + intros R. destruct (b_lookup h B) eqn:L.
      * destruct p as [e m]. apply b_in_lookup in L. change h with (fst (h, (e, m))). now apply in_map.
      * exfalso. unfold B in L. rewrite final_lookup in L. unfold required in R.
        destruct (String.eqb h (c_cache_root c)); [discriminate|]. cbn in R. rewrite R in L. discriminate.
  - intros h m Hin. apply in_map_iff in Hin. destruct Hin as ([h' [e m']] & E & Hin). inversion E; subst.
    now destruct (final_env _ _ _ _ _ _ Hr Hok Hin) as (_ & M & _).
  - f_equal. f_equal. rewrite flat_map_concat_map, map_map, <- flat_map_concat_map.
    unfold remap. cbn [app]. f_equal; [|f_equal; f_equal; f_equal].
    + apply flat_map_ext_in. intros [h [e m]] Hin.
      destruct (final_env _ _ _ _ _ _ Hr Hok Hin) as (E & _ & _). subst e. reflexivity.
    + unfold remapped_argv. apply instantiate_ext. now apply values_agree.
Qed.

Theorem mounts_cover : forall root fs cr f p,
  root_ok root = true -> fields_ok fs = true -> In f fs -> In p (paths_of f) ->
  exists m, b_lookup (dir_of p) (fst (get_bindings true root fs cr)) = Some (remap root (dir_of p), m) /\
            (f_rw f = true -> m = true).
Proof.
  intros root fs cr f p Hr Hok Hf Hp. rewrite get_bindings_eq. cbn [fst].
  fold (final_bindings root fs cr). rewrite final_lookup.
  destruct (String.eqb (dir_of p) cr) eqn:E.
  - apply String.eqb_eq in E. rewrite E. exists true. split; [reflexivity|auto].
  - assert (U : uses_dir (dir_of p) f = true).
    { unfold uses_dir. apply existsb_exists. exists p. split; [exact Hp|apply String.eqb_refl]. }
    assert (X : existsb (uses_dir (dir_of p)) fs = true) by (apply existsb_exists; eauto).
    rewrite X. eexists. split.
    + f_equal. f_equal. apply env_dir_of_file; [exact Hr|].
      unfold fields_ok in Hok. rewrite forallb_forall in Hok. specialize (Hok _ Hf).
      rewrite forallb_forall in Hok. now apply Hok.
    + intros Hrw. apply existsb_exists. exists f. split; [exact Hf| now rewrite Hrw, U].
Qed.

Theorem cache_root_rw : forall root fs cr,
  b_lookup cr (fst (get_bindings true root fs cr)) = Some (remap root cr, true).
Proof.
  intros. rewrite get_bindings_eq. cbn [fst]. fold (final_bindings root fs cr).
  rewrite final_lookup, String.eqb_refl. reflexivity.
Qed.

Theorem paths_remapped : forall root fs tmpl cr,
  root_ok root = true -> fields_ok fs = true -> NoDup (map f_name fs) ->
  instantiate (updated fs (snd (get_bindings true root fs cr))) tmpl = remapped_argv root fs tmpl.
Proof.
  intros. rewrite get_bindings_eq. cbn [snd]. unfold remapped_argv. apply instantiate_ext. now apply values_agree.
Qed.

(* every required mount string occurs in a vector that meets the spec *)
Lemma spec_mount_present c fs tmpl argv h : container_spec c fs tmpl argv ->
  required fs (c_cache_root c) h = true ->
  In (mount_str (c_root c) (h, needs_rw fs (c_cache_root c) h)) argv.
Proof.
  intros (ms & _ & Hk & Hm & ->) R. apply Hk in R. apply in_map_iff in R. destruct R as ([h' m] & E & Hin).
  cbn in E. subst h'. rewrite <- (Hm _ _ Hin).
  rewrite !in_app_iff. right. right. left. apply in_flat_map. exists (h, m). split; [exact Hin| right; now left].
Qed.

Definition pinned_statement : Prop :=
  forall (c : config) (fs : list field) (tmpl : list token),
    root_ok (c_root c) = true -> fields_ok fs = true -> NoDup (map f_name fs) ->
    container_spec c fs tmpl (container_argv_pinned c fs tmpl).

Definition cfg0 : config :=
  {| c_runtime := Docker; c_image := "img"; c_tag := "latest"; c_root := "/mnt/pydra"; c_xargs := [];
     c_cache_root := "/c"; c_cache_dir := "/c/j" |}.
(* a copied input and then a linked input, both staged in the job directory *)
Definition fs_mode : list field :=
  [ {| f_name := "a"; f_fileset := true; f_rw := true; f_value := VOne "/c/j/a.txt" |};
    {| f_name := "z"; f_fileset := true; f_rw := false; f_value := VOne "/c/j/b.txt" |} ].
Definition fs_space : list field :=
  [ {| f_name := "a"; f_fileset := true; f_rw := false; f_value := VOne "/data/my study/a.txt" |} ].
Definition tmpl0 : list token := [[Lit "cmd"]; [Lit "-a"]; [Ref "a" 0]].

Lemma nodup_names2 : NoDup (map f_name fs_mode).
Proof. apply NoDup_cons; [cbn; intros [X|[]]; discriminate|]. apply NoDup_cons; [intros []|apply NoDup_nil]. Qed.

Theorem pinned_refuted_mode_overwrite : ~ pinned_statement.
Proof.
  intros H. specialize (H cfg0 fs_mode tmpl0 eq_refl eq_refl nodup_names2).
  apply (spec_mount_present _ _ _ _ "/c/j") in H; [|reflexivity].
  assert (X : existsb (String.eqb (mount_str (c_root cfg0) ("/c/j", needs_rw fs_mode (c_cache_root cfg0) "/c/j")))
                      (container_argv_pinned cfg0 fs_mode tmpl0) = false) by (vm_compute; reflexivity).
  assert (Y : existsb (String.eqb (mount_str (c_root cfg0) ("/c/j", needs_rw fs_mode (c_cache_root cfg0) "/c/j")))
                      (container_argv_pinned cfg0 fs_mode tmpl0) = true).
  { apply existsb_exists. eexists. split; [exact H|apply String.eqb_refl]. }
  congruence.
Qed.

Theorem pinned_refuted_space : ~ pinned_statement.
Proof.
  intros H.
  assert (Hn : NoDup (map f_name fs_space)) by (apply NoDup_cons; [intros []|apply NoDup_nil]).
  specialize (H cfg0 fs_space tmpl0 eq_refl eq_refl Hn).
  apply (spec_mount_present _ _ _ _ "/data/my study") in H; [|reflexivity].
  assert (X : existsb (String.eqb (mount_str (c_root cfg0) ("/data/my study", needs_rw fs_space (c_cache_root cfg0) "/data/my study")))
                      (container_argv_pinned cfg0 fs_space tmpl0) = false) by (vm_compute; reflexivity).
  assert (Y : existsb (String.eqb (mount_str (c_root cfg0) ("/data/my study", needs_rw fs_space (c_cache_root cfg0) "/data/my study")))
                      (container_argv_pinned cfg0 fs_space tmpl0) = true).
  { apply existsb_exists. eexists. split; [exact H|apply String.eqb_refl]. }
  congruence.
Qed.

(* the hypotheses of [full] are met by a non-trivial task; and what the vector is *)
Example full_nonvacuous :
  root_ok "/mnt/pydra/" = true /\ fields_ok (fs_mode ++ fs_space) = true /\ root_ok "/" = false /\
  container_argv cfg0 fs_mode tmpl0 =
  ["docker"; "run"; "-v"; "/c/j:/mnt/pydra/c/j:rw"; "-v"; "/c:/mnt/pydra/c:rw"; "-w"; "/mnt/pydra/c/j"; "img:latest";
   "cmd"; "-a"; "/mnt/pydra/c/j/a.txt"].
Proof. vm_compute. repeat split. Qed.
