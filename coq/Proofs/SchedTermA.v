(* Proofs/SchedTermA.v — termination of the asynchronous loop of Model/Sched.v (D2's full scheduler
   model: split nodes, failing jobs, max_concurrent, `futured`, the stall detector) for EVERY set
   of failing jobs and EVERY oracle.  Only imports Model/Sched.v and Proofs/Sched*.v. *)
From Pydra Require Import Base.Prelude Base.SchedBase Model.Sched Spec.Sched
  Proofs.SchedA Proofs.SchedSpec Proofs.SchedB Proofs.SchedC Proofs.SchedD Proofs.SchedE Proofs.SchedF
  Proofs.SchedG Proofs.SchedJ Proofs.SchedK.
Local Open Scope nat_scope.

Section Term.
Variable V : Type.
Variable body : nat -> nat -> list (list (option V)) -> V.
Variable fails : job -> bool.
Variable vr : variant.
Hypothesis F14 : fix14 vr = true.
Variable g : graph.
Hypothesis WF : wf_graph g.
Variable kmax : option nat.
Hypothesis KP : forall k, kmax = Some k -> 1 <= k.

Notation world := (world V).
Notation nstate := (nstate V).
Notation sstate := (sstate V).
Notation lstate := (lstate V).
Notation GInv := (GInv V fails g).
Notation WInv := (WInv V fails).
Notation NInv := (NInv V fails g).
Notation LInv := (LInv V body fails vr g kmax).
Notation TInv := (TInv V fails vr g kmax).
Notation runs := (@runs V).
Notation task_ok := (task_ok V fails g).

Lemma existsb_false {A} (f : A -> bool) l : existsb f l = false <-> forall x, In x l -> f x = false.
Proof.
  induction l as [|y l IH]; cbn; [split; [intros _ x []|reflexivity]|].
  rewrite orb_false_iff, IH. split; [intros [H1 H2] x [<-|Hx]; auto|intros H; split; auto].
Qed.

(* ---- once every node is done, a further poll changes nothing that matters *)
Definition upd (w : world) (ss : sstate) (m : nat) : nstate := fst (update_ns vr w m (nst ss m)).

Lemma upd_upd (w : world) ss m : GInv w ss -> fst (update_ns vr w m (upd w ss m)) = upd w ss m.
Proof.
  intros G. unfold upd.
  destruct (update_ns_spec V body fails vr F14 g w m _ (gi_node _ _ _ _ _ G m)) as [_ U].
  exact (proj1 (update_ns_fresh V vr F14 w m _ (us_fresh _ _ _ _ _ _ _ U))).
Qed.

Lemma scan_all_done (w : world) ss0 : GInv w ss0 -> forall rest ss ns acc,
  (forall m, nst ss m = nst ss0 m \/ nst ss m = upd w ss0 m) ->
  (forall nd, In nd rest -> done_ns (upd w ss0 (nid nd)) = true) ->
  snd (scan vr g w rest ss ns acc) = acc /\
  forall m, nst (fst (scan vr g w rest ss ns acc)) m = nst ss0 m \/ nst (fst (scan vr g w rest ss ns acc)) m = upd w ss0 m.
Proof.
  intros G. induction rest as [|nd rest IH]; intros ss ns acc Hs Hd; cbn [scan]; [split; [reflexivity|exact Hs]|].
  assert (E : nst (update vr w ss (nid nd)) (nid nd) = upd w ss0 (nid nd)).
  { rewrite nst_update, Nat.eqb_refl. destruct (Hs (nid nd)) as [X|X]; rewrite X; [reflexivity|apply upd_upd; exact G]. }
  rewrite E, (Hd nd (or_introl eq_refl)).
  apply IH.
  - intros m. rewrite nst_update. destruct (m =? nid nd) eqn:Em.
    + apply Nat.eqb_eq in Em. subst m. right.
      destruct (Hs (nid nd)) as [X|X]; rewrite X; [reflexivity|apply upd_upd; exact G].
    + apply Hs.
  - intros nd' H'. apply Hd. now right.
Qed.

Lemma poll_all_done (w : world) ss :
  GInv w ss -> any_not_done vr g w ss = false ->
  snd (poll vr g kmax w ss) = [] /\ any_not_done vr g w (fst (poll vr g kmax w ss)) = false.
Proof.
  intros G A. unfold any_not_done in A. rewrite existsb_false in A.
  assert (Hd : forall nd, In nd g -> done_ns (upd w ss (nid nd)) = true).
  { intros nd Hnd. specialize (A nd Hnd). apply negb_false_iff in A. exact A. }
  destruct (scan_all_done w ss G g ss [] [] (fun m => or_introl eq_refl) Hd) as [S1 S2].
  unfold poll. destruct (scan vr g w g ss [] []) as [ss1 tasks]. cbn [fst snd] in *. subst tasks.
  split; [unfold truncate; destruct kmax as [k|]; [destruct k|]; reflexivity|].
  unfold any_not_done. apply existsb_false. intros nd Hnd. apply negb_false_iff. cbn [nst].
  destruct (S2 (nid nd)) as [X|X]; rewrite X; [apply Hd, Hnd|].
  fold (upd w ss (nid nd)). rewrite (upd_upd w ss (nid nd) G). apply Hd, Hnd.
Qed.

(* ---- the part of D2's progress invariant that does not depend on "no job fails" *)
Record PInv2 (ls : lstate) : Prop := {
  p2_vp : forall j, In j (visible (ls_w ls)) -> In j (ls_pending ls);
  p2_fp : forall j, In j (ls_futured ls) -> is_none (ls_w ls) j = true -> In j (ls_pending ls);
  p2_run : forall n i, In i (running (nst (ls_ss ls) n)) -> In (n, i) (ls_futured ls);
  p2_fs : forall j, In j (ls_futured ls) -> runs (ls_ss ls) j;
  p2_none : forall j, In j (ls_tasks ls) -> is_none (ls_w ls) j = true
}.

Definition idle_done (ls : lstate) : Prop :=
  ls_tasks ls = [] /\ ls_pending ls = [] /\ any_not_done vr g (ls_w ls) (ls_ss ls) = false.

(* the `if not tasks and not task_futures:` block, with a frozen world *)
Lemma stall_block (w : world) (fut pend : list job) :
  WInv w ->
  (forall j, In j (visible w) -> In j pend) -> (forall j, In j pend -> In j fut) ->
  (forall j, is_none w j = false -> In j fut) ->
  forall n ss tasks,
  GInv w ss ->
  (forall j, In j tasks -> task_ok w j /\ runs ss j) ->
  (forall j, In j fut -> runs ss j) ->
  (forall m i, In i (running (nst ss m)) -> In (m, i) fut) ->
  (forall j, In j tasks -> is_none w j = true) ->
  let '(ss', tasks', stalled) := stall_loop vr g kmax n w ss tasks in
  GInv w ss' /\ (forall j, In j tasks' -> task_ok w j /\ runs ss' j) /\ (forall j, In j fut -> runs ss' j) /\
  (forall m i, In i (running (nst ss' m)) -> In (m, i) fut) /\
  (forall j, In j tasks' -> is_none w j = true) /\
  (stalled = false -> tasks' <> [] \/ any_not_done vr g w ss' = false).
Proof.
  intros W VP PF RF. induction n as [|n IH]; intros ss tasks G T FS RU NO; cbn [stall_loop].
  - refine (conj G (conj T (conj FS (conj RU (conj NO _))))). intros X; discriminate X.
  - destruct (is_nil tasks && any_not_done vr g w ss && negb (raised ss)) eqn:C.
    + destruct (poll_keeps V body fails vr F14 g WF kmax w ss fut G W FS) as [G1 [T1 FS1]].
      pose proof (poll_run_from V body vr F14 g kmax w ss) as R1.
      assert (Hfin : forall j, is_none w j = false -> started_flag (nst ss (fst j)) = true)
        by (intros j Hj; apply FS, RF, Hj).
      pose proof (poll_none V body fails vr F14 g WF kmax w ss G W Hfin) as N1.
      destruct (poll vr g kmax w ss) as [ss1 t1]. cbn [fst snd] in *.
      assert (RU1 : forall m i, In i (running (nst ss1 m)) -> In (m, i) fut).
      { intros m i Hi. destruct (R1 m i Hi) as [X|X]; [apply RU; exact X|].
        apply mem_job_In in X. apply PF, VP, X. }
      destruct n as [|n']; [refine (conj G1 (conj T1 (conj FS1 (conj RU1 (conj N1 _))))); intros X; discriminate X|]. apply IH; auto.
    + refine (conj G (conj T (conj FS (conj RU (conj NO _))))). intros _. rewrite (gi_raised _ _ _ _ _ G) in C. cbn [negb] in C. rewrite andb_true_r in C.
      apply andb_false_iff in C. destruct C as [C|C]; [left; apply is_nil_false; exact C|right; exact C].
Qed.

Lemma async_step_prog2 o (ls : lstate) :
  LInv ls -> PInv2 ls ->
  match async_step body fails vr g kmax o ls with
  | Stop OutOfFuel _ => False
  | Stop _ _ => True
  | Continue ls' => PInv2 ls' /\ (S (count_finish (ls_trace ls)) <= count_finish (ls_trace ls') \/ idle_done ls')
  end.
Proof.
  intros I P. pose proof I as I0. destruct I as [G W Vi T Tt Pr]. destruct P as [VP FP RU FS NO]. unfold async_step.
  rewrite (gi_raised _ _ _ _ _ G).
  destruct (loop_cond vr g ls) eqn:LC; cbn [negb]; [|exact Logic.I].
  (* the stall block *)
  assert (S1 : let '(ss1, tasks1, stalled) :=
                 (if is_nil (ls_tasks ls) && is_nil (ls_pending ls)
                  then stall_loop vr g kmax 11 (ls_w ls) (ls_ss ls) (ls_tasks ls)
                  else (ls_ss ls, ls_tasks ls, false)) in
               GInv (ls_w ls) ss1 /\ (forall j, In j tasks1 -> task_ok (ls_w ls) j /\ runs ss1 j) /\
               (forall j, In j (ls_futured ls) -> runs ss1 j) /\
               (forall m i, In i (running (nst ss1 m)) -> In (m, i) (ls_futured ls)) /\
               (forall j, In j tasks1 -> is_none (ls_w ls) j = true) /\
               (stalled = false -> tasks1 <> [] \/ ls_pending ls <> [] \/ any_not_done vr g (ls_w ls) ss1 = false)).
  { destruct (is_nil (ls_tasks ls) && is_nil (ls_pending ls)) eqn:NE.
    - pose proof (stall_block (ls_w ls) (ls_futured ls) (ls_pending ls) W VP
                    (ti_pend_fut _ _ _ _ _ _ _ _ _ _ Tt) (ti_res_fut _ _ _ _ _ _ _ _ _ _ Tt)
                    11 (ls_ss ls) (ls_tasks ls) G T FS RU NO) as SB.
      destruct (stall_loop vr g kmax 11 (ls_w ls) (ls_ss ls) (ls_tasks ls)) as [[ss1 tasks1] stalled].
      destruct SB as [A [B [C [D [E F]]]]]. refine (conj A (conj B (conj C (conj D (conj E _))))).
      intros Hs. destruct (F Hs); auto.
    - refine (conj G (conj T (conj FS (conj RU (conj NO _))))). intros _.
      apply andb_false_iff in NE. destruct NE as [X|X]; apply is_nil_false in X; auto. }
  destruct (if is_nil (ls_tasks ls) && is_nil (ls_pending ls) then _ else _) as [[ss1 tasks1] stalled].
  destruct S1 as [G1 [T1 [FS1 [RU1 [NO1 PR1]]]]].
  rewrite (gi_raised _ _ _ _ _ G1). destruct stalled; [exact Logic.I|]. specialize (PR1 eq_refl).
  assert (Pr1 : forall j, In j (ls_pending ls) -> runs ss1 j)
    by (intros j Hj; apply FS1, (ti_pend_fut _ _ _ _ _ _ _ _ _ _ Tt), Hj).
  (* launch *)
  pose proof (launch_spec V fails vr g kmax (ls_w ls) (ls_errors ls) tasks1 (ls_futured ls) (ls_pending ls) (ls_trace ls) []
                Tt (fun j Hj => proj1 (T1 j Hj))) as LS.
  pose proof (launch_struct vr kmax tasks1 (ls_futured ls) (ls_pending ls) (ls_trace ls) []) as LT.
  destruct (launch vr kmax tasks1 (ls_futured ls) (ls_pending ls) (ls_trace ls) []) as [[[fut pend] tr] launched].
  destruct LS as [T2 [Hp2 _]]. destruct LT as [new [Ef [Ep [Hnew [Cf Hfirst]]]]].
  assert (P2 : forall j, In j pend -> runs ss1 j).
  { intros j Hj. destruct (Hp2 j Hj) as [X|X]; [apply Pr1; exact X|apply T1; exact X]. }
  assert (FS' : forall j, In j fut -> runs ss1 j).
  { intros j Hj. rewrite Ef in Hj. apply in_app_or in Hj. destruct Hj as [Hj|Hj]; [apply FS1; exact Hj|apply T1; apply Hnew; exact Hj]. }
  destruct pend as [|pj pr] eqn:Epend.
  - (* nothing pending after the launch: everything is done *)
    assert (Hp0 : ls_pending ls = [] /\ new = []) by (destruct (ls_pending ls), new; try discriminate; auto).
    destruct Hp0 as [Hp0 Hn0]. subst new. rewrite app_nil_r in Ef. subst fut.
    assert (Ht0 : tasks1 = []).
    { destruct tasks1 as [|j r]; [reflexivity|]. exfalso. apply (Hfirst j r eq_refl); [| |reflexivity].
      - destruct (mem_job j (ls_futured ls)) eqn:M; [|reflexivity]. apply mem_job_In in M.
        pose proof (FP j M (NO1 j (or_introl eq_refl))) as X. rewrite Hp0 in X. destruct X.
      - unfold below_limit. destruct (fix16 vr); [|reflexivity]. destruct kmax as [k|] eqn:K; [|reflexivity].
        apply Nat.ltb_lt. rewrite Hp0. cbn. apply (KP k eq_refl). }
    assert (Hd : any_not_done vr g (ls_w ls) ss1 = false).
    { destruct PR1 as [X|[X|X]]; [congruence|congruence|exact X]. }
    destruct (poll_all_done (ls_w ls) ss1 G1 Hd) as [PA1 PA2].
    destruct (poll_keeps V body fails vr F14 g WF kmax (ls_w ls) ss1 (ls_futured ls) G1 W FS1) as [_ [_ FS4]].
    pose proof (poll_run_from V body vr F14 g kmax (ls_w ls) ss1) as RF4.
    destruct (poll vr g kmax (ls_w ls) ss1) as [ss3 tasks3]. cbn [fst snd] in *. subst tasks3.
    split.
    + constructor; cbn [ls_ss ls_w ls_tasks ls_futured ls_pending ls_errors ls_trace].
      * intros j Hj. rewrite <- Hp0. apply VP, Hj.
      * intros j Hj Hn. rewrite <- Hp0. apply FP; assumption.
      * intros n i Hi. destruct (RF4 n i Hi) as [X|X]; [apply RU1; exact X|].
        apply mem_job_In in X. apply VP in X. rewrite Hp0 in X. destruct X.
      * exact FS4.
      * intros j [].
    + right. repeat split; auto.
  - (* at least one future is pending: at least one completes *)
    rewrite <- Epend in *.
    assert (Hpne : pend <> []) by (rewrite Epend; discriminate). clear Epend.
    destruct pend as [|pj' pr'] eqn:Epend; [congruence|]. rewrite <- Epend in *. clear Epend pj pr.
    unfold apply_step.
    match goal with |- context [complete body fails ?cs ss1 _ _ _ _] =>
      assert (Hcs : cs <> []) by (destruct (comps o); discriminate);
      pose proof (complete_spec V body fails vr g WF kmax (ls_w ls) ss1 fut (visible (ls_w ls)) cs (results (ls_w ls)) pend (ls_errors ls) tr) as CS;
      rewrite world_eta in CS; specialize (CS G1 (wle_refl V _) W Vi T2 P2);
      pose proof (complete_struct V body fails ss1 cs (results (ls_w ls)) pend (ls_errors ls) tr) as CT;
      destruct (complete body fails cs ss1 (results (ls_w ls)) pend (ls_errors ls) tr) as [[[res' pend'] errs'] tr']
    end.
    destruct CS as [L2 [W2 [V2 [T3 S2]]]]. destruct CT as [CA [CB [_ CC]]].
    set (w2 := mkW res' (map fst (filter snd (combine pend' (visbits o))))).
    assert (L3 : wle V (ls_w ls) w2). { intros j v Hl. apply (L2 j v Hl). }
    assert (G3 : GInv w2 ss1) by (eapply GInv_mono; eauto).
    assert (T4 : TInv w2 fut pend' errs' tr') by (eapply TInv_vis; exact T3).
    assert (VP' : forall j, In j (visible w2) -> In j pend') by (intros j Hj; apply (vis_sub pend' (visbits o) j Hj)).
    assert (FP' : forall j, In j fut -> is_none w2 j = true -> In j pend').
    { intros j Hj Hn. assert (Hp : In j pend).
      { rewrite Ef in Hj. apply in_app_or in Hj. rewrite Ep. apply in_or_app. destruct Hj as [Hj|Hj]; [left|right; exact Hj].
        apply FP; [exact Hj|]. eapply is_none_anti; eauto. }
      destruct (CA j Hp) as [X|X]; [exact X|]. exfalso. unfold is_none, probe_job in Hn. cbn in Hn.
      destruct (lookup j res') as [o0|]; [destruct o0; discriminate|congruence]. }
    assert (Hfin : forall j, is_none w2 j = false -> started_flag (nst ss1 (fst j)) = true).
    { intros j Hj. apply FS'. apply (ti_res_fut _ _ _ _ _ _ _ _ _ _ T4 j Hj). }
    pose proof (poll_keeps V body fails vr F14 g WF kmax w2 ss1 fut G3 W2 FS') as [G4 [T5 FS4]].
    pose proof (poll_run_from V body vr F14 g kmax w2 ss1) as RF4.
    pose proof (poll_none V body fails vr F14 g WF kmax w2 ss1 G3 W2 Hfin) as NO4.
    destruct (poll vr g kmax w2 ss1) as [ss3 tasks3]. cbn [fst snd] in *.
    split.
    + constructor; cbn [ls_ss ls_w ls_tasks ls_futured ls_pending ls_errors ls_trace].
      * exact VP'.
      * exact FP'.
      * intros n i Hi. destruct (RF4 n i Hi) as [X|X].
        -- rewrite Ef. apply in_or_app. left. apply RU1. exact X.
        -- apply mem_job_In in X. apply VP' in X. apply (ti_pend_fut _ _ _ _ _ _ _ _ _ _ T4). exact X.
      * exact FS4.
      * exact NO4.
    + left. cbn [ls_trace]. rewrite <- Cf. apply CC; [exact Hcs|exact Hpne].
Qed.

Lemma idle_done_stops o (ls : lstate) :
  LInv ls -> idle_done ls -> exists ls', async_step body fails vr g kmax o ls = Stop Finished ls'.
Proof.
  intros I [A [B C]]. unfold async_step. rewrite (gi_raised _ _ _ _ _ (li_g _ _ _ _ _ _ _ I)).
  unfold loop_cond. rewrite A, B, C. cbn. eauto.
Qed.

Lemma run_loop_no_fuel_out : forall fuel orc ls,
  LInv ls -> PInv2 ls ->
  List.length (all_jobs g) + 2 <= fuel + count_finish (ls_trace ls) ->
  o_status (run_loop body fails vr g kmax fuel orc ls) <> OutOfFuel.
Proof.
  induction fuel as [|f IH]; intros orc ls I P B.
  - pose proof (finish_bound V body fails vr g kmax ls I). lia.
  - cbn [run_loop].
    set (o := match orc with [] => (default_step, []) | o :: r => (o, r) end). destruct o as [o rest].
    pose proof (async_step_spec V body fails vr F14 g WF kmax o ls I) as S1.
    pose proof (async_step_prog2 o ls I P) as S2.
    destruct (async_step body fails vr g kmax o ls) as [ls'|st ls'].
    + destruct S2 as [P' [C|C]].
      * apply IH; auto. lia.
      * (* everything is done: the next test of the loop condition ends the loop *)
        destruct f as [|f'].
        -- pose proof (finish_bound V body fails vr g kmax ls I). lia.
        -- cbn [run_loop].
           set (o2 := match rest with [] => (default_step, []) | o :: r => (o, r) end). destruct o2 as [o2 rest2].
           destruct (idle_done_stops o2 ls' S1 C) as [ls'' ->]. cbn. discriminate.
    + cbn. destruct st; try discriminate. contradiction.
Qed.

Lemma PInv2_init : PInv2 (ls_init V vr g kmax).
Proof.
  unfold ls_init.
  assert (W0 : WInv (w_init V)). { intros j. split; unfold is_ok, is_err, probe_job; cbn; discriminate. }
  pose proof (poll_run_from V body vr F14 g kmax (w_init V) (ss_init V)) as RF.
  pose proof (poll_none V body fails vr F14 g WF kmax (w_init V) (ss_init V) (GInv_init V body fails g) W0) as NO.
  destruct (poll vr g kmax (w_init V) (ss_init V)) as [ss tasks]. cbn [fst snd] in *.
  constructor; cbn [ls_ss ls_w ls_tasks ls_futured ls_pending ls_errors ls_trace].
  - intros j [].
  - intros j [].
  - intros n i Hi. destruct (RF n i Hi) as [X|X]; [destruct X|discriminate].
  - intros j [].
  - apply NO. intros j Hj. unfold is_none, probe_job in Hj. cbn in Hj. discriminate.
Qed.

(* For every wf graph, every set of failing jobs, every max_concurrent >= 1 (or none) and every
   oracle: |jobs| + 2 iterations of `while tasks or task_futures or any(not n.done ...)` suffice.
   The loop ends Finished or Stalled (the stall detector's RuntimeError); it never raises otherwise. *)
Theorem async_terminates_full orc fuel :
  List.length (all_jobs g) + 2 <= fuel ->
  o_status (run_async V body fails vr g kmax orc fuel) = Finished \/
  o_status (run_async V body fails vr g kmax orc fuel) = Stalled.
Proof.
  intros B.
  assert (N : o_status (run_async V body fails vr g kmax orc fuel) <> OutOfFuel).
  { unfold run_async. apply run_loop_no_fuel_out; [apply LInv_init; assumption|apply PInv2_init|lia]. }
  pose proof (async_never_raises V body fails vr F14 g WF kmax orc fuel) as R.
  destruct (o_status (run_async V body fails vr g kmax orc fuel)); auto; congruence.
Qed.

End Term.
