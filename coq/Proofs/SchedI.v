(* Proofs/SchedI.v — the sequential loop (Submitter.expand_workflow, debug worker). *)
From Pydra Require Import Base.Prelude Base.SchedBase Model.Sched Spec.Sched Proofs.SchedA Proofs.SchedSpec Proofs.SchedSpec2 Proofs.SchedB Proofs.SchedC Proofs.SchedD Proofs.SchedE Proofs.SchedF Proofs.SchedG Proofs.SchedH.
Local Open Scope nat_scope.

(* the log of the sequential loop is a sequence of (start, finish) pairs *)
Fixpoint paired_rev (tr : list event) : Prop :=
  match tr with
  | [] => True
  | EFinish j _ :: ELaunch j' :: r => j = j' /\ paired_rev r
  | _ => False
  end.

Lemma paired_conc tr : paired_rev tr -> conc_rev 1 tr /\ count_launch tr = count_finish tr.
Proof.
  assert (H : forall n tr, List.length tr <= n -> paired_rev tr -> conc_rev 1 tr /\ count_launch tr = count_finish tr).
  { induction n as [|n IH]; intros [|e [|e' r]] L P; cbn in L; try lia; try (split; [exact I|reflexivity]).
    - destruct e; destruct P.
    - destruct e as [j|j b]; [destruct P|]. destruct e' as [j'|j' b']; [|destruct P]. destruct P as [_ P].
      destruct (IH r) as [A B]; [lia|exact P|].
      split; [|rewrite count_launch_cons_f, count_launch_cons_l, count_finish_cons_f, count_finish_cons_l, B; reflexivity].
      cbn [conc_rev]. split; [|split; [|exact A]].
      + rewrite count_launch_cons_f, count_launch_cons_l, count_finish_cons_f, count_finish_cons_l, B. lia.
      + rewrite count_launch_cons_l, count_finish_cons_l, B. lia. }
  intros P. apply (H (List.length tr) tr (le_n _) P).
Qed.

Section Sync.
Variable V : Type.
Variable body : nat -> nat -> list (list (option V)) -> V.
Variable fails : job -> bool.
Variable vr : variant.
Hypothesis F14 : fix14 vr = true.
Variable g : graph.
Hypothesis WF : wf_graph g.
Variable kmax : option nat.

Notation world := (world V).
Notation sstate := (sstate V).
Notation lstate := (lstate V).
Notation GInv := (GInv V fails g).
Notation WInv := (WInv V fails).
Notation VInv := (VInv V body g).
Notation TInv1 := (TInv V fails vr g (Some 1)).
Notation LInv1 := (LInv V body fails vr g (Some 1)).
Notation task_ok := (task_ok V fails g).
Notation runs := (@runs V).
Notation wle := (wle V).

Definition fut_done (w : world) (fut : list job) : Prop := forall j, In j fut -> is_none w j = false.
Definition no_err (w : world) : Prop := forall j, is_err w j = false.

Lemma is_none_false_mono (w w' : world) j : wle w w' -> is_none w j = false -> is_none w' j = false.
Proof.
  unfold is_none, probe_job. intros H. destruct (lookup j (results w)) as [x|] eqn:E; [|discriminate].
  rewrite (H _ _ E). destruct x; reflexivity.
Qed.

Lemma run_tasks_spec (w0 : world) ss : forall tasks w errs tr fut acc,
  GInv w0 ss -> wle w0 w -> WInv w -> VInv w -> TInv1 w fut [] errs tr -> fut_done w fut -> no_err w ->
  paired_rev tr ->
  (forall j, In j tasks -> task_ok w0 j /\ runs ss j) ->
  let '(w', errs', tr', acc', failed) := run_tasks body fails tasks ss w errs tr acc in
  exists new, acc' = acc ++ new /\ wle w w' /\ WInv w' /\ VInv w' /\ TInv1 w' (fut ++ new) [] errs' tr'
              /\ fut_done w' (fut ++ new) /\ (failed = false -> no_err w') /\ paired_rev tr'.
Proof.
  induction tasks as [|j tasks IH]; intros w errs tr fut acc G L W Vi T FD NE P Ht; cbn [run_tasks].
  - exists []. rewrite !app_nil_r. split; [reflexivity|split; [apply wle_refl|split; [exact W|split; [exact Vi|split; [exact T|split; [exact FD|split; [intros _; exact NE|exact P]]]]]]].
  - destruct (is_ok w j) eqn:Ok.
    + apply IH; auto. intros q Hq. apply Ht. right; exact Hq.
    + destruct (Ht j (or_introl eq_refl)) as [Tj Rj].
      assert (Hnf : ~ In j fut).
      { intros H. pose proof (FD j H) as X. pose proof (NE j) as Y.
        unfold is_none, is_err, is_ok in *. destruct (probe_job w j); congruence. }
      assert (Hmem : mem_job j fut = false).
      { destruct (mem_job j fut) eqn:M; [apply mem_job_In in M; contradiction|reflexivity]. }
      (* launch *)
      pose proof (launch_spec V fails vr g (Some 1) w errs [j] fut [] tr [] T) as LS.
      cbn [launch] in LS. rewrite Hmem in LS.
      assert (BL : below_limit vr (Some 1) [] = true) by (unfold below_limit; destruct (fix16 vr); reflexivity).
      rewrite BL in LS. cbn [negb andb app] in LS.
      destruct LS as [T1 _].
      { intros q [<-|[]]. eapply task_ok_mono; eauto. }
      (* finish *)
      destruct w as [res vis]. cbn [results].
      pose proof (finish_spec V body fails vr g WF (Some 1) w0 ss (fut ++ [j]) res vis [j] [] errs (ELaunch j :: tr) j
                    G L W Vi T1 Rj (or_introl eq_refl) (fun q (H : In q []) => match H with end) eq_refl) as FS.
      cbv zeta in FS. destruct FS as [L1 [W1 [V1 T2]]].
      assert (FD1 : fut_done (mkW (res ++ [(j, job_result body fails ss j)]) []) (fut ++ [j])).
      { intros q Hq. apply in_app_or in Hq. destruct Hq as [Hq|[<-|[]]].
        - apply (is_none_false_mono (mkW res vis)); [exact L1|apply FD; exact Hq].
        - unfold is_none, probe_job. cbn. rewrite lookup_app.
          destruct (lookup j res) as [x|]; [destruct x; reflexivity|]. rewrite job_eqb_refl.
          destruct (job_result body fails ss j); reflexivity. }
      destruct (job_result body fails ss j) as [x|] eqn:Jr.
      * (* success: continue *)
        assert (NE1 : no_err (mkW (res ++ [(j, Some x)]) [])).
        { intros q. pose proof (NE q) as Y. unfold is_err, probe_job in *. cbn in *. rewrite lookup_app.
          destruct (lookup q res) as [y|]; [exact Y|]. destruct (job_eqb q j); reflexivity. }
        specialize (IH (mkW (res ++ [(j, Some x)]) []) errs (EFinish j true :: ELaunch j :: tr) (fut ++ [j]) (acc ++ [j])
                       G (wle_trans V _ _ _ L L1) W1 V1 (TInv_vis V fails vr g (Some 1) _ _ _ _ _ _ _ T2) FD1 NE1
                       (conj eq_refl P) (fun q Hq => Ht q (or_intror Hq))).
        destruct (run_tasks body fails tasks ss _ errs _ (acc ++ [j])) as [[[[w' errs'] tr'] acc'] failed].
        destruct IH as [new [Ea [L2 [W2 [V2 [T3 [FD2 [NE2 P2]]]]]]]].
        exists (j :: new). rewrite <- !app_assoc in *. cbn in *.
        split; [exact Ea|split; [|split; [exact W2|split; [exact V2|split; [exact T3|split; [exact FD2|split; [exact NE2|exact P2]]]]]]].
        eapply wle_trans; [|exact L2]. intros q v Hl. apply (L1 q v Hl).
      * (* the job fails: its exception leaves the loop *)
        exists [j]. split; [reflexivity|split; [|split; [exact W1|split; [exact V1|split; [|split; [exact FD1|split; [discriminate|]]]]]]].
        -- intros q v Hl. apply (L1 q v Hl).
        -- apply (TInv_vis V fails vr g (Some 1) _ vis). exact T2.
        -- split; [reflexivity|exact P].
Qed.

Record SyInv (ls : lstate) : Prop := {
  sy_l : LInv1 ls;
  sy_done : fut_done (ls_w ls) (ls_futured ls);
  sy_pend : ls_pending ls = [];
  sy_pair : paired_rev (ls_trace ls)
}.

Lemma sync_step_spec (ls : lstate) :
  SyInv ls -> no_err (ls_w ls) ->
  match sync_step body fails vr g kmax ls with
  | Continue ls' => SyInv ls' /\ no_err (ls_w ls')
  | Stop _ ls' => SyInv ls'
  end.
Proof.
  intros S NE. pose proof S as S0. destruct S as [[G W Vi T Tt P] FD PE PA]. unfold sync_step.
  destruct (raised (ls_ss ls)); [exact S0|].
  destruct (negb _); [exact S0|].
  rewrite PE in Tt.
  pose proof (run_tasks_spec (ls_w ls) (ls_ss ls) (ls_tasks ls) (ls_w ls) (ls_errors ls) (ls_trace ls) (ls_futured ls) []
                G (wle_refl V _) W Vi Tt FD NE PA T) as RS.
  destruct (run_tasks body fails (ls_tasks ls) (ls_ss ls) (ls_w ls) (ls_errors ls) (ls_trace ls) []) as [[[[w1 errs1] tr1] launched] failed].
  destruct RS as [new [Ea [L1 [W1 [V1 [T1 [FD1 [NE1 P1]]]]]]]]. cbn in Ea. subst launched.
  assert (G1 : GInv w1 (ls_ss ls)) by (eapply GInv_mono; eauto).
  assert (S1 : SyInv (mkLS (ls_ss ls) w1 (ls_tasks ls) (ls_futured ls ++ new) [] errs1 tr1 ((ls_tasks ls, new) :: ls_iters ls))).
  { constructor; cbn; auto. constructor; cbn; auto.
    - intros j Hj. destruct (T j Hj) as [A B]. split; [eapply task_ok_mono; eauto|exact B].
    - intros j []. }
  destruct failed; [exact S1|].
  destruct (poll_keeps V body fails vr F14 g WF kmax w1 (ls_ss ls) [] G1 W1 (fun j (H : In j []) => match H with end)) as [G2 [T2 _]].
  destruct (poll vr g kmax w1 (ls_ss ls)) as [ss2 tasks2]. cbn [fst snd] in *.
  split; [|apply NE1; reflexivity].
  constructor; cbn; auto. constructor; cbn; auto. intros j [].
Qed.

Lemma run_sync_loop_inv : forall fuel ls,
  SyInv ls -> no_err (ls_w ls) -> SyInv (o_final (run_sync_loop body fails vr g kmax fuel ls)).
Proof.
  induction fuel as [|f IH]; intros ls S NE; cbn [run_sync_loop]; [exact S|].
  pose proof (sync_step_spec ls S NE) as X.
  destruct (sync_step body fails vr g kmax ls) as [ls'|st ls']; cbn; [destruct X; apply IH; auto|exact X].
Qed.

Lemma SyInv_init : SyInv (ls_init V vr g kmax) /\ no_err (ls_w (ls_init V vr g kmax)).
Proof.
  unfold ls_init.
  assert (W0 : WInv (w_init V)). { intros j. split; unfold is_ok, is_err, probe_job; cbn; discriminate. }
  destruct (poll_keeps V body fails vr F14 g WF kmax (w_init V) (ss_init V) []
              (GInv_init V body fails g) W0 (fun j (H : In j []) => match H with end)) as [A [B C]].
  destruct (poll vr g kmax (w_init V) (ss_init V)) as [ss tasks]. cbn [fst snd] in *.
  split; [|intros j; unfold is_err, probe_job; cbn; reflexivity].
  constructor; cbn [ls_ss ls_w ls_tasks ls_futured ls_pending ls_errors ls_trace]; [|intros j []|reflexivity|exact I].
  constructor; cbn [ls_ss ls_w ls_tasks ls_futured ls_pending ls_errors ls_trace].
  - exact A.
  - exact W0.
  - intros n i v H. discriminate.
  - exact B.
  - constructor.
    + intros j H. unfold is_ok, probe_job in H. cbn in H. discriminate.
    + exact I.
    + reflexivity.
    + constructor.
    + intros j [].
    + intros j [].
    + intros j H. unfold is_none, probe_job in H. cbn in H. discriminate.
    + intros j; split; intros [].
    + intros j H. unfold is_err, probe_job in H. cbn in H. discriminate.
    + intros j b [].
    + reflexivity.
    + intros; cbn; lia.
    + intros; exact I.
  - intros j [].
Qed.

Notation runs_sync := (run_sync V body fails vr g kmax).

Lemma sync_inv fuel : SyInv (o_final (runs_sync fuel)).
Proof. unfold run_sync. destruct SyInv_init as [A B]. apply run_sync_loop_inv; auto. Qed.

Theorem sync_safety fuel : starts_after_upstream g (event_log (runs_sync fuel)).
Proof.
  unfold event_log. apply safe_rev_spec.
  apply (ti_safe _ _ _ _ _ _ _ _ _ _ (li_t _ _ _ _ _ _ _ (sy_l _ (sync_inv fuel)))).
Qed.

Theorem sync_at_most_once fuel : at_most_once (event_log (runs_sync fuel)).
Proof.
  unfold at_most_once, event_log.
  pose proof (li_t _ _ _ _ _ _ _ (sy_l _ (sync_inv fuel))) as T.
  rewrite (ti_fut _ _ _ _ _ _ _ _ _ _ T). apply (ti_nodup _ _ _ _ _ _ _ _ _ _ T).
Qed.

Theorem sync_one_at_a_time fuel : concurrency_bounded 1 (event_log (runs_sync fuel)).
Proof.
  unfold event_log. apply conc_rev_spec. apply paired_conc. apply (sy_pair _ (sync_inv fuel)).
Qed.

Lemma run_sync_loop_finished : forall fuel ls,
  ls_pending ls = [] ->
  o_status (run_sync_loop body fails vr g kmax fuel ls) = Finished ->
  loop_cond vr g (o_final (run_sync_loop body fails vr g kmax fuel ls)) = false.
Proof.
  induction fuel as [|f IH]; intros ls PE; cbn [run_sync_loop]; [discriminate|].
  unfold sync_step.
  destruct (raised (ls_ss ls)); [cbn; discriminate|].
  destruct (negb (negb (is_nil (ls_tasks ls)) || any_not_done vr g (ls_w ls) (ls_ss ls))) eqn:C.
  - cbn. intros _. unfold loop_cond. rewrite PE. cbn. apply negb_true_iff in C.
    apply orb_false_iff in C. destruct C as [C1 C2]. rewrite C1, C2. reflexivity.
  - destruct (run_tasks body fails (ls_tasks ls) (ls_ss ls) (ls_w ls) (ls_errors ls) (ls_trace ls) []) as [[[[w1 errs1] tr1] launched] failed].
    destruct failed; [cbn; discriminate|].
    destruct (poll vr g kmax w1 (ls_ss ls)) as [ss2 tasks2]. apply IH. reflexivity.
Qed.

Theorem sync_all_run fuel :
  (forall j, fails j = false) -> o_status (runs_sync fuel) = Finished ->
  every_job_once g (event_log (runs_sync fuel)).
Proof.
  intros NF St. pose proof (sy_l _ (sync_inv fuel)) as I.
  assert (C : loop_cond vr g (o_final (runs_sync fuel)) = false).
  { unfold run_sync in *. apply run_sync_loop_finished; [|exact St].
    unfold ls_init. destruct (poll vr g kmax (w_init V) (ss_init V)); reflexivity. }
  split; [apply sync_at_most_once|split].
  - intros j. unfold event_log. rewrite (end_launched V body fails vr F14 g WF (Some 1) _ I C). unfold should_run_b.
    rewrite (no_fail_no_taint g fails WF _ NF), andb_true_r, mem_job_In. tauto.
  - intros [n i] Hj. destruct (all_jobs_node g n i Hj) as [nd [Hnd [<- Hi]]].
    unfold event_log. apply -> in_rev.
    apply (ti_ok_trace _ _ _ _ _ _ _ _ _ _ (li_t _ _ _ _ _ _ _ I)).
    apply (end_all_ok V body fails vr F14 g WF (Some 1) _ I C NF nd i Hnd Hi).
Qed.

Theorem sync_outputs fuel :
  (forall j, fails j = false) -> o_status (runs_sync fuel) = Finished ->
  node_outputs g (runs_sync fuel) = reference_outputs V body g.
Proof.
  intros NF St. pose proof (sy_l _ (sync_inv fuel)) as I.
  assert (C : loop_cond vr g (o_final (runs_sync fuel)) = false).
  { unfold run_sync in *. apply run_sync_loop_finished; [|exact St].
    unfold ls_init. destruct (poll vr g kmax (w_init V) (ss_init V)); reflexivity. }
  unfold node_outputs, reference_outputs. apply map_ext_in. intros nd Hnd. apply map_ext_in. intros i Hi.
  apply in_seq in Hi. apply (end_values V body fails vr F14 g WF (Some 1) _ I C NF nd Hnd i). lia.
Qed.

End Sync.
