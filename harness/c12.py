"""C12 — a crash at any point never yields a wrong result or a wedged cache."""
import concurrent.futures as cf
import json
import os
import pickle
import shutil
import tempfile

from .lib import coqio, procs
from .lib.runner import Outcome, Failure

PROP = "C12"
PROPS_FILE = "Props/C12.v"
IMPORTS = ["Model.CacheProto", "Spec.CacheProto"]
MANIFEST = dict(
    text="Coq theorems on the transition-system model of Job.run/save/load_result (Model/CacheProto.v), environment "
         "steps ACrash after any checkpoint and AProgress n (any length of a file being written): C12_recover - from "
         "every state reachable by any history of submissions and kills (deterministic body, no rerun), a further "
         "submission by a process outside any submission, the holders of the markers being dead, terminates on its own "
         "(rank/progress argument), gets past both SoftFileLock markers, and the caller receives the body's value with "
         "at most one more body execution; C12_recover_hit (a readable whole result is returned without executing, "
         "directory untouched); C12_truncation (no strict prefix of the result pickle is read back as a result); "
         "C12_dead_markers. partial: the model cannot exhibit process death, filelock's stale-marker detection or "
         "cloudpickle themselves - they are the hypotheses `free` (a marker naming a dead pid is broken; checked on the "
         "real filelock by every resubmission under a wall-clock limit) and codec_ok (checked by the full truncation "
         "sweep of real _result/_job/_error pickles on every run); fault injection at every checkpoint label with "
         "os._exit / ftruncate, resubmission in a fresh interpreter, traces accepted by the model.",
    note="Trusted: Coq kernel + vm_compute; hand-written model; filelock 3.32 SoftFileLock stale-marker breaking; "
         "cloudpickle rejects strict prefixes with UnpicklingError/EOFError; kill = os._exit at a checkpoint.",
    technique="Coq invariants + termination measure over a transition system with crash steps; fault injection at every checkpoint + truncation sweep",
    design="§8 Group C / C12",
)
TIE_NAME = "Model.CacheProto.accepts/final_matches vs crash-and-resubmit runs of Job.run (pydra/engine/job.py, result.py)"
TRUSTED = [
    "Model/CacheProto.v (see C10): ACrash leaves markers, info file and any partially written file behind; AProgress n "
    "= the open file holds n bytes",
    "hypothesis free: filelock 3.32 SoftFileLock breaks a marker whose recorded pid is dead on this host "
    "(filelock/_soft.py _try_break_stale_lock; a marker without parsable content only after 2 s)",
    "hypothesis Spec.CacheProto.codec_ok on cloudpickle (validated on every run by the truncation sweep below)",
    "kill is modelled at checkpoint granularity (os._exit at a label; ftruncate to a chosen length inside an open file)",
    "harness/lib/procs.py",
]
ASSUMPTIONS = ["deterministic succeeding body, rerun=False for C12_recover", "the resubmission is the only live "
               "process inside the protocol (others dead or outside their with block)", "single cache location"]
RULE = ("crash points = (checkpoint label, occurrence) on the execution path of a succeeding python / shell task, "
        "of a two-node workflow's own job (debug worker: Job.run; cf worker: Job.run_async) and of its first node job "
        "(debug: kills the submitter; cf: kills the pool process), "
        "killed with os._exit(137) there (truncation to 0 / 1 / middle / size-1 bytes inside open result and job "
        "files), optionally a second kill during the recovery, then a resubmission in a fresh interpreter under a "
        "wall-clock limit; distinct = distinct (task kind, crash points); non-trivial = the kill happened while the "
        "lock marker was held (the resubmission has to break a dead owner's marker)")

EXTRA = """
(* the trace, body executions before the resubmission, the resubmitting process, and for a workflow the largest
   number of executions of any of its node bodies (before / after are then counted per node) *)
Definition c12_case := (trace_case * nat * nat * option nat)%type.
Definition tie_accepts (c : c12_case) : bool := accepts (fst (fst (fst c))).
Definition tie_final (c : c12_case) : bool := final_matches (fst (fst (fst c))).
Definition node_accepts (c : trace_case) : bool := accepts c.
Definition set_runs (g : gobs) (k : nat) : gobs :=
  let '(a, b, c, d, e, f, r, i) := g in (a, b, c, d, e, f, k, i).
Definition spec_ok (c : c12_case) : bool :=
  let '(pre, bv, tr, go, pos, before, who, nodes) := c in
  match find (fun po => Nat.eqb (pobs_pid po) who) pos with
  | Some po => c12_specb bv before (match nodes with Some k => set_runs go k | None => go end) po
  | None => false
  end.
"""

# (label, occurrence) on the path of one executing submission of a succeeding task
PATH = [("job.pre_run_done", 1), ("job.lock_acquired", 1), ("job.cache_checked", 1), ("job.info_written", 1),
        ("job.dir_cleared", 1), ("job.dir_created", 1), ("save.lock_acquired", 1), ("save.job.before", 1),
        ("save.job.opened", 1), ("save.job.dumped", 1), ("save.job.after", 1), ("save.lock_released", 1),
        ("job.job_saved", 1), ("job.populated", 1), ("job.cwd_changed", 1), ("job.pre_hook_done", 1),
        ("job.audit_started", 1), ("job.body_enter", 1), ("job.body_left", 1), ("job.outputs_collected", 1),
        ("job.post_hook_done", 1), ("job.audit_finalised", 1), ("save.lock_acquired", 2), ("save.result.before", 1),
        ("save.result.opened", 1), ("save.result.dumped", 1), ("save.result.after", 1), ("save.job.before", 2),
        ("save.job.opened", 2), ("save.job.dumped", 2), ("save.job.after", 2), ("save.lock_released", 2),
        ("job.result_saved", 1), ("job.info_removed", 1), ("job.cwd_restored", 1), ("job.lock_released", 1),
        ("job.post_run_done", 1)]
HOLDING = {lbl for lbl, _ in PATH} - {"job.pre_run_done", "job.lock_released", "job.post_run_done"}
OPEN = {"save.result.opened", "save.result.dumped", "save.job.opened", "save.job.dumped"}


def crash_rule(label, nth, trunc=None):
    if trunc is not None:
        return {"label": label, "nth": nth, "action": "truncate", "length": trunc}
    return {"label": label, "nth": nth, "action": "exit"}


def gen_scenarios(ctx, corpus):
    rng = ctx.rng
    out = [c["scenario"] for c in corpus if "scenario" in c]
    points = list(PATH)
    if ctx.tier == "quick" and ctx.widen == 1:
        # every holding label once across runs of different seeds; a spread of ~14 per quick run
        rng.shuffle(points)
        points = sorted(points[:14], key=PATH.index)
    k = 0
    for label, nth in points:
        kinds = ["python"] if (ctx.tier == "quick" and ctx.widen == 1) else ["python", "shell"]
        for kind in kinds:
            truncs = [None]
            if label in OPEN:
                truncs = [None, 0, 1, 997] if ctx.tier != "quick" else [None, rng.choice([0, 1, 997])]
            for tr in truncs:
                stages = [dict(children=[dict(subs=[{}], rules=[crash_rule(label, nth, tr)])], gate=None)]
                if rng.random() < 0.25:
                    l2, n2 = rng.choice(PATH)
                    stages.append(dict(children=[dict(subs=[{}], rules=[crash_rule(l2, n2)])], gate=None))
                stages.append(dict(children=[dict(subs=[{}])], gate=None))
                out.append(dict(name="c12-%d" % k, pre=False, task=dict(task=kind, x=rng.randrange(1, 40)),
                                stages=stages, timeout=120, crash=[label, nth, tr]))
                k += 1
    return out


def wf_scenarios(ctx):
    """Workflow submissions (two chained node jobs with their own locks), debug worker (Job.run, node jobs in the
    same process) and cf worker (Job.run_async + PydraFileLock, node jobs in pool processes): kill at a label of
    the workflow's own job (key workflow-) or inside its first node job (key python-), then resubmit the
    workflow in a fresh interpreter."""
    rng = ctx.rng
    outer = [p for p in PATH if p[0] not in ("job.pre_run_done",)]
    small = ctx.tier == "quick" and ctx.widen == 1
    plan = []
    for worker in ("debug", "cf"):
        n_outer, n_node = (1, 1) if small else ((8, 8) if worker == "debug" else (4, 3))
        if small and worker == "cf":
            n_outer, n_node = (1, 0) if rng.random() < 0.5 else (0, 1)
        cand = [p for p in outer if not (worker == "cf" and p[0] == "job.cwd_changed")]
        for label, nth in rng.sample(cand, n_outer):
            plan.append((worker, "workflow-", label, nth))
        for label, nth in rng.sample([p for p in PATH if p[0] != "job.pre_run_done"], n_node):
            plan.append((worker, "python-", label, nth))
    out = []
    for k, (worker, keyp, label, nth) in enumerate(plan):
        rule = dict(crash_rule(label, nth), key=keyp)
        out.append(dict(name="c12-wf-%s-%d" % (worker, k), pre=False,
                        task=dict(task="workflow", x=rng.randrange(1, 40), worker=worker),
                        stages=[dict(children=[dict(subs=[{}], rules=[rule])], gate=None),
                                dict(children=[dict(subs=[{}])], gate=None)],
                        timeout=(480 if worker == "cf" else 240), crash=[label, nth, None], crash_in=keyp + "@" + worker))
    return out


def truncation_sweep(ctx, files):
    """codec_ok, second clause, on the real pickles: every strict prefix must be rejected with exactly the
    exceptions load_result retries on; a sample of prefixes goes through the real load_result."""
    import cloudpickle as cp
    from pathlib import Path
    from pydra.engine.result import load_result
    total, bad, per_file = 0, [], {}
    for name, data in files.items():
        step = 1 if (ctx.tier == "thorough" or name == "_result.pklz") else 7
        cnt = 0
        for n in range(0, len(data), step):
            try:
                cp.loads(data[:n])
                bad.append((name, n, "accepted"))
            except (pickle.UnpicklingError, EOFError):
                pass
            except Exception as e:  # load_result would let this one escape
                bad.append((name, n, type(e).__name__))
            cnt += 1
        per_file[name] = {"size": len(data), "prefixes_checked": cnt}
        total += cnt
    # through load_result itself (directory layout, st_size test, retry loop)
    data = files.get("_result.pklz", b"")
    d = tempfile.mkdtemp(prefix="verif-c12s-")
    through = 0
    try:
        os.makedirs(os.path.join(d, "k"))
        fp = os.path.join(d, "k", "_result.pklz")
        lens = sorted(set([0, 1, 2, len(data) - 1] + [ctx.rng.randrange(len(data)) for _ in range(ctx.budget(60, 600))]))
        for n in lens:
            if not 0 <= n < len(data):
                continue
            with open(fp, "wb") as f:
                f.write(data[:n])
            try:
                r = load_result("k", [Path(d)], retries=2, polling_interval=0.0)
                if r is not None:
                    bad.append(("load_result", n, "returned a result"))
            except Exception as e:
                bad.append(("load_result", n, type(e).__name__))
            through += 1
        with open(fp, "wb") as f:
            f.write(data)
        whole = load_result("k", [Path(d)], retries=2, polling_interval=0.0)
        if whole is None:
            bad.append(("load_result", len(data), "whole file not loaded"))
    finally:
        shutil.rmtree(d, ignore_errors=True)
    return dict(prefixes_in_memory=total, prefixes_through_load_result=through, files=per_file, bad=bad[:20])


def run(ctx):
    scs = gen_scenarios(ctx, ctx.corpus()) + wf_scenarios(ctx)
    clean = dict(name="c12-clean", pre=False, task=dict(task="python", x=5),
                 stages=[dict(children=[dict(subs=[{}])], gate=None)], timeout=120, collect_files=True)
    failing = dict(name="c12-failing", pre=False, task=dict(task="python", x=5, fail=True),
                   stages=[dict(children=[dict(subs=[{}])], gate=None)], timeout=120, collect_files=True)
    with cf.ThreadPoolExecutor(max_workers=6) as ex:
        fut_clean = ex.submit(procs.run_scenario, clean)
        fut_fail = ex.submit(procs.run_scenario, failing)
        results = list(ex.map(procs.run_scenario, scs))
        files = dict(fut_clean.result().get("files", {}))
        if "_error.pklz" in fut_fail.result().get("files", {}):
            files["_error.pklz"] = fut_fail.result()["files"]["_error.pklz"]
    out = Outcome(rule=RULE)
    sweep = truncation_sweep(ctx, files)
    out.extra["truncation_sweep"] = {k: v for k, v in sweep.items() if k != "bad"}
    for name, n, what in sweep["bad"]:
        out.failures.append(Failure(case={"file": name, "prefix_length": n}, observed=what,
                                    expected="pickle.UnpicklingError or EOFError (load_result answers None)",
                                    note="a strict prefix of a real pickle is not rejected the way load_result expects "
                                         "(codec_ok hypothesis of C12_truncation)", kind="spec"))
    cases, seen = [], set()
    node_cases, node_of = [], []
    dist = {"workflow_kill_sites": {}, "crash_labels": {}, "truncations": 0, "double_crash": 0, "shell": 0, "hangs": 0,
            "resubmission_reexecuted": 0, "resubmission_hit": 0}
    nontrivial = 0
    for sc, res in zip(scs, results):
        bv = procs.expected_value(sc["task"])
        who = res["children"][-1]["idx"]
        before = res["runs_stage"][-2] if len(res["runs_stage"]) >= 2 else 0
        nodes = "None"
        if sc["task"]["task"] == "workflow":
            x = sc["task"].get("x", 3)
            keys = [str(x), str(2 * x + 1)]
            prev = res["runs_stage_by_x"][-2] if len(res["runs_stage_by_x"]) >= 2 else {}
            before = max([prev.get(kx, 0) for kx in keys])
            nodes = "(Some %d)" % max([res["runs_by_x"].get(kx, 0) - prev.get(kx, 0) for kx in keys] + [0])
            before = 0            # c12_specb: executions of every node body during the resubmission <= 1
            dist["workflow_kill_sites"][sc.get("crash_in", "?")] = dist["workflow_kill_sites"].get(sc.get("crash_in", "?"), 0) + 1
        for key, nev in res["node_events"].items():
            node_cases.append("(false, 1, %s, (false, false, false, 0, 0, 0, 0, 0), [])" % procs.coq_events(nev))
            node_of.append((len(cases), key))
        cases.append("(%s, %d, %d, %s)" % (procs.case_literal(sc, res, bv), before, who, nodes))
        label, nth, trunc = sc.get("crash", [None, None, None])
        dist["crash_labels"][str(label)] = dist["crash_labels"].get(str(label), 0) + 1
        dist["truncations"] += trunc is not None
        dist["double_crash"] += len(sc["stages"]) > 2
        dist["shell"] += sc["task"]["task"] == "shell"
        dist["hangs"] += bool(res["hang"])
        rec_labels = res["labels"].get(who, [])
        dist["resubmission_reexecuted"] += "job.body_enter" in rec_labels
        dist["resubmission_hit"] += "job.cache_hit" in rec_labels
        sig = (sc["task"]["task"], json.dumps([st["children"][0].get("rules") for st in sc["stages"]], sort_keys=True))
        if sig not in seen:
            seen.add(sig)
            if label in HOLDING:
                nontrivial += 1
        rec = res["children"][-1]
        if rec["rc"] is None:
            out.failures.append(Failure(case={"scenario": sc}, observed=_obs(res),
                                        expected="the resubmission returns within %d s" % sc.get("timeout", 120),
                                        note="resubmission after a crash hangs", kind="spec"))
    chk = coqio.run_cases(ctx.scratch, "c12", IMPORTS, "c12_case", cases,
                          {"accepts": "tie_accepts", "final": "tie_final", "spec": "spec_ok"}, extra=EXTRA, shard=25)
    hung = {i for i, r in enumerate(results) if r["children"][-1]["rc"] is None}
    if node_cases:
        nchk = coqio.run_cases(ctx.scratch, "c12n", IMPORTS, "trace_case", node_cases, {"accepts": "node_accepts"},
                               extra=EXTRA, shard=40)
        for j in nchk["accepts"]:
            i, key = node_of[j]
            if i in hung:
                continue
            out.failures.append(Failure(case={"scenario": scs[i], "node_job": key}, observed=_obs(results[i]),
                                        expected={"node job trace (model events)": node_cases[j][:3000]},
                                        note="trace of a workflow's node job not accepted by the model", kind="tie"))
        out.extra["node_job_traces_validated"] = len(node_cases) - len(nchk["accepts"])
    for i in chk["spec"]:
        if i in hung:
            continue
        out.failures.append(Failure(case={"scenario": scs[i]}, observed=_obs(results[i]),
                                    expected="resubmission returns Returned(errored=False, out=%d) with at most one "
                                             "more body execution" % procs.expected_value(scs[i]["task"]),
                                    note="C12 spec: correct result or re-execution after a crash", kind="spec"))
    for i in sorted(set(chk["accepts"]) | set(chk["final"])):
        if i in chk["spec"] or i in hung:
            continue
        out.failures.append(Failure(case={"scenario": scs[i]}, observed=_obs(results[i]),
                                    expected=_model_view(ctx, cases[i], "t%d" % i),
                                    note="trace not accepted by the model" if i in chk["accepts"] else
                                    "final observations differ from the model's", kind="tie"))
    out.evaluations = len(scs) + sweep["prefixes_in_memory"] + sweep["prefixes_through_load_result"]
    out.traces_validated = len(scs) - len(set(chk["accepts"]))
    out.distinct_nontrivial = nontrivial
    out.distribution = dist
    out.exhaustive = False
    out.samples = [{"scenario": scs[i]["name"], "task": scs[i]["task"]["task"], "crash_at": scs[i].get("crash"),
                    "stages": len(scs[i]["stages"]), "body_executions_per_stage": results[i]["runs_stage"],
                    "resubmission": results[i]["children"][-1]["report"][-1:],
                    "cache_after": {k: v for k, v in (results[i]["cache"] or {}).items() if k != "listing"}}
                   for i in range(min(4, len(scs)))]
    return out


def _obs(res):
    return {"body_executions_per_stage": res["runs_stage"], "executions_by_body_input_per_stage": res.get("runs_stage_by_x"),
            "cache": res["cache"], "hang": res["hang"],
            "children": [{"idx": c["idx"], "rc": c["rc"], "report": c["report"], "tail": c["tail"]} for c in res["children"]],
            "events": ["%d:%s" % e for e in res["events"]]}


def _model_view(ctx, case, name):
    try:
        v = coqio.eval_terms(ctx.scratch, name, IMPORTS, [
            "let '(pre, bv, tr, go, pos, before, who, nodes) := %s in (first_reject bv (init bv pre) tr 0, List.length tr, "
            "match accept_run bv (init bv pre) tr with Some s => Some (observe_g s (map pobs_pid pos), map (fun po => observe_p s (pobs_pid po)) pos) | None => None end)" % case])
        return {"first_rejected_event_index, trace_length, model_final_observation": v[0]}
    except Exception as e:  # pragma: no cover
        return {"model_evaluation_failed": str(e)[-500:]}


def replay(ctx, payload):
    case = payload["case"]
    if "scenario" not in case:
        print(json.dumps(payload, indent=1))
        return 0
    sc = case["scenario"]
    res = procs.run_scenario(sc)
    bv = procs.expected_value(sc["task"])
    who = res["children"][-1]["idx"]
    before = res["runs_stage"][-2] if len(res["runs_stage"]) >= 2 else 0
    nodes = "None"
    if sc["task"]["task"] == "workflow":
        x = sc["task"].get("x", 3)
        keys = [str(x), str(2 * x + 1)]
        prev = res["runs_stage_by_x"][-2] if len(res["runs_stage_by_x"]) >= 2 else {}
        nodes = "(Some %d)" % max([res["runs_by_x"].get(kx, 0) - prev.get(kx, 0) for kx in keys] + [0])
        before = 0
    lit = "(%s, %d, %d, %s)" % (procs.case_literal(sc, res, bv), before, who, nodes)
    print("implementation:", json.dumps(_obs(res), indent=1, default=repr))
    vals = coqio.eval_terms(ctx.scratch, "replay", IMPORTS, ["tie_accepts %s" % lit, "tie_final %s" % lit, "spec_ok %s" % lit],
                            extra=EXTRA)
    print("model accepts trace:", vals[0], " final observations match:", vals[1])
    print("model:", _model_view(ctx, lit, "replay2"))
    print("spec (c12_specb: good answer, at most one more execution):", vals[2])
    return 0
