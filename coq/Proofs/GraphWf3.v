(* remove_successors_nodes: a call meeting Spec.Graph.pre_opb on a well-formed (wf2, inv2) state returns, keeps a
   valid order, but need NOT leave a well-formed state: a follower's successor that is already marked for removal
   is not itself a follower, so its connection stays recorded after the follower has been popped. *)
From Pydra Require Import Base.Prelude Model.Graph Spec.Graph
  Proofs.GraphSort Proofs.GraphInv Proofs.GraphEdges Proofs.GraphTopo Proofs.GraphLive Proofs.GraphWf Proofs.GraphWf2.
Local Open Scope nat_scope.

Definition w_nodes : list node := [0; 1; 2].
Definition w_edges : list edge := [(0, 1); (1, 2)].
Definition w_pre : graph :=
  mkG [1] [(0, 1); (1, 2)] [(0, []); (1, [0]); (2, [1])] [(0, [1]); (1, [2]); (2, [])] None [2; 0].
Definition w_post : graph := mkG [] [(1, 2)] [(2, [1])] [(2, [])] None [2].

Lemma w_acyclic : acyclic w_nodes w_edges.
Proof.
  apply (topo_valid_acyclic _ _ [0; 1; 2]). split; [repeat constructor; cbn; intuition lia|].
  split; [reflexivity|]. intros a b H _ _. cbn in H.
  repeat (destruct H as [H|H]; [inversion H; subst; cbn; lia|]). contradiction.
Qed.

Lemma w_pre_reached :
  exists g0, init w_nodes w_edges = Ok g0 /\ run g0 [RemoveNodes [2] false; RemoveNodes [0] true] = Ok w_pre.
Proof. eexists. split; vm_compute; reflexivity. Qed.

Lemma w_pre_wf : wf2 w_pre /\ inv2 w_pre.
Proof.
  destruct (init w_nodes w_edges) as [g0|e] eqn:Hi; [|vm_compute in Hi; discriminate].
  pose proof (init_wf2 _ _ _ Hi w_acyclic) as W0. pose proof (init_inv2 _ _ _ Hi) as I0.
  assert (E0 : g0 = mkG [0; 1; 2] [(0, 1); (1, 2)] [(0, []); (1, [0]); (2, [1])] [(0, [1]); (1, [2]); (2, [])] None [])
    by (vm_compute in Hi; inversion Hi; reflexivity).
  destruct (wellformed_removal_step g0 (RemoveNodes [2] false) W0 I0 eq_refl) as [g1 [S1 [W1 [I1 _]]]];
    [subst g0; vm_compute; reflexivity|].
  destruct (wellformed_removal_step g1 (RemoveNodes [0] true) W1 I1 eq_refl) as [g2 [S2 [W2 [I2 _]]]].
  { subst g0. vm_compute in S1. inversion S1; subst g1. vm_compute. reflexivity. }
  subst g0. vm_compute in S1. inversion S1; subst g1. vm_compute in S2. inversion S2; subst g2.
  split; assumption.
Qed.

Lemma w_post_not_consistent : ~ consistent w_post.
Proof.
  intros [_ [_ [_ [_ [_ [K _]]]]]]. destruct (K 1 2) as [H _]; [cbn; auto|].
  cbn in H. destruct H as [H|[]]. discriminate.
Qed.

Theorem remove_successors_nodes_breaks_wf2 :
  exists g g', wf2 g /\ inv2 g /\ pre_opb g (RemoveSuccessorsNodes 0) = true /\
               step g (RemoveSuccessorsNodes 0) = Ok g' /\
               ~ wf2 g' /\ ~ consistent g' /\ sorted_ok g' /\ sorted_ok_preds g'.
Proof.
  exists w_pre, w_post. destruct w_pre_wf as [W I].
  assert (S : step w_pre (RemoveSuccessorsNodes 0) = Ok w_post) by (vm_compute; reflexivity).
  repeat match goal with |- _ /\ _ => split end; try assumption.
  - vm_compute; reflexivity.
  - intros [[_ [C _]] _]. exact (w_post_not_consistent C).
  - exact w_post_not_consistent.
  - destruct (inv_step w_pre (RemoveSuccessorsNodes 0) w_post I eq_refl S) as [_ [A _]]. exact A.
  - destruct (inv_step w_pre (RemoveSuccessorsNodes 0) w_post I eq_refl S) as [_ [_ A]]. exact A.
Qed.
(* a node without successors: remove_successors_nodes is remove_nodes_connections *)
Lemma remove_successors_leaf g n :
  dget (g_succs g) n = Some [] -> remove_successors_nodes g n = remove_nodes_connections g [n].
Proof.
  intros H. unfold remove_successors_nodes. cbn [succ_all]. rewrite H. cbn [of_opt bind foldM].
  destruct (remove_nodes_connections g [n]) as [g1|e]; reflexivity.
Qed.

Lemma pre_leaf g n : pre_opb g (RemoveSuccessorsNodes n) = true -> pre_opb g (RemoveNodesConnections [n]) = true.
Proof.
  cbn [pre_opb]. intros H. apply andb_true_iff in H. destruct H as [M P].
  cbn. rewrite M, P. reflexivity.
Qed.

Theorem wellformed_remove_successors_leaf g n :
  wf2 g -> inv2 g -> pre_opb g (RemoveSuccessorsNodes n) = true -> dget (g_succs g) n = Some [] ->
  exists g', step g (RemoveSuccessorsNodes n) = Ok g' /\ wf2 g' /\ inv2 g' /\ sorted_ok g' /\ sorted_ok_preds g'.
Proof.
  intros W I P L. destruct (wellformed_removal_step g (RemoveNodesConnections [n]) W I eq_refl (pre_leaf g n P))
    as [g' [S R]]. exists g'. split; [|exact R]. cbn [step] in *. rewrite remove_successors_leaf; assumption.
Qed.
