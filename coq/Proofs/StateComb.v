(* Proofs/StateComb.v — C02: the combiner path of State.prepare_states. *)
From Coq Require Import Permutation Sorting.Sorted.
From Pydra Require Import Base.Prelude Model.State Spec.State Proofs.State.

(* ---------------------------------------------------------------- partition by construction *)
Definition incr_below (n : nat) (l : list nat) : Prop := StronglySorted lt l /\ Forall (fun x => x < n) l.

Lemma incr_below_snoc n l : incr_below n l -> incr_below (S n) (l ++ [n]).
Proof.
  intros [Srt F]. split.
  - induction l as [|x l IH]; cbn [app]; [repeat constructor|].
    inversion Srt; subst. inversion F; subst. constructor; [apply IH; assumption|].
    apply Forall_app. split; [assumption| repeat constructor; assumption].
  - apply Forall_app. split; [eapply Forall_impl; [|exact F]; cbn; lia| repeat constructor].
Qed.

Lemma incr_below_weaken n l : incr_below n l -> incr_below (S n) l.
Proof. intros [Srt F]. split; [exact Srt| eapply Forall_impl; [|exact F]; cbn; lia]. Qed.

Lemma lookup_last_bound k l : forall i acc g, lookup_last k l i acc = Some g ->
  acc = Some g \/ (i <= g < i + List.length l).
Proof.
  induction l as [|x l IH]; intros i acc g H; cbn [lookup_last List.length] in *; [left; exact H|].
  apply IH in H. destruct H as [H|H]; [|right; lia].
  destruct (list_eqb Nat.eqb k x); [inversion H; subst; right; lia| left; exact H].
Qed.

Lemma add_at_spec g ii : forall m, g < List.length m ->
  List.length (add_at g ii m) = List.length m /\
  Permutation (List.concat (add_at g ii m)) (ii :: List.concat m) /\
  (Forall (incr_below ii) m -> Forall (incr_below (S ii)) (add_at g ii m)).
Proof.
  induction g as [|g IH]; intros [|x m] Hg; cbn [List.length] in Hg; try lia; cbn [add_at List.length List.concat].
  - split; [reflexivity|]. split.
    + rewrite <- app_assoc. cbn [app]. rewrite (Permutation_app_comm x (ii :: List.concat m)). cbn [app].
      constructor. apply Permutation_app_comm.
    + intros F. inversion F; subst. constructor; [apply incr_below_snoc; assumption|].
      eapply Forall_impl; [|eassumption]. apply incr_below_weaken.
  - destruct (IH m ltac:(lia)) as (L & P & Srt). split; [rewrite L; reflexivity|]. split.
    + rewrite P. rewrite Permutation_middle. reflexivity.
    + intros F. inversion F; subst. constructor; [apply incr_below_weaken; assumption| apply Srt; assumption].
Qed.

Lemma fill_mapping_spec keysf fin : forall si ii m0 m,
  fill_mapping si ii keysf fin m0 = Some m -> List.length m0 = List.length fin ->
  Forall (incr_below ii) m0 ->
  Permutation (List.concat m) (List.concat m0 ++ seq ii (List.length si)) /\ Forall (incr_below (ii + List.length si)) m /\
  List.length m = List.length fin.
Proof.
  induction si as [|a si IH]; intros ii m0 m H L F; cbn [fill_mapping List.length seq] in *.
  - inversion H; subst. rewrite app_nil_r, Nat.add_0_r. auto.
  - destruct (lookup_last _ fin 0 None) as [g|] eqn:E; [|discriminate].
    apply lookup_last_bound in E. destruct E as [E|E]; [discriminate|].
    destruct (add_at_spec g ii m0 ltac:(lia)) as (L' & P' & Srt').
    destruct (IH (S ii) (add_at g ii m0) m H ltac:(lia) (Srt' F)) as (P & Srt & Ln).
    split; [|split; [replace (ii + S (List.length si)) with (S ii + List.length si) by lia; exact Srt| exact Ln]].
    rewrite P, P'. cbn [app]. rewrite <- Permutation_middle. reflexivity.
Qed.

Lemma concat_singletons (l : list nat) : List.concat (map (fun i => [i]) l) = l.
Proof. induction l as [|x l IH]; cbn; [reflexivity| now rewrite IH]. Qed.

Lemma seq_incr_below a n : incr_below (a + n) (seq a n).
Proof.
  split.
  - revert a. induction n as [|n IH]; intros a; cbn [seq]; constructor; [apply IH|].
    apply Forall_forall. intros x Hx. apply in_seq in Hx. lia.
  - apply Forall_forall. intros x Hx. apply in_seq in Hx. lia.
Qed.

(* whenever the model of prepare_states(+combiner) returns groups: every job index 0..n-1 occurs in exactly one
   group, and inside each group the jobs are in increasing (enumeration) order *)
Theorem combined_partition e s comb si m :
  prepare_combined e s comb = inr (si, m) ->
  Permutation (List.concat m) (seq 0 (List.length si)) /\ Forall (StronglySorted lt) m.
Proof.
  unfold prepare_combined. intros H.
  destruct (combiner_all_of (rpn s) comb) as [x|call]; [discriminate|].
  destruct (prepare_states e s) as [si'|x]; [|discriminate].
  assert (One : forall n, Permutation (List.concat [seq 0 n]) (seq 0 n) /\ Forall (StronglySorted lt) [seq 0 n]).
  { intros n. cbn [List.concat]. rewrite app_nil_r. split; [reflexivity|]. constructor; [|constructor]. apply (seq_incr_below 0 n). }
  destruct comb as [|c comb'].
  - inversion H; subst. rewrite concat_singletons. split; [reflexivity|].
    apply Forall_forall. intros g Hg. apply in_map_iff in Hg as (i & <- & _). repeat constructor.
  - destruct (remove_rpn (rpn s) call) as [[|t crpn]|]; [inversion H; subst; apply One| |discriminate].
    destruct (splits e (t :: crpn)) as [[[|f fin] keysf]|x]; [inversion H; subst; apply One| |discriminate].
    destruct (fill_mapping si' 0 keysf (f :: fin) (map (fun _ => []) (f :: fin))) as [m'|] eqn:F; [|discriminate].
    inversion H; subst.
    destruct (fill_mapping_spec keysf (f :: fin) si 0 _ m F) as (P & Srt & _).
    + rewrite map_length. reflexivity.
    + apply Forall_forall. intros g Hg. apply in_map_iff in Hg as (? & <- & _). split; constructor.
    + split.
      * rewrite P. clear. induction (f :: fin) as [|? ? IH]; cbn; [reflexivity| exact IH].
      * eapply Forall_impl; [|exact Srt]. intros g [Sg _]. exact Sg.
Qed.

(* ---------------------------------------------------------------- pruning *)
Definition keepf (gone : list nat) (f : nat) : bool := negb (memb f gone).
Definition pruned_list (gone : list nat) (l : list spl) : list spl :=
  flat_map (fun x => match prune gone x with Some y => [y] | None => [] end) l.

Lemma prune_outer gone l : prune gone (Outer l) = match pruned_list gone l with [] => None | l' => Some (Outer l') end.
Proof. reflexivity. Qed.
Lemma prune_inner gone l : prune gone (Inner l) = match pruned_list gone l with [] => None | l' => Some (Inner l') end.
Proof. reflexivity. Qed.

Lemma pruned_list_cons gone x l :
  pruned_list gone (x :: l) = match prune gone x with Some y => y :: pruned_list gone l | None => pruned_list gone l end.
Proof. unfold pruned_list. cbn [flat_map]. destruct (prune gone x); reflexivity. Qed.

Lemma prune_props gone s :
  (forall s', prune gone s = Some s' -> (wfb s = true -> wfb s' = true) /\ leaves s' = filter (keepf gone) (leaves s)) /\
  (prune gone s = None -> filter (keepf gone) (leaves s) = []).
Proof.
  induction s as [f|l IH|l IH] using spl_ind'.
  - cbn [prune leaves filter]. unfold keepf. destruct (memb f gone); cbn [negb]; split; try discriminate; try reflexivity.
    intros s' E. inversion E; subst. split; [auto|reflexivity].
  - assert (A : (forallb wfb l = true -> forallb wfb (pruned_list gone l) = true) /\
                flat_map leaves (pruned_list gone l) = filter (keepf gone) (flat_map leaves l)).
    { induction l as [|x l IHl]; [split; reflexivity|].
      apply Forall_cons_iff in IH as [Hx IH]. specialize (IHl IH) as [W Lv].
      rewrite pruned_list_cons. cbn [flat_map forallb]. rewrite filter_app.
      destruct Hx as [Hs Hn]. destruct (prune gone x) as [y|].
      - destruct (Hs y eq_refl) as [Wy Ly]. split.
        + intros Wx. apply andb_true_iff in Wx as [Wx Wl]. cbn [forallb]. rewrite (Wy Wx), (W Wl). reflexivity.
        + cbn [flat_map]. rewrite Ly, Lv. reflexivity.
      - split.
        + intros Wx. apply andb_true_iff in Wx as [_ Wl]. auto.
        + rewrite (Hn eq_refl), Lv. reflexivity. }
    destruct A as [W Lv]. rewrite prune_outer. cbn [leaves]. split.
    + intros s' E. destruct (pruned_list gone l) as [|y l'] eqn:P; [discriminate|]. inversion E; subst.
      split; [|exact Lv]. cbn [wfb]. intros Wl. destruct l as [|x l]; [discriminate|]. apply W. exact Wl.
    + intros E. destruct (pruned_list gone l) as [|y l'] eqn:P; [|discriminate]. rewrite <- Lv. reflexivity.
  - assert (A : (forallb wfb l = true -> forallb wfb (pruned_list gone l) = true) /\
                flat_map leaves (pruned_list gone l) = filter (keepf gone) (flat_map leaves l)).
    { induction l as [|x l IHl]; [split; reflexivity|].
      apply Forall_cons_iff in IH as [Hx IH]. specialize (IHl IH) as [W Lv].
      rewrite pruned_list_cons. cbn [flat_map forallb]. rewrite filter_app.
      destruct Hx as [Hs Hn]. destruct (prune gone x) as [y|].
      - destruct (Hs y eq_refl) as [Wy Ly]. split.
        + intros Wx. apply andb_true_iff in Wx as [Wx Wl]. cbn [forallb]. rewrite (Wy Wx), (W Wl). reflexivity.
        + cbn [flat_map]. rewrite Ly, Lv. reflexivity.
      - split.
        + intros Wx. apply andb_true_iff in Wx as [_ Wl]. auto.
        + rewrite (Hn eq_refl), Lv. reflexivity. }
    destruct A as [W Lv]. rewrite prune_inner. cbn [leaves]. split.
    + intros s' E. destruct (pruned_list gone l) as [|y l'] eqn:P; [discriminate|]. inversion E; subst.
      split; [|exact Lv]. cbn [wfb]. intros Wl. destruct l as [|x l]; [discriminate|]. apply W. exact Wl.
    + intros E. destruct (pruned_list gone l) as [|y l'] eqn:P; [|discriminate]. rewrite <- Lv. reflexivity.
Qed.

(* ---------------------------------------------------------------- a property preserved by both products holds of every expansion *)
Section AllPreserves.
  Variable e : env.
  Variable Q : denot -> Prop.
  Variable all : list (option denot) -> option denot.
  Variable step : option denot -> option denot -> option denot.
  Hypothesis Hall2 : forall d d' r, all (d :: d' :: r) = step d (all (d' :: r)).
  Hypothesis Hall1 : forall d, all [d] = d.
  Hypothesis Hstep : forall d d' c, step (Some d) (Some d') = Some c -> Q d -> Q d' -> Q c.
  Hypothesis Hnone : forall d d' c, step d d' = Some c -> exists a b, d = Some a /\ d' = Some b.

  Lemma all_preserves : forall l, Forall (fun s => forall d, expand e s = Some d -> Q d) l ->
    forall d, all (map (expand e) l) = Some d -> l <> [] -> Q d.
  Proof.
    induction l as [|x [|y r] IH]; intros HF d E Hne; [congruence| |].
    - cbn [map] in E. rewrite Hall1 in E. inversion HF; subst; eauto.
    - cbn [map] in E. rewrite Hall2 in E. destruct (Hnone _ _ _ E) as (a1 & a2 & E1 & E2).
      rewrite E1, E2 in E. inversion HF as [|? ? Hx HF']; subst.
      eapply Hstep; [exact E| apply Hx; exact E1|].
      apply IH; [exact HF'| exact E2| discriminate].
  Qed.
End AllPreserves.

Lemma ostep_none d d' c : ostep d d' = Some c -> exists a b, d = Some a /\ d' = Some b.
Proof. destruct d as [[? ?]|], d' as [[? ?]|]; cbn; try discriminate; eauto. Qed.
Lemma istep_none d d' c : istep d d' = Some c -> exists a b, d = Some a /\ d' = Some b.
Proof. destruct d as [[? ?]|], d' as [[? ?]|]; cbn; try discriminate; eauto. Qed.

(* Q holds of every expansion if it holds of leaves and is preserved by the two products *)
Lemma expand_preserves e (Q : denot -> Prop)
  (Hleaf : forall f, Q (leafd e f))
  (Hcart : forall a sa b sb, Q (a, sa) -> Q (b, sb) -> Q (cart a b, sa ++ sb))
  (Hpair : forall a sa b, Q (a, sa) -> Q (b, sa) -> Q (pairup a b, sa)) :
  forall s d, expand e s = Some d -> Q d.
Proof.
  induction s as [f|l IH|l IH] using spl_ind'; intros d E; cbn [expand] in E.
  - inversion E; subst. apply Hleaf.
  - destruct l as [|x r]; [discriminate|].
    eapply (all_preserves e Q outer_all ostep); try eassumption; try reflexivity; try discriminate.
    + intros [a sa] [b sb] c H. cbn [ostep] in H. inversion H; subst. apply Hcart.
    + apply ostep_none.
  - destruct l as [|x r]; [discriminate|].
    eapply (all_preserves e Q inner_all istep); try eassumption; try reflexivity; try discriminate.
    + intros [a sa] [b sb] c H. cbn [istep] in H. destruct (shape_eqb sa sb) eqn:Es; [|discriminate].
      apply shape_eqb_eq in Es. subst sb. inversion H; subst. apply Hpair.
    + apply istep_none.
Qed.

(* ---------------------------------------------------------------- expansions have no repeated job *)
Definition uniform (a : list assignment) : Prop := exists n, Forall (fun x => List.length x = n) a.

Lemma app_eq_len {A} (x x' y y' : list A) : x ++ y = x' ++ y' -> List.length x = List.length x' -> x = x' /\ y = y'.
Proof.
  revert x'. induction x as [|h x IH]; intros [|h' x'] E L; cbn in *; try discriminate; [auto|].
  inversion E; subst. destruct (IH x' H1 ltac:(lia)) as [-> ->]. auto.
Qed.

Lemma in_cart z a b : In z (cart a b) <-> exists x y, In x a /\ In y b /\ z = x ++ y.
Proof.
  unfold cart. rewrite in_flat_map. split.
  - intros (x & Hx & Hz). apply in_map_iff in Hz as (y & <- & Hy). eauto.
  - intros (x & y & Hx & Hy & ->). exists x. split; [exact Hx|]. apply in_map. exact Hy.
Qed.

Lemma in_pairup z (a : list assignment) : forall b, In z (pairup a b) -> exists x y, In x a /\ In y b /\ z = x ++ y.
Proof.
  induction a as [|x a IH]; intros [|y b] H; cbn [pairup] in H; try contradiction.
  destruct H as [<-|H]; [exists x, y; cbn; auto|].
  destruct (IH b H) as (x' & y' & Hx & Hy & ->). exists x', y'. cbn. auto.
Qed.

Lemma nodup_app_intro {A} (l1 l2 : list A) :
  NoDup l1 -> NoDup l2 -> (forall x, In x l1 -> ~ In x l2) -> NoDup (l1 ++ l2).
Proof.
  intros N1 N2 D. induction l1 as [|x l1 IH]; cbn [app]; [exact N2|].
  inversion N1; subst. constructor.
  - intros H. apply in_app_or in H as [H|H]; [contradiction| apply (D x (or_introl eq_refl) H)].
  - apply IH; [assumption| intros y Hy; apply D; right; exact Hy].
Qed.

Lemma nodup_cart a b : NoDup a -> NoDup b -> uniform a -> NoDup (cart a b).
Proof.
  intros Na Nb [n U]. induction a as [|x a IH]; [constructor|].
  change (cart (x :: a) b) with (map (fun y => x ++ y) b ++ cart a b).
  inversion Na as [|? ? Hx Na']; subst. inversion U as [|? ? Lx U']; subst.
  apply nodup_app_intro.
  - clear - Nb. induction b as [|y b IHb]; cbn; constructor; inversion Nb; subst; auto.
    intros H. apply in_map_iff in H as (y' & E & Hy'). apply app_inv_head in E. subst. contradiction.
  - apply IH; assumption.
  - intros z H1 H2. apply in_map_iff in H1 as (y & <- & Hy). apply in_cart in H2 as (x' & y' & Hx' & Hy' & E).
    rewrite Forall_forall in U'. apply app_eq_len in E as [-> _]; [contradiction| symmetry; apply U'; exact Hx'].
Qed.

Lemma nodup_pairup (a : list assignment) : forall b, NoDup a -> uniform a -> NoDup (pairup a b).
Proof.
  induction a as [|x a IH]; intros [|y b] Na [n U]; cbn [pairup]; try constructor.
  - inversion Na as [|? ? Hx Na']; subst. inversion U as [|? ? Lx U']; subst.
    intros H. apply in_pairup in H as (x' & y' & Hx' & _ & E).
    rewrite Forall_forall in U'. apply app_eq_len in E as [-> _]; [contradiction| symmetry; apply U'; exact Hx'].
  - inversion Na; subst. inversion U; subst. apply IH; [assumption| exists (List.length x); assumption].
Qed.

Lemma uniform_cart a b : uniform a -> uniform b -> uniform (cart a b).
Proof.
  intros [n Ua] [m Ub]. exists (n + m). apply Forall_forall. intros z Hz.
  apply in_cart in Hz as (x & y & Hx & Hy & ->). rewrite Forall_forall in Ua, Ub.
  rewrite app_length, (Ua x Hx), (Ub y Hy). reflexivity.
Qed.
Lemma uniform_pairup a b : uniform a -> uniform b -> uniform (pairup a b).
Proof.
  intros [n Ua] [m Ub]. exists (n + m). apply Forall_forall. intros z Hz.
  apply in_pairup in Hz as (x & y & Hx & Hy & ->). rewrite Forall_forall in Ua, Ub.
  rewrite app_length, (Ua x Hx), (Ub y Hy). reflexivity.
Qed.

Lemma expand_nodup e s a sh : expand e s = Some (a, sh) -> NoDup a /\ uniform a.
Proof.
  intros E. apply (expand_preserves e (fun d => NoDup (fst d) /\ uniform (fst d))) in E; [exact E| | |].
  - intros f. unfold leafd. cbn [fst]. split.
    + apply FinFun.Injective_map_NoDup; [|apply seq_NoDup]. intros i j H. inversion H. reflexivity.
    + exists 1. apply Forall_forall. intros x Hx. apply in_map_iff in Hx as (i & <- & _). reflexivity.
  - cbn [fst]. intros a1 s1 b1 s2 [N1 U1] [N2 U2]. split; [apply nodup_cart; assumption| apply uniform_cart; assumption].
  - cbn [fst]. intros a1 s1 b1 [N1 U1] [N2 U2]. split; [apply nodup_pairup; assumption| apply uniform_pairup; assumption].
Qed.

(* non-empty fields give a non-empty expansion *)
Lemma expand_nonempty e s : (forall f, In f (leaves s) -> nprod (e f) >= 1) ->
  forall a sh, expand e s = Some (a, sh) -> a <> [].
Proof.
  intros Hpos a sh E.
  assert (P : nprod sh >= 1).
  { revert a sh E. induction s as [f|l IH|l IH] using spl_ind'; intros a sh E; cbn [expand leaves] in *.
    - unfold leafd in E. inversion E; subst. apply Hpos. left. reflexivity.
    - destruct l as [|x r]; [discriminate|].
      assert (HF : Forall (fun s => forall d, expand e s = Some d -> nprod (snd d) >= 1) (x :: r)).
      { apply Forall_forall. intros y Hy [a' sh'] E'. rewrite Forall_forall in IH. cbn [snd].
        eapply (IH y Hy); [|exact E']. intros f Hf. apply Hpos. apply in_flat_map. eauto. }
      apply (all_preserves e (fun d => nprod (snd d) >= 1) outer_all ostep) with (l := x :: r) (d := (a, sh));
        try reflexivity; try discriminate; try assumption.
      + intros [a1 s1] [a2 s2] c H. cbn [ostep] in H. inversion H; subst. cbn [snd]. rewrite nprod_app. nia.
      + apply ostep_none.
    - destruct l as [|x r]; [discriminate|].
      assert (HF : Forall (fun s => forall d, expand e s = Some d -> nprod (snd d) >= 1) (x :: r)).
      { apply Forall_forall. intros y Hy [a' sh'] E'. rewrite Forall_forall in IH. cbn [snd].
        eapply (IH y Hy); [|exact E']. intros f Hf. apply Hpos. apply in_flat_map. eauto. }
      apply (all_preserves e (fun d => nprod (snd d) >= 1) inner_all istep) with (l := x :: r) (d := (a, sh));
        try reflexivity; try discriminate; try assumption.
      + intros [a1 s1] [a2 s2] c H. cbn [istep] in H. destruct (shape_eqb s1 s2); [|discriminate].
        inversion H; subst. cbn [snd]. auto.
      + apply istep_none. }
  apply expand_count in E. intros ->. cbn in E. lia.
Qed.

(* ---------------------------------------------------------------- the dict lookup and the mapping loop *)
Lemma idx_eqb_eq (a b : idx) : list_eqb Nat.eqb a b = true <-> a = b.
Proof. apply list_eqb_spec. intros x y. apply Nat.eqb_eq. Qed.

Fixpoint find_idx (k : idx) (l : list idx) : option nat :=
  match l with [] => None | x :: r => if list_eqb Nat.eqb k x then Some 0 else option_map S (find_idx k r) end.

Lemma find_idx_none k l : ~ In k l -> find_idx k l = None.
Proof.
  induction l as [|x l IH]; intros H; cbn [find_idx]; [reflexivity|].
  destruct (list_eqb Nat.eqb k x) eqn:E; [apply idx_eqb_eq in E; subst; exfalso; apply H; left; reflexivity|].
  rewrite IH; [reflexivity| intros Hin; apply H; right; exact Hin].
Qed.

(* on a list without repetitions the last-wins dict returns the position of the key *)
Lemma lookup_last_nodup k : forall l i acc, NoDup l ->
  lookup_last k l i acc = match find_idx k l with Some j => Some (i + j) | None => acc end.
Proof.
  induction l as [|x l IH]; intros i acc N; cbn [lookup_last find_idx]; [reflexivity|].
  inversion N as [|? ? Hx N']; subst. rewrite (IH _ _ N').
  destruct (list_eqb Nat.eqb k x) eqn:E.
  - apply idx_eqb_eq in E. subst. rewrite (find_idx_none x l Hx). f_equal. lia.
  - destruct (find_idx k l) as [j|]; cbn [option_map]; [f_equal; lia| reflexivity].
Qed.

Lemma find_idx_nth k : forall l g, NoDup l -> g < List.length l -> (find_idx k l = Some g <-> nth g l [] = k).
Proof.
  induction l as [|x l IH]; intros g N Hg; cbn [List.length] in Hg; [lia|].
  inversion N as [|? ? Hx N']; subst. cbn [find_idx].
  destruct (list_eqb Nat.eqb k x) eqn:E.
  - apply idx_eqb_eq in E. subst. destruct g as [|g]; cbn [nth]; [split; reflexivity|].
    split; [discriminate|]. intros H. exfalso. apply Hx. rewrite <- H. apply nth_In. lia.
  - destruct g as [|g]; cbn [nth].
    + split.
      * destruct (find_idx k l); discriminate.
      * intros ->. rewrite (proj2 (idx_eqb_eq k k) eq_refl) in E. discriminate.
    + rewrite <- (IH g N' ltac:(lia)). destruct (find_idx k l) as [j|]; cbn [option_map]; split; intros H; inversion H; subst; reflexivity.
Qed.

Definition keyf (keysf : list nat) (a : assignment) : idx := map (fun k => assoc_get k a) keysf.

Fixpoint posf (P : assignment -> bool) (si : list assignment) (ii : nat) : list nat :=
  match si with [] => [] | a :: r => if P a then ii :: posf P r (S ii) else posf P r (S ii) end.

Lemma add_at_nth g ii : forall m g', g < List.length m ->
  nth g' (add_at g ii m) [] = if Nat.eqb g' g then nth g m [] ++ [ii] else nth g' m [].
Proof.
  induction g as [|g IH]; intros [|x m] g' Hg; cbn [List.length] in Hg; try lia; cbn [add_at].
  - destruct g' as [|g']; reflexivity.
  - destruct g' as [|g']; cbn [nth Nat.eqb]; [reflexivity| apply IH; lia].
Qed.

Definition hits (keysf : list nat) (fin : list idx) (g : nat) (a : assignment) : bool :=
  match find_idx (keyf keysf a) fin with Some j => Nat.eqb j g | None => false end.

Lemma fill_mapping_nth keysf fin : NoDup fin -> forall si ii m0 m,
  fill_mapping si ii keysf fin m0 = Some m -> List.length m0 = List.length fin ->
  forall g, g < List.length fin -> nth g m [] = nth g m0 [] ++ posf (hits keysf fin g) si ii.
Proof.
  intros N. induction si as [|a si IH]; intros ii m0 m H L g Hg; cbn [fill_mapping posf] in *.
  - inversion H; subst. rewrite app_nil_r. reflexivity.
  - rewrite (lookup_last_nodup _ fin 0 None N) in H. unfold hits at 1. fold (keyf keysf a) in H.
    destruct (find_idx (keyf keysf a) fin) as [j|] eqn:F; [|discriminate]. cbn [Nat.add] in H.
    assert (Hj : j < List.length fin).
    { clear - F. revert j F. induction fin as [|x fin IHf]; intros j F; cbn [find_idx] in F; [discriminate|].
      destruct (list_eqb Nat.eqb (keyf keysf a) x); [inversion F; cbn; lia|].
      destruct (find_idx (keyf keysf a) fin) as [j'|]; cbn in F; [|discriminate]. inversion F; subst.
      specialize (IHf j' eq_refl). cbn. lia. }
    destruct (add_at_spec j ii m0 ltac:(lia)) as (L' & _ & _).
    rewrite (IH (S ii) (add_at j ii m0) m H ltac:(lia) g Hg).
    rewrite (add_at_nth j ii m0 g ltac:(lia)).
    destruct (Nat.eqb j g) eqn:Ejg.
    + apply Nat.eqb_eq in Ejg. subst j. rewrite Nat.eqb_refl. rewrite <- app_assoc. reflexivity.
    + rewrite Nat.eqb_sym, Ejg. reflexivity.
Qed.

Lemma fill_mapping_total keysf fin : NoDup fin -> forall si ii m0,
  List.length m0 = List.length fin ->
  (forall a, In a si -> In (keyf keysf a) fin) -> exists m, fill_mapping si ii keysf fin m0 = Some m.
Proof.
  intros N. induction si as [|a si IH]; intros ii m0 L Hin; cbn [fill_mapping]; [eauto|].
  rewrite (lookup_last_nodup _ fin 0 None N). fold (keyf keysf a).
  destruct (find_idx (keyf keysf a) fin) as [j|] eqn:F.
  - cbn [Nat.add]. assert (Hj : j < List.length fin).
    { clear - F. revert j F. induction fin as [|x fin IHf]; intros j F; cbn [find_idx] in F; [discriminate|].
      destruct (list_eqb Nat.eqb (keyf keysf a) x); [inversion F; cbn; lia|].
      destruct (find_idx (keyf keysf a) fin) as [j'|]; cbn in F; [|discriminate]. inversion F; subst.
      specialize (IHf j' eq_refl). cbn. lia. }
    destruct (add_at_spec j ii m0 ltac:(lia)) as (L' & _ & _).
    apply IH; [lia| intros a' Ha'; apply Hin; right; exact Ha'].
  - exfalso. specialize (Hin a (or_introl eq_refl)). clear - F Hin.
    induction fin as [|x fin IHf]; [contradiction|]. cbn [find_idx] in F.
    destruct (list_eqb Nat.eqb (keyf keysf a) x) eqn:E; [discriminate|].
    destruct Hin as [->|Hin]; [rewrite (proj2 (idx_eqb_eq _ _) eq_refl) in E; discriminate|].
    destruct (find_idx (keyf keysf a) fin); [discriminate| auto].
Qed.

Lemma fill_mapping_fails keysf fin : NoDup fin -> forall si ii m0,
  (exists a, In a si /\ ~ In (keyf keysf a) fin) -> fill_mapping si ii keysf fin m0 = None.
Proof.
  intros N. induction si as [|a si IH]; intros ii m0 (b & Hb & Hn); [contradiction|]. cbn [fill_mapping].
  rewrite (lookup_last_nodup _ fin 0 None N). fold (keyf keysf a).
  destruct (find_idx (keyf keysf a) fin) as [j|] eqn:F; [|reflexivity].
  destruct Hb as [->|Hb].
  - rewrite (find_idx_none _ _ Hn) in F. discriminate.
  - apply IH. eauto.
Qed.

(* ---------------------------------------------------------------- keys *)
Lemma kv_eqb_eq x y : kv_eqb x y = true <-> x = y.
Proof.
  unfold kv_eqb. rewrite andb_true_iff, !Nat.eqb_eq. destruct x, y; cbn. split; [intros [-> ->]; reflexivity| intros E; inversion E; auto].
Qed.
Lemma key_eqb_eq a b : key_eqb a b = true <-> a = b.
Proof. apply list_eqb_spec. apply kv_eqb_eq. Qed.

Lemma fst_snd_eq (a b : assignment) : map fst a = map fst b -> map snd a = map snd b -> a = b.
Proof.
  revert b. induction a as [|[k v] a IH]; intros [|[k' v'] b] F S; cbn in *; try discriminate; [reflexivity|].
  inversion F; inversion S; subst. f_equal. apply IH; assumption.
Qed.

Lemma forget_fst gone a : map fst (forget gone a) = filter (keepf gone) (map fst a).
Proof.
  unfold forget, keepf. induction a as [|[k v] a IH]; cbn [filter map fst]; [reflexivity|].
  destruct (negb (memb k gone)); cbn [map fst]; rewrite IH; reflexivity.
Qed.

Lemma keyf_forget gone : forall a lv, map fst a = lv -> NoDup lv ->
  keyf (filter (keepf gone) lv) a = map snd (forget gone a).
Proof.
  unfold keyf, forget. induction a as [|[k0 v0] a IH]; intros lv E N; cbn [map fst] in E; subst lv; [reflexivity|].
  inversion N as [|? ? Hk N']; subst. cbn [filter fst]. unfold keepf at 1.
  assert (R : map (fun k => assoc_get k ((k0, v0) :: a)) (filter (keepf gone) (map fst a)) =
              map (fun k => assoc_get k a) (filter (keepf gone) (map fst a))).
  { apply map_ext_in. intros k Hk'. apply filter_In in Hk' as [Hk' _]. cbn [assoc_get].
    destruct (Nat.eqb k k0) eqn:E; [apply Nat.eqb_eq in E; subst; contradiction| reflexivity]. }
  destruct (negb (memb k0 gone)); cbn [map snd].
  - rewrite R. cbn [assoc_get]. rewrite Nat.eqb_refl. f_equal. apply IH; [reflexivity| exact N'].
  - rewrite R. apply IH; [reflexivity| exact N'].
Qed.

Lemma positions_posf F k : forall js i, positions k (map F js) i = posf (fun a => key_eqb k (F a)) js i.
Proof. induction js as [|a js IH]; intros i; cbn [map positions posf]; [reflexivity|]. rewrite IH. reflexivity. Qed.

Lemma posf_ext_in P Q : forall si ii, (forall a, In a si -> P a = Q a) -> posf P si ii = posf Q si ii.
Proof.
  induction si as [|a si IH]; intros ii H; cbn [posf]; [reflexivity|].
  rewrite (H a (or_introl eq_refl)), (IH (S ii)); [reflexivity| intros b Hb; apply H; right; exact Hb].
Qed.

Lemma nth_map_lt {A B} (f : A -> B) l g d d' : g < List.length l -> nth g (map f l) d' = f (nth g l d).
Proof. revert g. induction l as [|x l IH]; intros [|g] H; cbn in *; try lia; [reflexivity| apply IH; lia]. Qed.

Lemma ixs_nodup (a : list assignment) lv : NoDup a -> Forall (fun x => map fst x = lv) a -> NoDup (ixs a).
Proof.
  intros N F. unfold ixs. induction a as [|x a IH]; cbn [map]; constructor;
    inversion N as [|? ? Hx N']; inversion F as [|? ? Fx F']; subst.
  - intros H. apply in_map_iff in H as (y & E & Hy). rewrite Forall_forall in F'.
    assert (x = y) by (apply fst_snd_eq; [rewrite (F' y Hy); reflexivity| symmetry; exact E]). subst. contradiction.
  - apply IH; assumption.
Qed.

Lemma tok_eqb_eq x y : tok_eqb x y = true <-> x = y.
Proof.
  destruct x as [f| |], y as [f'| |]; cbn [tok_eqb]; try (split; [discriminate|discriminate]); try (split; reflexivity).
  rewrite Nat.eqb_eq. split; [intros ->; reflexivity| intros E; inversion E; reflexivity].
Qed.

(* ---------------------------------------------------------------- the combiner path under good_removalb *)
Theorem combined_pruned e s comb :
  wfb s = true -> NoDup (leaves s) -> comb <> [] -> (forall f, In f (leaves s) -> nprod (e f) >= 1) ->
  good_removalb s comb = true ->
  groups_of (prepare_combined e s comb) = spec_groups_pruned e s comb.
Proof.
  intros W ND Hc Hpos G. unfold good_removalb in G.
  unfold prepare_combined, spec_groups_pruned.
  destruct (combiner_all_of (rpn s) comb) as [x|call] eqn:Ecall; [discriminate|].
  apply andb_true_iff in G as [_ G].
  destruct (remove_rpn (rpn s) call) as [crpn|] eqn:Erm; [|discriminate].
  apply (list_eqb_spec tok_eqb tok_eqb_eq) in G.
  rewrite (prepare_states_spec e s W). unfold spec_result. unfold jobs at 1 2.
  destruct (expand e s) as [[js sh]|] eqn:Es; cbn [groups_of]; [|reflexivity].
  destruct comb as [|c0 comb']; [congruence|]. set (comb := c0 :: comb') in *.
  set (gone := linked s comb) in *.
  pose proof (expand_good e s js sh Es) as Gjs.
  destruct (prune gone s) as [s'|] eqn:Ep.
  - destruct (prune_props gone s) as [Hs _]. destruct (Hs s' Ep) as [Ws' Ls']. specialize (Ws' W).
    subst crpn. pose proof (rpn_nonempty s' Ws') as Hne.
    pose proof (splits_rpn e s' Ws') as Hsp. unfold jobs.
    destruct (rpn s') as [|t p] eqn:Erpn; [congruence|]. rewrite Hsp.
    destruct (expand e s') as [[ks sh']|] eqn:Es'; cbn [groups_of]; [|reflexivity].
    assert (Hks : ks <> []).
    { eapply expand_nonempty; [|exact Es']. intros f Hf. apply Hpos. rewrite Ls' in Hf. apply filter_In in Hf. tauto. }
    pose proof (expand_good e s' ks sh' Es') as Gks.
    assert (Fks : Forall (fun x => map fst x = leaves s') ks)
      by (eapply Forall_impl; [|exact Gks]; intros x [Hx _]; exact Hx).
    destruct (expand_nodup e s' ks sh' Es') as [Nks _].
    pose proof (ixs_nodup ks (leaves s') Nks Fks) as Nfin.
    destruct (ixs ks) as [|f0 fin] eqn:Eix; [destruct ks; [congruence|discriminate]|]. rewrite <- Eix in *.
    (* keys of the jobs *)
    assert (Kjs : forall a, In a js -> keyf (leaves s') a = map snd (forget gone a) /\ map fst (forget gone a) = leaves s').
    { intros a Ha. rewrite Forall_forall in Gjs. destruct (Gjs a Ha) as [Fa _].
      split; [rewrite Ls'; apply keyf_forget; assumption| rewrite forget_fst, Fa, Ls'; reflexivity]. }
    assert (Kin : forall a, In a js -> (In (keyf (leaves s') a) (ixs ks) <-> has_key (forget gone a) ks = true)).
    { intros a Ha. destruct (Kjs a Ha) as [K1 K2]. unfold has_key. rewrite existsb_exists. unfold ixs. rewrite in_map_iff. split.
      - intros (k & Ek & Hk). exists k. split; [exact Hk|]. apply key_eqb_eq. apply fst_snd_eq.
        + rewrite Forall_forall in Fks. rewrite K2. symmetry. apply Fks. exact Hk.
        + rewrite <- K1. symmetry. exact Ek.
      - intros (k & Hk & Ek). apply key_eqb_eq in Ek. subst k. exists (forget gone a). split; [symmetry; exact K1| exact Hk]. }
    destruct (forallb (fun k => has_key k ks) (map (forget gone) js)) eqn:Eall.
    + rewrite forallb_forall in Eall.
      destruct (fill_mapping_total (leaves s') (ixs ks) Nfin js 0 (map (fun _ => []) (ixs ks))) as [m Hm].
      * rewrite map_length. reflexivity.
      * intros a Ha. apply Kin; [exact Ha|]. apply Eall. apply in_map. exact Ha.
      * rewrite Hm. cbn [groups_of]. f_equal.
        destruct (fill_mapping_spec (leaves s') (ixs ks) js 0 _ m Hm) as (_ & _ & Lm).
        { rewrite map_length. reflexivity. }
        { apply Forall_forall. intros g Hg. apply in_map_iff in Hg as (? & <- & _). split; constructor. }
        apply (nth_ext _ _ [] []).
        { rewrite Lm, map_length. unfold ixs. rewrite map_length. reflexivity. }
        intros g Hg. rewrite Lm in Hg.
        rewrite (fill_mapping_nth (leaves s') (ixs ks) Nfin js 0 _ m Hm) by (rewrite ?map_length; auto).
        assert (Hg' : g < List.length ks) by (unfold ixs in Hg; rewrite map_length in Hg; exact Hg).
        rewrite (nth_map_lt (fun k => positions k (map (forget gone) js) 0) ks g [] [] Hg').
        rewrite positions_posf.
        replace (nth g (map (fun _ : idx => ([] : list nat)) (ixs ks)) []) with ([] : list nat).
        2:{ clear. revert g. induction (ixs ks) as [|? ? IH]; intros [|g]; cbn; auto. }
        cbn [app]. apply posf_ext_in. intros a Ha. destruct (Kjs a Ha) as [K1 K2].
        unfold hits. apply Bool.eq_true_iff_eq.
        assert (Hk : map fst (nth g ks []) = leaves s').
        { rewrite Forall_forall in Fks. apply Fks. apply nth_In. exact Hg'. }
        split.
        -- destruct (find_idx (keyf (leaves s') a) (ixs ks)) as [j|] eqn:Fi; [|discriminate].
           intros Ej. apply Nat.eqb_eq in Ej. subst j.
           apply (find_idx_nth _ _ g Nfin Hg) in Fi. apply key_eqb_eq. apply fst_snd_eq; [congruence|].
           rewrite <- K1, <- Fi. unfold ixs. symmetry. apply (nth_map_lt (map snd) ks g [] []). exact Hg'.
        -- intros Ek. apply key_eqb_eq in Ek.
           assert (Fi : find_idx (keyf (leaves s') a) (ixs ks) = Some g).
           { apply (find_idx_nth _ _ g Nfin Hg). rewrite K1, <- Ek. unfold ixs. apply (nth_map_lt (map snd) ks g [] []). exact Hg'. }
           rewrite Fi. apply Nat.eqb_refl.
    + assert (Hex : exists a, In a js /\ ~ In (keyf (leaves s') a) (ixs ks)).
      { clear - Eall Kin. induction js as [|a js IH]; cbn [map forallb] in Eall; [discriminate|].
        destruct (has_key (forget gone a) ks) eqn:Hk; cbn [andb] in Eall.
        - destruct IH as (b & Hb & Hn); [intros b Hb; apply Kin; right; exact Hb| exact Eall|]. exists b. split; [right; exact Hb| exact Hn].
        - exists a. split; [left; reflexivity|]. intros H. apply Kin in H; [congruence| left; reflexivity]. }
      rewrite (fill_mapping_fails (leaves s') (ixs ks) Nfin js 0 _ Hex). reflexivity.
  - subst crpn. cbn [groups_of]. reflexivity.
Qed.

(* combining every axis yields one flat list *)
Corollary combined_all e s comb js :
  wfb s = true -> NoDup (leaves s) -> comb <> [] -> (forall f, In f (leaves s) -> nprod (e f) >= 1) ->
  good_removalb s comb = true -> jobs e s = Some js -> prune (linked s comb) s = None ->
  groups_of (prepare_combined e s comb) = Some [seq 0 (List.length js)].
Proof.
  intros W ND Hc Hpos G J P. rewrite (combined_pruned e s comb W ND Hc Hpos G).
  unfold spec_groups_pruned. rewrite J, P. reflexivity.
Qed.

(* combining a field combines every field on the same axis *)
Lemma linked_axis s comb ax f g : In ax (axes s) -> In f ax -> In f comb -> In g ax -> In g (linked s comb).
Proof.
  intros Hax Hf Hc Hg. unfold linked. apply in_flat_map. exists ax. split; [exact Hax|].
  assert (E : existsb (fun f0 => memb f0 comb) ax = true).
  { apply existsb_exists. exists f. split; [exact Hf|]. unfold memb. apply existsb_exists. exists f. split; [exact Hc| apply Nat.eqb_refl]. }
  rewrite E. exact Hg.
Qed.
