(* Model/Typing.v — pydra/utils/typing.py: TypeParser.__call__ / coerce / expand_and_coerce
   (coerce_basic / union / multi_input / mapping / tuple / sequence / coerce_obj), check_coercible,
   check_type_coercible, check_type / expand_and_check (check_basic / union / mapping / tuple / sequence),
   is_instance / is_subclass; pydra/compose/base/builder.py: make_converter (task-field assignment).

   The class hierarchy (issubclass matrix) and the two coercion tables are NOT written here: they are the
   [tables] argument, instantiated with the live tables translated on every run into Generated/TypingTables.v.
   The outside world (does a path exist, does fileformats accept it for a format) is the [W] argument. *)
From Pydra Require Import Base.Prelude Base.PyPath.
From Coq Require Import DecimalString.
Local Open Scope string_scope.

(* ------------------------------------------------------------------ classes *)
Inductive fmt := FFile | FText | FDir.          (* fileformats.generic.File, text.TextFile, generic.Directory *)

Inductive cls :=
  | CNone | CBool | CInt | CFloat | CStr | CBytes | CPath | CFile (f : fmt)
  | CList | CTuple | CSet | CFrozenset | CDict | CMulti            (* MultiInputObj *)
  | KAny | KSequence | KSetAbc | KMapping | KPathLike | KIterable | KFileSet
  | KExt (n : nat)                                                   (* any other class met in a live table *)
  | KSub (n : nat).                                                  (* n-th registered (sub)class values can have *)

Definition fmt_eqb (a b : fmt) : bool :=
  match a, b with FFile, FFile | FText, FText | FDir, FDir => true | _, _ => false end.

Definition cls_eqb (a b : cls) : bool :=
  match a, b with
  | CNone, CNone | CBool, CBool | CInt, CInt | CFloat, CFloat | CStr, CStr | CBytes, CBytes | CPath, CPath
  | CList, CList | CTuple, CTuple | CSet, CSet | CFrozenset, CFrozenset | CDict, CDict | CMulti, CMulti
  | KAny, KAny | KSequence, KSequence | KSetAbc, KSetAbc | KMapping, KMapping | KPathLike, KPathLike
  | KIterable, KIterable | KFileSet, KFileSet => true
  | CFile f, CFile g => fmt_eqb f g
  | KExt n, KExt m => Nat.eqb n m
  | KSub n, KSub m => Nat.eqb n m
  | _, _ => false
  end.

Record tables := {
  t_rows : list (cls * list cls);          (* a |-> every b of the universe with issubclass(a, b) *)
  t_coercible : list (cls * cls);          (* TypeParser.__init__ default for [coercible] *)
  t_not_coercible : list (cls * cls);      (* TypeParser.__init__ default for [not_coercible] *)
  t_subs : list cls                        (* the builtin class whose behaviour instances of KSub n have, by position *)
}.

Fixpoint lookup_row (a : cls) (rows : list (cls * list cls)) : list cls :=
  match rows with
  | [] => []
  | (k, l) :: r => if cls_eqb a k then l else lookup_row a r
  end.

(* builtin issubclass on two real classes *)
Definition sub (T : tables) (a b : cls) : bool := existsb (cls_eqb b) (lookup_row a (t_rows T)).

(* TypeParser.is_subclass(klass, candidate) for a plain class and a single plain candidate *)
Definition is_subclass (T : tables) (k c : cls) : bool :=
  match c with
  | KAny => true
  | _ => match k with KAny => false | _ => sub T k c end
  end.

(* ------------------------------------------------------------------ values *)
(* A value is a builtin "shape" (how it behaves: iteration, ==, hash, constructors) plus a tag: [None] for an
   instance of exactly the builtin class, [Some n] for an instance of the registered class KSub n — a subclass
   (class Label(str), a str-Enum, numpy.str_, class MyList(list), ...) or a look-alike (numpy.int64 behaves like an
   int without being one).  Which classes KSub n is a subclass of is in the generated issubclass matrix. *)
Definition tag := option nat.
Inductive val :=
  | VNone | VBool (b : bool) | VInt (k : tag) (z : Z)
  | VFloat (k : tag) (z : Z)                       (* the float whose value is the integer z *)
  | VStr (k : tag) (s : string) | VBytes (k : tag) (s : string)
  | VPath (k : tag) (s : string)                   (* pathlib.PosixPath, s = str(path) *)
  | VFile (f : fmt) (s : string)                   (* fileformats object of format f on path s *)
  | VList (k : tag) (l : list val) | VTuple (k : tag) (l : list val)
  | VSet (k : tag) (frozen : bool) (l : list val)  (* elements in iteration order *)
  | VDict (k : tag) (kv : list (val * val)).       (* insertion order *)

Definition base_class (v : val) : cls :=
  match v with
  | VNone => CNone | VBool _ => CBool | VInt _ _ => CInt | VFloat _ _ => CFloat | VStr _ _ => CStr
  | VBytes _ _ => CBytes | VPath _ _ => CPath | VFile f _ => CFile f | VList _ _ => CList | VTuple _ _ => CTuple
  | VSet _ false _ => CSet | VSet _ true _ => CFrozenset | VDict _ _ => CDict
  end.
Definition tag_of (v : val) : tag :=
  match v with
  | VNone | VBool _ | VFile _ _ => None
  | VInt k _ | VFloat k _ | VStr k _ | VBytes k _ | VPath k _ | VList k _ | VTuple k _ | VSet k _ _ | VDict k _ => k
  end.
(* type(v); a tag that is not registered for this shape is ignored *)
Definition class_of (T : tables) (v : val) : cls :=
  match tag_of v with
  | Some n => match nth_error (t_subs T) n with
              | Some b => if cls_eqb b (base_class v) then KSub n else base_class v
              | None => base_class v
              end
  | None => base_class v
  end.

(* ------------------------------------------------------------------ types (annotation grammar) *)
Inductive ty :=
  | TBase (c : cls)                      (* a plain class, or typing.Any as [TBase KAny] *)
  | TList (t : ty) | TTuple (ts : list ty) | TTupleVar (t : ty)   (* tuple[t, ...] *)
  | TDict (k v : ty) | TSet (frozen : bool) (t : ty)
  | TUnion (ts : list ty) | TMulti (t : ty).                       (* MultiInputObj[t] *)

Notation TAny := (TBase KAny).
Notation TNone := (TBase CNone).
Notation TBool := (TBase CBool).
Notation TInt := (TBase CInt).
Notation TFloat := (TBase CFloat).
Notation TStr := (TBase CStr).
Notation TBytes := (TBase CBytes).
Notation TPath := (TBase CPath).
Notation TFile f := (TBase (CFile f)).

Inductive err := ETypeError       (* TypeError: caught by coerce_union / coerce_multi_input / check_union *)
               | EOther           (* any other exception (FileNotFoundError, ...): propagates *)
               | EUnmodelled.     (* the model does not say what Python does here (fail closed) *)
Inductive result (A : Type) := Ok (a : A) | Err (e : err).
Arguments Ok {A} a.
Arguments Err {A} e.

Definition err_eqb (a b : err) : bool :=
  match a, b with ETypeError, ETypeError | EOther, EOther | EUnmodelled, EUnmodelled => true | _, _ => false end.

(* [f x for x in l]: left to right, the first exception wins *)
Definition map_res {A B} (f : A -> result B) : list A -> result (list B) :=
  fix go (l : list A) : result (list B) :=
    match l with
    | [] => Ok []
    | x :: r => match f x with
                | Err e => Err e
                | Ok y => match go r with Err e => Err e | Ok ys => Ok (y :: ys) end
                end
    end.

Definition forall_res {A} (f : A -> result unit) : list A -> result unit :=
  fix go (l : list A) : result unit :=
    match l with
    | [] => Ok tt
    | x :: r => match f x with Err e => Err e | Ok _ => go r end
    end.

(* try the alternatives in order; TypeError moves on, anything else propagates; none left: TypeError *)
Definition first_ok {A B} (f : A -> result B) : list A -> result B :=
  fix go (l : list A) : result B :=
    match l with
    | [] => Err ETypeError
    | x :: r => match f x with Ok y => Ok y | Err ETypeError => go r | Err e => Err e end
    end.

(* ------------------------------------------------------------------ Python value semantics *)
Fixpoint hashable (v : val) : bool :=
  match v with
  | VList _ _ | VDict _ _ | VSet _ false _ => false
  | VTuple _ l => forallb hashable l
  | _ => true
  end.

Definition num_of (v : val) : option Z :=
  match v with VBool b => Some (if b then 1 else 0)%Z | VInt _ z | VFloat _ z => Some z | _ => None end.

(* Python == on the modelled values (tags do not matter: Label('a') == 'a', MyList([1]) == [1]) *)
Fixpoint py_eq (a b : val) {struct a} : bool :=
  match a, b with
  | VNone, VNone => true
  | VStr _ s, VStr _ s' | VBytes _ s, VBytes _ s' | VPath _ s, VPath _ s' => String.eqb s s'
  | VFile f s, VFile f' s' => fmt_eqb f f' && String.eqb s s'
  | VList _ l, VList _ l' | VTuple _ l, VTuple _ l' =>
      (fix go (l l' : list val) : bool :=
         match l, l' with
         | [], [] => true
         | x :: r, y :: r' => py_eq x y && go r r'
         | _, _ => false
         end) l l'
  | VSet _ _ l, VSet _ _ l' =>
      Nat.eqb (List.length l) (List.length l') && forallb (fun x => existsb (fun y => py_eq x y) l') l
  | VDict _ kv, VDict _ kv' =>
      Nat.eqb (List.length kv) (List.length kv') &&
      forallb (fun p => let '(k, x) := p in
                 existsb (fun q => let '(k', x') := q in py_eq k k' && py_eq x x') kv') kv
  | _, _ => match num_of a, num_of b with Some x, Some y => Z.eqb x y | _, _ => false end
  end.

(* set(l) / frozenset(l): keep the first of ==-equal elements *)
Fixpoint dedupe (l : list val) (acc : list val) : list val :=
  match l with
  | [] => rev acc
  | x :: r => if existsb (fun y => py_eq y x) acc then dedupe r acc else dedupe r (x :: acc)
  end.

Definition mk_set (fr : bool) (l : list val) : result val :=
  if forallb hashable l then Ok (VSet None fr (dedupe l [])) else Err ETypeError.

(* d[k] = x : an ==-equal key keeps the old key object and takes the new value *)
Fixpoint dict_set (d : list (val * val)) (k x : val) : list (val * val) :=
  match d with
  | [] => [(k, x)]
  | (k', x') :: r => if py_eq k' k then (k', x) :: r else (k', x') :: dict_set r k x
  end.

Fixpoint chars (s : string) : list val :=
  match s with EmptyString => [] | String c r => VStr None (String c EmptyString) :: chars r end.
Fixpoint codes (s : string) : list val :=
  match s with EmptyString => [] | String c r => VInt None (Z.of_nat (nat_of_ascii c)) :: codes r end.

(* list(obj) / for o in obj *)
Definition iter (v : val) : result (list val) :=
  match v with
  | VStr _ s => Ok (chars s)
  | VBytes _ s => Ok (codes s)
  | VList _ l | VTuple _ l | VSet _ _ l => Ok l
  | VDict _ kv => Ok (map fst kv)
  | _ => Err ETypeError
  end.

(* ------------------------------------------------------------------ repr / str *)
Definition z_to_string (z : Z) : string := NilZero.string_of_int (Z.to_int z).

Fixpoint join (sep : string) (l : list string) : string :=
  match l with [] => "" | [x] => x | x :: r => x ++ sep ++ join sep r end.

Fixpoint all_some {A} (l : list (option A)) : option (list A) :=
  match l with
  | [] => Some []
  | None :: _ => None
  | Some x :: r => match all_some r with Some xs => Some (x :: xs) | None => None end
  end.

(* printable ASCII other than the single quote and the backslash: repr is then '...' around the text *)
Definition safe_char (c : ascii) : bool :=
  let n := nat_of_ascii c in Nat.leb 32 n && Nat.leb n 126 && negb (Nat.eqb n 39) && negb (Nat.eqb n 92).
Fixpoint safe_str (s : string) : bool :=
  match s with EmptyString => true | String c r => safe_char c && safe_str r end.
Definition quoted (s : string) : option string := if safe_str s then Some ("'" ++ s ++ "'") else None.

Definition fmt_name (f : fmt) : string :=
  match f with FFile => "File" | FText => "TextFile" | FDir => "Directory" end.

Fixpoint repr (v : val) : option string :=
  match v with
  | VNone => Some "None"
  | VBool b => Some (if b then "True" else "False")
  | VInt None z => Some (z_to_string z)
  | VFloat None z => if Z.ltb (Z.abs z) 10000000000000000 then Some (z_to_string z ++ ".0") else None
  | VStr None s => quoted s
  | VBytes None s => option_map (fun q => "b" ++ q) (quoted s)
  | VPath None s => option_map (fun q => "PosixPath(" ++ q ++ ")") (quoted s)
  | VFile f s => option_map (fun q => fmt_name f ++ "(" ++ q ++ ")") (quoted s)
  | VList None l => option_map (fun ss => "[" ++ join ", " ss ++ "]") (all_some (map repr l))
  | VTuple None l =>
      option_map (fun ss => match ss with [x] => "(" ++ x ++ ",)" | _ => "(" ++ join ", " ss ++ ")" end)
                 (all_some (map repr l))
  | VSet None fr l =>
      option_map (fun ss => match ss, fr with
                            | [], false => "set()"
                            | [], true => "frozenset()"
                            | _, false => "{" ++ join ", " ss ++ "}"
                            | _, true => "frozenset({" ++ join ", " ss ++ "})"
                            end) (all_some (map repr l))
  | VDict None kv =>
      option_map (fun ss => "{" ++ join ", " ss ++ "}")
        (all_some (map (fun p => let '(k, x) := p in
                          match repr k, repr x with Some a, Some b => Some (a ++ ": " ++ b) | _, _ => None end) kv))
  | _ => None          (* the repr of an instance of a registered subclass is that class's business *)
  end.

(* str(v) *)
Definition py_str (v : val) : option string :=
  match v with VStr _ s | VPath _ s | VFile _ s => Some s | _ => repr v end.

Definition norm_path (s : string) : string := str_of (render (parse (la_of s))).

Definition truthy (v : val) : bool :=
  match v with
  | VNone => false | VBool b => b | VInt _ z | VFloat _ z => negb (Z.eqb z 0)
  | VStr _ s | VBytes _ s => negb (String.eqb s "")
  | VPath _ _ | VFile _ _ => true
  | VList _ l | VTuple _ l | VSet _ _ l => negb (Nat.eqb (List.length l) 0)
  | VDict _ kv => negb (Nat.eqb (List.length kv) 0)
  end.

(* bytes(iterable of ints) *)
Fixpoint bytes_of (l : list val) : option string :=
  match l with
  | [] => Some EmptyString
  | x :: r =>
      match (match x with VInt _ z => Some z | VBool b => Some (if b then 1 else 0)%Z | _ => None end) with
      | Some z => if Z.leb 0 z && Z.ltb z 256
                  then option_map (String (ascii_of_nat (Z.to_nat z))) (bytes_of r) else None
      | None => None
      end
  end.

Definition is_pathish (v : val) : option string :=
  match v with VStr _ s | VPath _ s | VFile _ s => Some s | _ => None end.

Record world := { w_abs : string -> string; w_check : fmt -> string -> option err }.

Section WithTables.
Variable T : tables.
(* the world: [w_abs W p] is the absolute form of the normalised path p (fileformats stores absolute paths);
   [w_check W f p = None] when fileformats accepts the absolute path p for format f, [Some ETypeError] for a
   format mismatch, [Some EOther] for a missing path *)
Variable W : world.
Variable sac : bool.                        (* superclass_auto_cast *)

(* FileSet.__init__ on a collection of paths: normalise, make absolute, drop duplicates, every path must exist
   (FileNotFoundError); a single path is then checked against the format (FormatMismatchError, a TypeError) *)
Fixpoint dedupe_str (l : list string) (acc : list string) : list string :=
  match l with
  | [] => rev acc
  | x :: r => if existsb (String.eqb x) acc then dedupe_str r acc else dedupe_str r (x :: acc)
  end.
Definition fileset_ctor (f : fmt) (paths : list string) : result val :=
  let ps := dedupe_str (map (fun s => w_abs W (norm_path s)) paths) [] in
  if existsb (fun p => match w_check W f p with Some EOther => true | _ => false end) ps then Err EOther
  else match ps with
       | [p] => match w_check W f p with None => Ok (VFile f p) | Some e => Err e end
       | [] => Err ETypeError
       | _ => Err EUnmodelled     (* several existing paths: which of them a format picks is fileformats' business *)
       end.

(* coerce_obj's [type_(obj)] for the container classes, given the already coerced items *)
Definition construct_container (c : cls) (items : list val) : result val :=
  match c with
  | CList => Ok (VList None items)
  | CTuple => Ok (VTuple None items)
  | CSet => mk_set false items
  | CFrozenset => mk_set true items
  | _ => Err EUnmodelled
  end.

(* coerce_obj: [type_(obj)] with TypeError/ValueError turned into TypeError *)
Definition construct (c : cls) (v : val) : result val :=
  match c with
  | CBool => Ok (VBool (truthy v))
  | CInt => match v with VBool _ | VInt _ _ => Ok (VInt None (match num_of v with Some z => z | None => 0%Z end))
                       | VFloat _ z => Ok (VInt None z) | _ => Err EUnmodelled end
  | CFloat => match num_of v with Some z => Ok (VFloat None z) | None => Err EUnmodelled end
  | CStr => match py_str v with Some s => Ok (VStr None s) | None => Err EUnmodelled end
  | CBytes =>
      match v with
      | VBytes _ s => Ok (VBytes None s)
      | VStr _ _ | VNone | VFloat _ _ => Err ETypeError
      | VList _ l | VTuple _ l | VSet _ _ l =>
          match bytes_of l with Some s => Ok (VBytes None s) | None => Err ETypeError end
      | VDict _ kv => match bytes_of (map fst kv) with Some s => Ok (VBytes None s) | None => Err ETypeError end
      | _ => Err EUnmodelled
      end
  | CPath => match v with
             | VStr _ s => Ok (VPath None (norm_path s))
             | VPath _ s => Ok (VPath None s)
             | VFile _ s => Ok (VPath None (norm_path s))
             | _ => Err ETypeError
             end
  | CFile f =>
      match is_pathish v with
      | Some s => fileset_ctor f [s]
      | None =>
          match v with
          | VList _ l | VTuple _ l | VSet _ _ l =>
              match all_some (map is_pathish l) with Some ps => fileset_ctor f ps | None => Err ETypeError end
          | VDict _ kv =>
              match all_some (map is_pathish (map fst kv)) with Some ps => fileset_ctor f ps | None => Err ETypeError end
          | _ => Err ETypeError
          end
      end
  | CNone => Err ETypeError
  | CList | CTuple | CSet | CFrozenset =>
      match iter v with Ok items => construct_container c items | Err e => Err e end
  | CDict => match v with VDict _ kv => Ok (VDict None kv) | _ => Err EUnmodelled end
  | _ => Err EUnmodelled
  end.

(* TypeParser.is_instance(obj, candidate) *)
Definition is_instance (v : val) (c : cls) : bool := is_subclass T (class_of T v) c.

(* the [source] argument of check_type_coercible: a real class, or the typing.Union special form *)
Inductive src_kind := SCls (k : cls) | SUnionForm.

(* is_subclass(source, src): issubclass(typing.Union, X) raises TypeError unless the candidate is Any *)
Definition src_is_subclass (s : src_kind) (c : cls) : result bool :=
  match s with
  | SCls k => Ok (is_subclass T k c)
  | SUnionForm => match c with KAny => Ok true | _ => Err ETypeError end
  end.

(* matches_criteria: the list comprehension, left to right, with the short-circuit [and] *)
Fixpoint matches_criteria (s : src_kind) (target : cls) (crit : list (cls * cls)) : result bool :=
  match crit with
  | [] => Ok false
  | (a, b) :: r =>
      match src_is_subclass s a with
      | Err e => Err e
      | Ok m => match matches_criteria s target r with
                | Err e => Err e
                | Ok rest => Ok ((m && is_subclass T target b) || rest)
                end
      end
  end.

(* check_type_coercible(source, target) after [source = get_origin(source) or source];
   [same] = the Python test [source is target] (made by the caller on the un-stripped source);
   [sup] = the superclass_auto_cast test [is_subclass(target, source)] *)
Definition check_type_coercible_gen (same sup : bool) (s : src_kind) (target : cls) : result unit :=
  if same then Ok tt
  else if sac && sup then Ok tt
  else match matches_criteria s target (t_coercible T) with
       | Err e => Err e
       | Ok false => Err ETypeError
       | Ok true => match matches_criteria s target (t_not_coercible T) with
                    | Err e => Err e
                    | Ok true => Err ETypeError
                    | Ok false => Ok tt
                    end
       end.

Definition check_type_coercible (source target : cls) : result unit :=
  check_type_coercible_gen (cls_eqb source target) (is_subclass T target source) (SCls source) target.

(* check_coercible(obj, target), with the sequence-of-paths-into-a-FileSet shortcut *)
Definition check_coercible (v : val) (target : cls) : result unit :=
  if sub T (class_of T v) KSequence && sub T target KFileSet &&
     match iter v with Ok items => forallb (fun p => sub T (class_of T p) KPathLike) items | Err _ => false end
  then Ok tt
  else check_type_coercible (class_of T v) target.

Definition coerce_basic (c : cls) (v : val) : result val :=
  if is_instance v c then Ok v
  else match check_coercible v c with Err e => Err e | Ok _ => construct c v end.

(* the head of expand_and_coerce for a container pattern: [true] when the object is an instance of the origin (the
   result is then built with type(obj)), [false] when it is coercible to it (built with the origin) *)
Definition enter (origin : cls) (v : val) : result bool :=
  if is_instance v origin then Ok true
  else match check_coercible v origin with Err e => Err e | Ok _ => Ok false end.

(* type(obj)(items) for an instance of the origin: same class (same tag), new items *)
Definition keep (origin : cls) (v : val) (items : list val) : result val :=
  match origin, v with
  | CList, VList k _ => Ok (VList k items)
  | CTuple, VTuple k _ => Ok (VTuple k items)
  | CSet, VSet k false _ =>
      if forallb hashable items then Ok (VSet k false (dedupe items [])) else Err ETypeError
  | CFrozenset, VSet k true _ =>
      if forallb hashable items then Ok (VSet k true (dedupe items [])) else Err ETypeError
  | _, _ => Err EUnmodelled
  end.

Definition build (origin : cls) (v : val) (inst : bool) (r : result (list val)) : result val :=
  match r with
  | Err e => Err e
  | Ok items => if inst then keep origin v items else construct_container origin items
  end.

Definition wrap1 (r : result val) : result val :=
  match r with Ok x => Ok (VList None [x]) | Err e => Err e end.

(* isinstance(obj, (str, bytes)) *)
Definition is_vstr (v : val) : bool := is_instance v CStr || is_instance v CBytes.

(* coerce_sequence / coerce_tuple with a (t, ...) pattern, reached through expand_and_coerce:
   [f] is expand_and_coerce on the item pattern *)
Definition coerce_seq (origin : cls) (f : val -> result val) (v : val) : result val :=
  match enter origin v with
  | Err e => Err e
  | Ok inst => match iter v with Err e => Err e | Ok items => build origin v inst (map_res f items) end
  end.

(* [expand_and_coerce(o, p) for o, p in zip(obj_args, pattern_args)] *)
Fixpoint zip_res (fs : list (val -> result val)) (items : list val) : result (list val) :=
  match fs, items with
  | f :: r, x :: xs =>
      match f x with
      | Err e => Err e
      | Ok y => match zip_res r xs with Err e => Err e | Ok ys => Ok (y :: ys) end
      end
  | _, _ => Ok []
  end.

(* coerce_tuple with a fixed-length pattern *)
Definition coerce_tuple (fs : list (val -> result val)) (v : val) : result val :=
  match enter CTuple v with
  | Err e => Err e
  | Ok inst =>
      match iter v with
      | Err e => Err e
      | Ok items =>
          if Nat.eqb (List.length fs) (List.length items) then build CTuple v inst (zip_res fs items)
          else Err ETypeError
      end
  end.

(* the dict comprehension of coerce_mapping: key, then value, then the insertion (which hashes the key) *)
Fixpoint dict_res (fk fx : val -> result val) (kv acc : list (val * val)) : result (list (val * val)) :=
  match kv with
  | [] => Ok acc
  | (a, b) :: r =>
      match fk a with
      | Err e => Err e
      | Ok a' => match fx b with
                 | Err e => Err e
                 | Ok b' => if hashable a' then dict_res fk fx r (dict_set acc a' b') else Err ETypeError
                 end
      end
  end.

Definition coerce_dict (fk fx : val -> result val) (v : val) : result val :=
  match enter CDict v with
  | Err e => Err e
  | Ok inst =>
      match v with
      | VDict k kv => match dict_res fk fx kv [] with
                      | Err e => Err e
                      | Ok d => Ok (VDict (if inst then k else None) d)       (* type_(dict) *)
                      end
      | _ => Err ETypeError                             (* obj.items(): AttributeError -> TypeError *)
      end
  end.

(* coerce_multi_input *)
Definition coerce_multi (f : val -> result val) (v : val) : result val :=
  if is_vstr v then wrap1 (f v)
  else match (match iter v with Err e => Err e | Ok items => map_res f items end) with
       | Ok l => Ok (VList None l)                       (* coerce_sequence(list, obj, args) *)
       | Err ETypeError => wrap1 (f v)
       | Err e => Err e
       end.

(* expand_and_coerce *)
Fixpoint coerce (t : ty) (v : val) {struct t} : result val :=
  match t with
  | TBase c => coerce_basic c v
  | TMulti a => coerce_multi (coerce a) v
  | TUnion ts => first_ok (fun a => coerce a v) ts         (* coerce_union *)
  | TList a => coerce_seq CList (coerce a) v
  | TSet fr a => coerce_seq (if fr then CFrozenset else CSet) (coerce a) v
  | TTupleVar a => coerce_seq CTuple (coerce a) v
  | TTuple ts => coerce_tuple (map coerce ts) v
  | TDict k x => coerce_dict (coerce k) (coerce x) v
  end.

(* ensure_list (pydra/utils/general.py), the pre-converter make_converter adds for MultiInputFile *)
Definition ensure_list (v : val) : val :=
  match v with VNone => VList None [] | _ => if is_instance v CList then v else VList None [v] end.

End WithTables.

(* make_converter: TypeParser(field_type, superclass_auto_cast=True), preceded by ensure_list when the
   field type is MultiInputObj[File]; attrs runs it at construction and (on_setattr=convert) at assignment *)
Definition is_multi_file (t : ty) : bool :=
  match t with TMulti (TBase (CFile FFile)) => true | _ => false end.
Definition assign (T : tables) (W : world) (t : ty) (v : val) : result val :=
  coerce T W true t (if is_multi_file t then ensure_list T v else v).

(* an attribute with on_setattr=convert: a rejected assignment leaves the old value *)
Definition set_field (T : tables) (W : world) (t : ty) (old : val) (v : val) : val :=
  match assign T W t v with Ok v' => v' | Err _ => old end.

(* ------------------------------------------------------------------ static check (superclass_auto_cast=False) *)
Section Static.
Variable T : tables.

Definition origin_of (t : ty) : cls :=
  match t with
  | TBase c => c | TList _ => CList | TTuple _ | TTupleVar _ => CTuple | TDict _ _ => CDict
  | TSet fr _ => if fr then CFrozenset else CSet | TUnion _ => KAny (* unused *) | TMulti _ => CMulti
  end.

(* get_args(tp) without a trailing Ellipsis, and whether there was one *)
Definition targs (s : ty) : list ty * bool :=
  match s with
  | TBase _ => ([], false)
  | TList a | TSet _ a | TMulti a => ([a], false)
  | TTuple ts => (ts, false)
  | TTupleVar a => ([a], true)
  | TDict k v => ([k; v], false)
  | TUnion ts => (ts, false)
  end.

Definition src_of (s : ty) : src_kind :=
  match s with TUnion _ => SUnionForm | _ => SCls (origin_of s) end.

(* TypeParser.is_subclass(tp, target) for an annotation tp and a plain target class *)
Fixpoint is_subclass_ty (s : ty) (c : cls) : bool :=
  match c with
  | KAny => true
  | _ => match s with
         | TBase KAny => false
         | TUnion ts => forallb (fun a => is_subclass_ty a c) ts
         | _ => sub T (origin_of s) c
         end
  end.

(* check_basic *)
Definition check_basic (s : ty) (c : cls) : result unit :=
  if is_subclass_ty s c then Ok tt
  else check_type_coercible_gen T false
         (match s with TBase k => cls_eqb k c | _ => false end) false (src_of s) c.

(* the head of expand_and_check for a container pattern: get_origin(tp), check_type_coercible(tp_origin,
   pattern_origin), get_args(tp) *)
Definition container_args (po : cls) (s : ty) : result (list ty * bool) :=
  match s with
  | TBase _ => Err ETypeError                      (* get_origin(tp) is None *)
  | _ =>
      match check_type_coercible_gen T false
              (match s with TUnion _ => false | _ => cls_eqb (origin_of s) po end) false (src_of s) po with
      | Err e => Err e
      | Ok _ => match s with
                | TUnion _ => Err ETypeError       (* issubclass(typing.Union, ...) *)
                | _ => Ok (targs s)
                end
      end
  end.

(* check_tuple's view of tp_args: a non-tuple source gets an Ellipsis appended *)
Definition tuple_args (s : ty) (a : list ty * bool) : result (list ty * bool) :=
  if sub T (origin_of s) CTuple then Ok a
  else match fst a with [_] => Ok (fst a, true) | _ => Err EOther end.     (* assert len(tp_args) == 1 *)

Definition bind_args (r : result (list ty * bool)) (f : list ty -> bool -> result unit) : result unit :=
  match r with Err e => Err e | Ok (args, ell) => f args ell end.

(* expand_and_check(tp = s, pattern = p) *)
Fixpoint check (p : ty) (s : ty) {struct p} : result unit :=
  match p with
  | TBase c => check_basic s c
  | TUnion ps =>                                      (* check_union *)
      match s with
      | TUnion ss => forall_res (fun s' => first_ok (fun p' => check p' s') ps) ss
      | _ => first_ok (fun p' => check p' s) ps
      end
  | TDict pk pv =>                                    (* check_mapping *)
      match container_args CDict s with
      | Err e => Err e
      | Ok ([k; v], _) => match check pk k with Err e => Err e | Ok _ => check pv v end
      | Ok _ => Err EOther
      end
  | TTupleVar pa =>                                   (* check_tuple, pattern (pa, ...) *)
      match container_args CTuple s with
      | Err e => Err e
      | Ok a =>
          match tuple_args s a with
          | Err e => Err e
          | Ok (args, true) => match args with a :: _ => check pa a | [] => Err EOther end
          | Ok (args, false) => forall_res (check pa) args
          end
      end
  | TTuple ps =>
      match container_args CTuple s with
      | Err e => Err e
      | Ok a =>
          match tuple_args s a with
          | Err e => Err e
          | Ok (args, true) =>
              match args with a :: _ => forall_res (fun p' => check p' a) ps | [] => Err EOther end
          | Ok (args, false) =>
              if Nat.eqb (List.length args) (List.length ps)
              then (fix go (ps args : list ty) : result unit :=
                      match ps, args with
                      | p' :: pr, a :: ar => match check p' a with Err e => Err e | Ok _ => go pr ar end
                      | _, _ => Ok tt
                      end) ps args
              else Err ETypeError
          end
      end
  | TList pa =>                                       (* check_sequence *)
      match container_args CList s with
      | Err e => Err e
      | Ok ([], _) => Err ETypeError
      | Ok (args, _) => forall_res (check pa) args
      end
  | TSet fr pa =>
      match container_args (if fr then CFrozenset else CSet) s with
      | Err e => Err e
      | Ok ([], _) => Err ETypeError
      | Ok (args, _) => forall_res (check pa) args
      end
  | TMulti pa =>
      match container_args CMulti s with
      | Err e => Err e
      | Ok ([], _) => Err ETypeError
      | Ok (args, _) => forall_res (check pa) args
      end
  end.

(* TypeParser(p).check_type(s) *)
Fixpoint check_type (p : ty) (s : ty) {struct p} : result unit :=
  match s with
  | TBase KAny => Ok tt
  | _ =>
      match check p s with
      | Err ETypeError =>
          match p with
          | TMulti a => match check_type a s with Ok _ => Ok tt | Err e => Err e end
          | _ => Err ETypeError
          end
      | r => r
      end
  end.

End Static.

(* ------------------------------------------------------------------ the world used by the correspondence runs:
   what fileformats does for the three modelled formats on a path of a given kind (modelled, not verified) *)
Inductive fkind := FkMissing | FkTxt | FkOther | FkDir.   (* no such path | regular file *.txt | other regular file | directory *)
Definition accepts (f : fmt) (k : fkind) : option err :=
  match k, f with
  | FkMissing, _ => Some EOther                 (* FileNotFoundError *)
  | FkTxt, (FFile | FText) => None
  | FkOther, FFile => None
  | FkDir, FDir => None
  | _, _ => Some ETypeError                      (* FormatMismatchError (a TypeError) *)
  end.
Fixpoint kind_of (fs : list (string * fkind)) (p : string) : fkind :=
  match fs with [] => FkMissing | (q, k) :: r => if String.eqb p q then k else kind_of r p end.
(* Path(p).absolute() for a normalised p *)
Definition abs_path (cwd p : string) : string :=
  match p_anchor (parse (la_of p)) with
  | ARel => if String.eqb p "." then cwd else cwd ++ "/" ++ p
  | _ => p
  end.
Definition world_of (cwd : string) (fs : list (string * fkind)) : world :=
  {| w_abs := abs_path cwd; w_check := fun f p => accepts f (kind_of fs p) |}.

(* equality of observed and modelled values: structural (tags included), sets compared without order *)
Definition tag_eqb (a b : tag) : bool :=
  match a, b with None, None => true | Some n, Some m => Nat.eqb n m | _, _ => false end.
Fixpoint val_equiv (a b : val) {struct a} : bool :=
  match a, b with
  | VNone, VNone => true
  | VBool x, VBool y => Bool.eqb x y
  | VInt k x, VInt k' y | VFloat k x, VFloat k' y => tag_eqb k k' && Z.eqb x y
  | VStr k s, VStr k' s' | VBytes k s, VBytes k' s' | VPath k s, VPath k' s' => tag_eqb k k' && String.eqb s s'
  | VFile f s, VFile f' s' => fmt_eqb f f' && String.eqb s s'
  | VList k l, VList k' l' | VTuple k l, VTuple k' l' =>
      tag_eqb k k' &&
      (fix go (l l' : list val) : bool :=
         match l, l' with
         | [], [] => true
         | x :: r, y :: r' => val_equiv x y && go r r'
         | _, _ => false
         end) l l'
  | VSet k fr l, VSet k' fr' l' =>
      tag_eqb k k' && Bool.eqb fr fr' && Nat.eqb (List.length l) (List.length l') &&
      forallb (fun x => existsb (fun y => val_equiv x y) l') l
  | VDict k kv, VDict k' kv' =>
      tag_eqb k k' &&
      (fix go (l l' : list (val * val)) : bool :=
         match l, l' with
         | [], [] => true
         | (k, x) :: r, (k', x') :: r' => val_equiv k k' && val_equiv x x' && go r r'
         | _, _ => false
         end) kv kv'
  | _, _ => false
  end.

Definition res_equiv (a b : result val) : bool :=
  match a, b with
  | Ok x, Ok y => val_equiv x y
  | Err e, Err e' => err_eqb e e'
  | _, _ => false
  end.
(* comparing the model's answer with an observation: where the model does not speak there is nothing to compare *)
Definition res_tie (m o : result val) : bool :=
  match m with Err EUnmodelled => true | _ => res_equiv m o end.
Definition is_unmodelled {A} (m : result A) : bool := match m with Err EUnmodelled => true | _ => false end.
Definition res_unit_eqb (a b : result unit) : bool :=
  match a, b with Ok _, Ok _ => true | Err e, Err e' => err_eqb e e' | _, _ => false end.
