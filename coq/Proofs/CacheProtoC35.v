(* Proofs/CacheProtoC35.v — what one run of Job.run leaves behind: cwd, info file, hook calls (process-local
   invariant) and the contents of the job directory (invariant under the lock), for arbitrary traces. *)
From Pydra Require Import Base.Prelude.
From Pydra Require Import Model.CacheProto Proofs.CacheProto.
Local Open Scope nat_scope.

(* ---- expected process-local values at each pc, as long as no exception escaped the try/except region *)
Definition body_region (c : pcT) : bool :=
  match c with
  | AudSt | BodyIn | BodyOut | OutsOk | Err0 | Err1 | Err2 | Err3 | Err4 | ErrRec
  | Fin0 | Fin1 | Fin2 | Sv true _ | Fin3 | Fin4 => true
  | _ => false
  end.
(* between audit_started and cwd_restored user code may have moved the process anywhere *)
Definition cwd_ok (asy : bool) (c : pcT) (w : loc) : Prop :=
  if body_region c then True
  else w = match c with CwdCh | PreHk => if asy then Home else InDir | _ => Home end.
Definition exp_infos (c : pcT) : nat :=
  match c with
  | Pop1 | Pop2 | Pop3 | Sv _ _ | Pop4 | Pop5 | CwdCh | PreHk | AudSt | BodyIn | BodyOut | OutsOk
  | Err0 | Err1 | Err2 | Err3 | Err4 | ErrRec | Fin0 | Fin1 | Fin2 | Fin3 => 1
  | _ => 0
  end.
(* pre_run_task called, try block not yet entered / try block entered, post_run_task not yet called *)
Definition ind_pre (c : pcT) : nat := match c with PreHk | AudSt => 1 | _ => 0 end.
Definition ind_post (c : pcT) : nat :=
  match c with BodyIn | BodyOut | OutsOk | Err0 | Err1 | Err2 | Err3 | Err4 | ErrRec | Fin0 => 1 | _ => 0 end.
(* result.errored is still False / the finally block is reached with an exception pending *)
Definition before_handler (c : pcT) : bool :=
  match c with
  | Waiting | Locked | Hit0 | Hit1 | Miss | Pop1 | Pop2 | Pop3 | Sv false _ | Pop4 | Pop5 | CwdCh | PreHk | AudSt
  | BodyIn | BodyOut | OutsOk => true
  | _ => false
  end.
Definition in_handler (c : pcT) : bool :=
  match c with Err0 | Err1 | Err2 | Err3 | Err4 | ErrRec | Fin0 => true | _ => false end.
Definition in_finally (c : pcT) : bool :=
  match c with Fin1 | Fin2 | Sv true _ | Fin3 | Fin4 | Fin5 => true | _ => false end.

Definition local_inv (q : proc) : Prop :=
  (dirty q = false ->
     infos q = exp_infos (pc q) /\ cwd_ok (is_async q) (pc q) (cwd q) /\
     pre_calls q = execs q + ind_pre (pc q) /\ post_calls q + ind_post (pc q) = execs q) /\
  (before_handler (pc q) = true -> r_err q = false /\ raised q = false) /\
  (in_handler (pc q) = true -> r_err q = true) /\
  (in_finally (pc q) = true -> raised q = r_err q) /\
  (pc q = Fin0 -> raised q = true) /\
  (pc q = ExcHold -> dirty q = true) /\
  (pc q = Done -> ret q <> None) /\
  (ret q <> None -> pc q = Done).

(* ---- what the job directory holds while the process is still inside its with block *)
Definition dir_there (c : pcT) : bool :=
  match c with
  | Pop3 | Sv _ _ | Pop4 | Pop5 | CwdCh | PreHk | AudSt | BodyIn | BodyOut | OutsOk
  | Err0 | Err1 | Err2 | Err3 | Err4 | ErrRec | Fin0 | Fin1 | Fin2 | Fin3 | Fin4 | Fin5 => true
  | _ => false
  end.
Definition res_done (c : pcT) : bool :=
  match c with Sv true (SRA | SJB | SJO | SJD | SJA | SRel) | Fin3 | Fin4 | Fin5 => true | _ => false end.
Definition job_done (c : pcT) : bool :=
  match c with Sv _ (SJA | SRel) | Pop4 | Pop5 | CwdCh | PreHk | AudSt | BodyIn | BodyOut | OutsOk
             | Err0 | Err1 | Err2 | Err3 | Err4 | ErrRec | Fin0 | Fin1 | Fin2 | Fin3 | Fin4 | Fin5 => true
           | Sv true (SAcq | SRB | SRO | SRD | SRA | SJB) => true
           | _ => false end.
Definition err_done (c : pcT) : bool :=
  match c with Err4 | ErrRec => true | _ => false end.

Definition fs_inv (q : proc) (g : glob) : Prop :=
  (dir_there (pc q) = true -> dir g = true) /\
  (res_done (pc q) = true -> resf g = Complete (the_result q)) /\
  (job_done (pc q) = true -> jobf g = Complete tt) /\
  (err_done (pc q) = true -> errf g = Complete tt).

Section C35.
  Variable pickle : res -> list nat.
  Variable unpickle : list nat -> option res.
  Variable bv : val.
  Notation lstep := (lstep pickle unpickle bv).
  Notation step := (step pickle unpickle bv).
  Notation run := (run pickle unpickle bv).
  Notation init := (init bv).

  Lemma local_inv_lstep p q g a q' g' : lstep p q g a = Some (q', g') -> local_inv q -> local_inv q'.
  Proof.
    intros H (L1 & L2 & L3 & L4 & L6 & L5 & L7 & L8). inv_lstep H. all: fin H.
    all: unfold local_inv, cwd_ok in *; usepc.
    all: repeat match goal with
                | H : true = true -> _ |- _ => specialize (H eq_refl)
                | H : ?x = ?x -> _ |- _ => specialize (H eq_refl)
                | H : false = true -> _ |- _ => clear H
                | H : _ /\ _ |- _ => destruct H
                end.
    all: repeat split; intros; try discriminate; try congruence.
    all: repeat match goal with
                | H : ?a = false -> _, H' : ?a = false |- _ => specialize (H H')
                | H : _ /\ _ |- _ => destruct H
                end; try lia; try congruence.
    all: repeat match goal with H : ?x = _ |- context [if ?x then _ else _] => rewrite H end; try congruence.
    all: try (match goal with H : ?a <> None -> _, H' : ?a <> None |- _ => specialize (H H'); discriminate end).
    all: try (exfalso; auto; fail).
    all: usepc; auto; try lia; try congruence.
  Qed.

  Lemma fs_inv_lstep p q g a q' g' : lstep p q g a = Some (q', g') -> fs_inv q g -> fs_inv q' g'.
  Proof.
    intros H (F1 & F2 & F3 & F4). inv_lstep H. all: fin H.
    all: unfold fs_inv, the_result in *; usepc.
    all: repeat split; intros; try discriminate; auto.
    all: usepc; try discriminate; auto.
  Qed.

  Definition c35_inv (s : state) : Prop :=
    (forall p, local_inv (procs s p)) /\
    (forall p, alive s p -> fs_inv (procs s p) (gl s)).

  Lemma fs_inv_outside q g : holds (pc q) = false -> fs_inv q g.
  Proof.
    intros H. unfold fs_inv. destruct (pc q) as [| | | | | | | | |f i| | | | | | | | | | | | | | | | | | | | | | | | | | | ];
      cbn in *; try discriminate; repeat split; intros; discriminate.
  Qed.

  Lemma fs_inv_frame q g g' :
    dir g' = dir g -> resf g' = resf g -> jobf g' = jobf g -> errf g' = errf g -> fs_inv q g -> fs_inv q g'.
  Proof. unfold fs_inv. intros -> -> -> ->. auto. Qed.

  Lemma c35_inv_init pre : c35_inv (init pre).
  Proof.
    split; intros p.
    - unfold local_inv; cbn. repeat split; intros; try discriminate; auto; try (exfalso; auto; fail).
    - intros _. apply fs_inv_outside. reflexivity.
  Qed.

  Lemma c35_inv_step s e s' : lock_inv s -> c35_inv s -> step s e = Some s' -> c35_inv s'.
  Proof.
    intros LI [HL HF] H. destruct e as [p a].
    apply step_inv in H. destruct H as [Dp [[-> ->]|(q' & g' & L & ->)]].
    - split; cbn; [assumption|]. intros r Ar. unfold alive in *; cbn in *.
      destruct (Nat.eqb r p); [discriminate|]. apply fs_inv_frame with (g := gl s); auto.
    - split; cbn [procs gl]; intros r.
      + destruct (Nat.eq_dec r p) as [->|Ne]; [rewrite upd_same|rewrite upd_other by assumption; apply HL].
        eapply local_inv_lstep; eauto.
      + intros Ar. pose proof (lstep_lock _ _ _ _ _ _ _ _ _ L) as [Dd _].
        assert (Ar' : alive s r) by (unfold alive in *; cbn in *; congruence).
        destruct (Nat.eq_dec r p) as [->|Ne]; [rewrite upd_same|rewrite upd_other by assumption].
        * eapply fs_inv_lstep; eauto.
        * destruct (holds (pc (procs s r))) eqn:Hr; [|now apply fs_inv_outside].
          (* r is inside its with block, so p is not, and p's step leaves the directory alone *)
          destruct LI as (I1 & _).
          assert (Hp : holds (pc (procs s p)) = false).
          { destruct (holds (pc (procs s p))) eqn:Hp; [|reflexivity].
            pose proof (I1 p Dp Hp). pose proof (I1 r Ar' Hr). congruence. }
          destruct (lstep_outside _ _ _ _ _ _ _ _ _ L Hp) as [->|(_ & _ & ->)]; [now apply HF|].
          apply fs_inv_frame with (g := gl s); auto.
  Qed.

  Lemma c35_reachable pre tr s : run (init pre) tr = Some s -> lock_inv s /\ c35_inv s.
  Proof.
    apply (run_inv pickle unpickle bv (fun s => lock_inv s /\ c35_inv s)).
    - intros s0 e s1 [A B] H. split; [eapply lock_inv_step; eauto|eapply c35_inv_step; eauto].
    - split; [apply lock_inv_init|apply c35_inv_init].
  Qed.

  (* C35_finally_region: as long as every exception of process p was raised inside the try block or its
     handler (dirty = false: task body, output collection, record_error -- at any label there, any number of
     submissions, any interleaving with other processes), then
     - whenever p is outside the with block its cwd is the original one and no info file of p is left;
     - when p has passed job.cwd_restored and still holds the lock, the job directory exists and holds the
       complete job record and the complete result p built, marked errored iff the finally block ran because
       of an exception. *)
  Theorem finally_region pre tr s p :
    run (init pre) tr = Some s ->
    let q := procs s p in
    dirty q = false ->
    (holds (pc q) = false -> cwd q = Home /\ infos q = 0) /\
    (alive s p -> pc q = Fin5 ->
       cwd q = Home /\ infos q = 0 /\
       dir (gl s) = true /\ jobf (gl s) = Complete tt /\ resf (gl s) = Complete (mkRes (raised q) (r_out q))).
  Proof.
    intros R q Dq. destruct (c35_reachable _ _ _ R) as [_ [HL HF]].
    destruct (HL p) as (L1 & _ & _ & L4 & _). fold q in L1, L4. destruct (L1 Dq) as (Ei & Ec & _).
    split.
    - intros Hh. rewrite Ei. unfold cwd_ok in Ec.
      destruct (pc q) as [| | | | | | | | |f i| | | | | | | | | | | | | | | | | | | | | | | | | | | ];
        cbn in *; try discriminate; auto.
    - intros Ap E. destruct (HF p Ap) as (F1 & F2 & F3 & _). fold q in F1, F2, F3. unfold cwd_ok in Ec.
      rewrite E in *. cbn in *. rewrite Ei, Ec, (L4 eq_refl). unfold the_result in F2. auto 10.
  Qed.

  (* C35_hooks_once: under the same condition pre_run_task and post_run_task have each been called exactly
     once per entry into the try block (execs), whenever the process is outside the with block. *)
  Theorem hooks_once pre tr s p :
    run (init pre) tr = Some s ->
    let q := procs s p in
    dirty q = false -> holds (pc q) = false ->
    pre_calls q = execs q /\ post_calls q = execs q.
  Proof.
    intros R q Dq Hh. destruct (c35_reachable _ _ _ R) as [_ [HL _]].
    destruct (HL p) as (L1 & _). fold q in L1. destruct (L1 Dq) as (_ & _ & E1 & E2).
    destruct (pc q) as [| | | | | | | | |f i| | | | | | | | | | | | | | | | | | | | | | | | | | | ];
      cbn in *; try discriminate; lia.
  Qed.

  (* ... and never for a cache hit: from the check to the return of a hit no hook is called and the try
     block is not entered *)
  Definition hit_path (c : pcT) : bool :=
    match c with Waiting | Hit0 | Hit1 | RelHit => true | _ => false end.
  Theorem hit_calls_no_hook p q g a q' g' :
    lstep p q g a = Some (q', g') ->
    hit_path (pc q) = true \/ (pc q = Locked /\ a = AChecked) ->
    pre_calls q' = pre_calls q /\ post_calls q' = post_calls q /\ execs q' = execs q /\
    (hit_path (pc q') = true \/ pc q' = Locked \/ pc q' = Miss \/ pc q' = Done \/ pc q' = ExcHold \/ pc q' = RelExc).
  Proof.
    intros H Hp. inv_lstep H; destruct Hp as [Hp|[Hp Ha]]; try discriminate. all: fin H. all: usepc; auto 10.
  Qed.
End C35.
