(* Base/Prelude.v — shared helpers for every model. Stdlib only. *)
From Coq Require Export List String Ascii Bool Arith ZArith NArith Lia.
Export ListNotations.

(* strings are byte strings; the harness prints non-printable ones as [bs [..]] *)
Fixpoint bs (l : list nat) : string :=
  match l with [] => EmptyString | n :: r => String (ascii_of_nat n) (bs r) end.

Fixpoint str_of (l : list ascii) : string :=
  match l with [] => EmptyString | c :: r => String c (str_of r) end.

Definition la_of (s : string) : list ascii := list_ascii_of_string s.

Lemma str_of_la_of s : str_of (la_of s) = s.
Proof. unfold la_of. induction s as [|c s IH]; cbn; [reflexivity| now rewrite IH]. Qed.
Lemma la_of_str_of l : la_of (str_of l) = l.
Proof. unfold la_of. induction l as [|c l IH]; cbn; [reflexivity| now rewrite IH]. Qed.

(* generic boolean list equality *)
Fixpoint list_eqb {A} (eqb : A -> A -> bool) (a b : list A) : bool :=
  match a, b with
  | [], [] => true
  | x :: a', y :: b' => eqb x y && list_eqb eqb a' b'
  | _, _ => false
  end.

Lemma list_eqb_spec {A} (eqb : A -> A -> bool)
  (H : forall x y, eqb x y = true <-> x = y) :
  forall a b, list_eqb eqb a b = true <-> a = b.
Proof.
  induction a as [|x a IH]; destruct b as [|y b]; cbn.
  - split; reflexivity.
  - split; discriminate.
  - split; discriminate.
  - rewrite andb_true_iff, H, IH. split; [intros [-> ->]; reflexivity| intros E; inversion E; auto].
Qed.

Definition option_eqb {A} (eqb : A -> A -> bool) (a b : option A) : bool :=
  match a, b with
  | None, None => true
  | Some x, Some y => eqb x y
  | _, _ => false
  end.

Definition pair_eqb {A B} (ea : A -> A -> bool) (eb : B -> B -> bool) (a b : A * B) : bool :=
  ea (fst a) (fst b) && eb (snd a) (snd b).

(* indices of the cases on which a boolean check fails: what every cases_*.v prints *)
Fixpoint bad_from {A} (ok : A -> bool) (i : nat) (l : list A) : list nat :=
  match l with
  | [] => []
  | x :: r => if ok x then bad_from ok (S i) r else i :: bad_from ok (S i) r
  end.
Definition bad {A} (ok : A -> bool) (l : list A) : list nat := bad_from ok 0 l.

Fixpoint is_prefix {A} (eqb : A -> A -> bool) (p l : list A) : bool :=
  match p, l with
  | [], _ => true
  | x :: p', y :: l' => eqb x y && is_prefix eqb p' l'
  | _ :: _, [] => false
  end.

Lemma is_prefix_spec {A} (eqb : A -> A -> bool)
  (H : forall x y, eqb x y = true <-> x = y) :
  forall p l, is_prefix eqb p l = true <-> exists r, l = p ++ r.
Proof.
  induction p as [|x p IH]; intros l; cbn.
  - split; [intros _; now exists l|auto].
  - destruct l as [|y l]; [split; [discriminate|intros [r E]; discriminate]|].
    rewrite andb_true_iff, H, IH. split.
    + intros [-> [r ->]]. now exists r.
    + intros [r E]. inversion E; subst. split; [reflexivity|now exists r].
Qed.
