(* Model/State.v — pydra/engine/state.py: splitter2rpn (_ordering/_iterate_list), State.splits (keys carried per stack operand), _processing_terms, _single_op_splits, iter_splits, map_splits,
   prepare_states_ind / prepare_states_val.   No proofs here. *)
From Pydra Require Import Base.Prelude.

(* ---- splitter syntax: a field name, a list [..] (outer product) or a tuple (..) (inner product) *)
Inductive spl := Fld (f : nat) | Outer (l : list spl) | Inner (l : list spl).
Inductive tok := TF (f : nat) | TMul | TDot.

Definition tok_eqb (a b : tok) : bool :=
  match a, b with TF x, TF y => Nat.eqb x y | TMul, TMul => true | TDot, TDot => true | _, _ => false end.

(* _ordering / _iterate_list: element 0 is emitted bare, every later element is followed by the sign;
   a one-element list or tuple therefore unwraps to its element *)
Fixpoint rpn (s : spl) : list tok :=
  match s with
  | Fld f => [TF f]
  | Outer l => match l with [] => [] | x :: r => rpn x ++ flat_map (fun y => rpn y ++ [TMul]) r end
  | Inner l => match l with [] => [] | x :: r => rpn x ++ flat_map (fun y => rpn y ++ [TDot]) r end
  end.

Fixpoint leaves (s : spl) : list nat :=
  match s with Fld f => [f] | Outer l => flat_map leaves l | Inner l => flat_map leaves l end.

Fixpoint wfb (s : spl) : bool :=
  match s with
  | Fld _ => true
  | Outer l => match l with [] => false | _ => forallb wfb l end
  | Inner l => match l with [] => false | _ => forallb wfb l end
  end.

(* ---- values *)
Definition idx := list nat.      (* an index tuple, kept flattened (iter_splits flattens at the end) *)
Definition shape := list nat.    (* input_shape(...) of a field / accumulated shape of a stack operand *)
Definition env := nat -> shape.  (* field -> input_shape(inputs[field], container_ndim[field]) *)
Definition nprod (sh : shape) : nat := fold_right Nat.mul 1 sh.            (* math.prod *)
Definition shape_eqb (a b : shape) : bool := list_eqb Nat.eqb a b.

Inductive err := EShape | EIndex | EStack.
Inductive res (A : Type) := Ok (a : A) | Err (e : err).
Arguments Ok {A} a. Arguments Err {A} e.

Definition irange (n : nat) : list idx := map (fun i => [i]) (seq 0 n).   (* range(n), one index per tuple *)
(* op["*"] = itertools.product, op["."] = zip, on flattened tuples *)
Definition pyprod (a b : list idx) : list idx := flat_map (fun x => map (fun y => x ++ y) b) a.
Fixpoint pyzip (a b : list idx) : list idx :=
  match a, b with x :: a', y :: b' => (x ++ y) :: pyzip a' b' | _, _ => [] end.

(* a stack entry is either still the *name* of a field (a Python str) or an evaluated
   (iterator, shape, keys) triple: the keys of an operand travel with it on the stack *)
Inductive sel := SName (f : nat) | SVal (v : list idx) (sh : shape) (ks : list nat).

(* _processing_terms for a field of the current node: (shape, range(prod(shape)), [term]) *)
Definition force (e : env) (x : sel) : list idx * shape * list nat :=
  match x with SName f => (irange (nprod (e f)), e f, [f]) | SVal v sh ks => (v, sh, ks) end.

(* one operator: Ok (pushed triple) or the ValueError "Operands ... do not have same shape" *)
Definition binop (e : env) (dot : bool) (l r : sel) : res (list idx * shape * list nat) :=
  let '(vl, shl, kl) := force e l in
  let '(vr, shr, kr) := force e r in
  if dot then (if shape_eqb shl shr then Ok (pyzip vl vr, shr, kl ++ kr) else Err EShape)
  else Ok (pyprod vl vr, shl ++ shr, kl ++ kr).

(* the token loop of State.splits; `keys` is the local variable of that name: it is overwritten by every
   operator with new_keys_L + new_keys_R and returned at the end *)
Fixpoint run (e : env) (p : list tok) (st : list sel) (keys : list nat) : res (list sel * list nat) :=
  match p with
  | [] => Ok (st, keys)
  | TF f :: p' => run e p' (SName f :: st) keys
  | t :: p' =>
      match st with
      | r :: l :: st' =>
          match binop e (tok_eqb t TDot) l r with
          | Ok (v, sh, ks) => run e p' (SVal v sh ks :: st') ks
          | Err x => Err x
          end
      | _ => Err EStack          (* pop from an empty list *)
      end
  end.

(* State.splits: (index tuples, keys) *)
Definition splits (e : env) (p : list tok) : res (list idx * list nat) :=
  match p with
  | [TF f] => Ok (irange (nprod (e f)), [f])                     (* _single_op_splits *)
  | _ => match run e p [] [] with
         | Ok (SVal v _ _ :: _, keys) => Ok (v, keys)
         | Ok (_, _) => Err EStack
         | Err x => Err x
         end
  end.

(* iter_splits: dict(zip(keys, flatten(tuple))) per job — an association list in key order *)
Definition assignment := list (nat * nat).
Definition states_ind (vals : list idx) (keys : list nat) : list assignment := map (combine keys) vals.

(* map_splits: element v of the flattened value of field k; IndexError when out of range *)
Definition in_range (e : env) (a : assignment) : bool :=
  forallb (fun kv => Nat.ltb (snd kv) (nprod (e (fst kv)))) a.

(* prepare_states for a state without combiner and without previous states:
   the per-job assignment field -> index (states_ind), after states_val could be built for every job *)
Definition prepare_states (e : env) (s : spl) : res (list assignment) :=
  match splits e (rpn s) with
  | Err x => Err x
  | Ok (vals, keys) =>
      let si := states_ind vals keys in
      if forallb (in_range e) si then Ok si else Err EIndex
  end.

(* canonical form used when comparing with an observed dict: sorted by field *)
Fixpoint ins_kv (x : nat * nat) (l : assignment) : assignment :=
  match l with [] => [x] | y :: r => if Nat.leb (fst x) (fst y) then x :: y :: r else y :: ins_kv x r end.
Definition sort_kv (a : assignment) : assignment := fold_right ins_kv [] a.

(* ======================================================================================================
   Request validation (C05): Task.split, Task.combine (compose/base/task.py), Submitter.__call__,
   State.combiner_validation — in the order the code performs the checks. *)
Record req := {
  r_split_called : bool;         (* .split(...) was called *)
  r_split : option spl;          (* its positional splitter argument (None: absent/None) *)
  r_vals : list nat;             (* fields given as keyword arguments of split() *)
  r_nonseq : list nat;           (* those of them whose value is not a sequence (or is a str/mapping) *)
  r_comb : option (list nat);    (* .combine(...) argument, None when combine is not called *)
  r_task : list nat              (* the field names of the task *)
}.

Inductive verr := VDup | VMissing | VStray | VNotSeq | VCombNotInTask | VCombNotSplit | VCombNoSplit.

Definition memb (x : nat) (l : list nat) : bool := existsb (Nat.eqb x) l.
Fixpoint has_dup (l : list nat) : bool := match l with [] => false | x :: r => memb x r || has_dup r end.
Definition subsetb (a b : list nat) : bool := forallb (fun x => memb x b) a.

(* Task.split: returns the splitter stored on the task (None: no usable splitter, `_splitter` falsy) *)
Definition split_stage (r : req) : verr + option spl :=
  if negb (r_split_called r) then inr None else
  match r_split r with
  | Some s =>
      let names := leaves s in
      if has_dup names then inl VDup
      else if negb (subsetb names (r_vals r)) then inl VMissing
      else if negb (subsetb (r_vals r) names) then inl VStray
      else if negb (Nat.eqb (List.length (r_nonseq r)) 0) then inl VNotSeq
      else inr (Some s)
  | None =>
      (* no splitter given: the keyword names become an outer splitter *)
      if negb (Nat.eqb (List.length (r_nonseq r)) 0) then inl VNotSeq
      else inr (match r_vals r with [] => None | vs => Some (Outer (map Fld vs)) end)
  end.

(* Task.combine, then Submitter.__call__ / State.combiner_validation *)
Definition validate (r : req) : verr + option spl :=
  match split_stage r with
  | inl x => inl x
  | inr os =>
      let comb := match r_comb r with Some c => c | None => [] end in
      if negb (subsetb comb (r_task r)) then inl VCombNotInTask
      else match os with
           | Some s => if negb (subsetb comb (leaves s)) then inl VCombNotSplit else inr (Some s)
           | None => match comb with [] => inr None | _ => inl VCombNoSplit end
           end
  end.

(* what is run: nothing on a rejected request; the expansion's jobs (or one unsplit job) otherwise.
   The nat is the number of task-body executions. *)
Inductive outcome := Rejected (v : verr) | RejectedShape | Ran (jobs : nat).
Definition submit (e : env) (r : req) : outcome :=
  match validate r with
  | inl v => Rejected v
  | inr None => Ran 1
  | inr (Some s) => match prepare_states e s with Ok a => Ran (List.length a) | Err _ => RejectedShape end
  end.
Definition bodies (o : outcome) : nat := match o with Ran n => n | _ => 0 end.
