(* C19 — Task execution cannot silently alter its recorded inputs. *)
From Pydra Require Import Base.Prelude Model.CacheSeq Spec.CacheSeq Proofs.CacheSeqMut.

(* The property at full strength, for the hash H (blake2b; no hypothesis about it) and the
   encoding the tree under test uses (sh = numpy shape is hashed): after the body, every field is
   unchanged or the change is detected — up to a collision of H —, a detected change is reported to
   the caller, and the result is stored under the identity of the inputs as submitted. *)
Definition C19_full_statement (sh : bool) : Prop :=
  detect_statement sh /\ reported_statement /\
  (forall H re late shared i f, fst (fst (run_with_check sh H re late shared i f)) = checksum sh H i).

(* refuted on the current tree: without raise_errors (the default of every worker but debug) the
   RuntimeError of the post-run check is logged and the stored successful result returned (F19) *)
Theorem C19_refuted_swallowed : forall sh, ~ C19_full_statement sh.
Proof. intros sh (_ & R & _). exact (swallowed_without_raise_errors R). Qed.
Print Assumptions C19_refuted_swallowed.

(* the strongest positive statement: the shape being hashed (probed on the tree at run time),
   an unreported run leaves every field equal or hides the change behind a collision of H *)
Theorem C19_detect_or_unchanged :
  forall (H : list nat -> nat) (i i' : inputs),
    same_shape i i' -> hash_changes true H (field_hashes true H i) i' = [] ->
    Forall2 (fun f f' => snd f = snd f' \/
                         (ser true (snd f) <> ser true (snd f') /\ H (ser true (snd f)) = H (ser true (snd f')))) i i'.
Proof. exact detect_or_unchanged. Qed.
Print Assumptions C19_detect_or_unchanged.

(* for any encoding flag: unchanged, or missed in one of the two named ways *)
Theorem C19_undetected_classified :
  forall (sh : bool) (H : list nat -> nat) (i i' : inputs),
    same_shape i i' -> hash_changes sh H (field_hashes sh H i) i' = [] ->
    unchanged_or_missed (ser sh) H i i'.
Proof. intros sh H i i' Hs Hc. exact (undetected_means_unchanged_or_missed sh H i i' Hs Hc pyval_eq_dec_all). Qed.
Print Assumptions C19_undetected_classified.

Theorem C19_encoding_injective : forall x y, ser true x = ser true y -> x = y.
Proof. exact ser_injective. Qed.
Print Assumptions C19_encoding_injective.

(* a tree whose numpy hash ignores the shape misses an in-place reshape (inherits F08a) *)
Theorem C19_refuted_shape_not_hashed : ~ detect_statement false.
Proof. exact detect_refuted_without_shape. Qed.
Print Assumptions C19_refuted_shape_not_hashed.

(* no false alarm: a reported field really differs *)
Theorem C19_reported_fields_differ :
  forall (sh : bool) (H : list nat -> nat) (i i' : inputs) (k : string),
    same_shape i i' -> In k (hash_changes sh H (field_hashes sh H i) i') ->
    exists x y, In (k, x) i /\ In (k, y) i' /\ x <> y.
Proof. exact reported_fields_differ. Qed.
Print Assumptions C19_reported_fields_differ.

Theorem C19_identity_of_original :
  forall sh H re late shared i f g,
    fst (fst (run_with_check sh H re late shared i f)) = checksum sh H i /\
    fst (fst (run_with_check sh H re late shared i f)) = fst (fst (run_with_check sh H re late shared i g)).
Proof. exact identity_of_original. Qed.
Print Assumptions C19_identity_of_original.

(* with raise_errors the caller is told exactly when a change was detected *)
Theorem C19_reported_with_raise_errors :
  forall sh H late shared i f,
    snd (run_with_check sh H true late shared i f) = snd (fst (run_with_check sh H true late shared i f)).
Proof. exact reported_iff_detected. Qed.
Print Assumptions C19_reported_with_raise_errors.

Theorem C19_copy_mode_independent :
  forall (f : fs) (jobdir orig : string) (c : option nat),
    let '(f1, dest) := stage_copy f jobdir orig in
    dest <> orig /\ f1 dest = f orig /\ fs_set f1 dest c orig = f orig.
Proof. exact copy_leaves_original. Qed.
Print Assumptions C19_copy_mode_independent.
