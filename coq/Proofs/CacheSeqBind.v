(* Proofs/CacheSeqBind.v — C13: PythonTask._run return-value binding provides every mandatory
   declared output or fails. *)
From Pydra Require Import Base.Prelude Model.CacheSeq Spec.CacheSeq.
Local Open Scope bool_scope.
Local Open Scope string_scope.

Notation okfield := (fun (d : decl) (o : string * oval) => fst o = fst d /\ (snd d = true -> provided (snd o) = true)).

Lemma Forall2_map_same (f : decl -> string * oval) ds :
  (forall d, In d ds -> okfield d (f d)) -> Forall2 okfield ds (map f ds).
Proof.
  induction ds as [|d ds IH]; intros H; cbn; constructor.
  - apply H. now left.
  - apply IH. intros d' Hd. apply H. now right.
Qed.

Lemma Forall2_tuple ds : forall vs, List.length vs = List.length ds ->
  Forall2 okfield ds (map (fun p : decl * value => (fst (fst p), Val (snd p))) (combine ds vs)).
Proof.
  induction ds as [|d ds IH]; intros [|v vs] H; cbn in *; try discriminate; constructor.
  - cbn. auto.
  - apply IH. now injection H.
Qed.

Lemma dict_get_none k kvs :
  dict_get k kvs = None <-> existsb (fun kv => String.eqb k (fst kv)) kvs = false.
Proof.
  induction kvs as [|[k' v] kvs IH]; cbn; [tauto|].
  destruct (dict_get k kvs) eqn:E.
  - split; [discriminate|]. intros H. apply orb_false_iff in H. destruct H as [_ H].
    apply IH in H. discriminate.
  - destruct (String.eqb k k'); cbn; [split; discriminate|]. tauto.
Qed.

(* after "fix: ... returned dict lacks a mandatory output": success implies completeness *)
Theorem bind_complete ds r outs :
  bind_outputs true ds r = Some outs -> outputs_complete ds outs.
Proof.
  unfold bind_outputs, outputs_complete. destruct r as [|vs|kvs|v].
  - intros [= <-]. apply Forall2_map_same. intros d _. cbn. auto.
  - destruct ds as [|d [|d' ds]]; [discriminate| |].
    + intros [= <-]. repeat constructor.
    + destruct (Nat.eqb_spec (List.length vs) (List.length (d :: d' :: ds))) as [E|]; [|discriminate].
      intros [= <-]. exact (Forall2_tuple (d :: d' :: ds) vs E).
  - destruct ds as [|d [|d' ds]]; [discriminate| |].
    + intros [= <-]. repeat constructor.
    + cbn [andb].
      match goal with |- (if ?b then _ else _) = _ -> _ => destruct b eqn:Ex end; [intros Hx; discriminate Hx|].
      intros [= <-].
      apply (Forall2_map_same (fun d0 : decl => (fst d0, match dict_get (fst d0) kvs with Some v => Val v | None => unset d0 end))
                              (d :: d' :: ds)).
      intros d0 Hd0. cbn. split; [reflexivity|]. intros Hm.
      destruct (dict_get (fst d0) kvs) eqn:G; [reflexivity|].
      exfalso. rewrite <- not_true_iff_false in Ex. apply Ex. apply existsb_exists.
      exists d0. split; [exact Hd0|]. now rewrite Hm, G.
  - destruct ds as [|d [|d' ds]]; [discriminate| |discriminate].
    intros [= <-]. repeat constructor.
Qed.

(* a return value that does not provide every mandatory output is a failure *)
Theorem bind_fails_when_not_provided ds r :
  provides ds r = false -> bind_outputs true ds r = None.
Proof.
  unfold provides, bind_outputs. destruct r as [|vs|kvs|v]; [discriminate| | |].
  - intros H. apply orb_false_iff in H. destruct H as [H1 H2].
    destruct ds as [|d [|d' ds]]; [reflexivity|discriminate|]. now rewrite H2.
  - intros H. apply orb_false_iff in H. destruct H as [H1 H2].
    destruct ds as [|d [|d' ds]]; [discriminate|discriminate|]. cbn [andb].
    rewrite <- not_true_iff_false in H2.
    match goal with |- (if ?b then _ else _) = _ => destruct b eqn:Ex end; [reflexivity|].
    exfalso. apply H2. apply forallb_forall. intros d0 Hd0.
    destruct (snd d0) eqn:Hm; [|reflexivity]. cbn.
    destruct (existsb (fun kv => String.eqb (fst d0) (fst kv)) kvs) eqn:Ek; [reflexivity|].
    apply dict_get_none in Ek. rewrite <- not_true_iff_false in Ex. exfalso. apply Ex.
    apply existsb_exists. exists d0. split; [exact Hd0|]. now rewrite Hm, Ek.
  - intros H. destruct ds as [|d [|d' ds]]; [reflexivity|discriminate|reflexivity].
Qed.

(* the tree before the repair (strict = false): declared a, b; returned {"a": 1} => success with b = NOTHING *)
Definition outputs_complete_or_error (strict : bool) : Prop :=
  forall ds r outs, bind_outputs strict ds r = Some outs -> outputs_complete ds outs.

Lemma dict_missing_witness :
  bind_outputs false [("a", true); ("b", true)] (RDict [("a", 1)]) = Some [("a", Val 1); ("b", Nothing)].
Proof. reflexivity. Qed.

Theorem lenient_binding_refuted : ~ outputs_complete_or_error false.
Proof.
  intros H. specialize (H _ _ _ dict_missing_witness).
  inversion H as [|? ? ? ? _ H2]; subst. inversion H2 as [|? ? ? ? [_ Hb] _]; subst.
  specialize (Hb eq_refl). discriminate.
Qed.

Example bind_examples :
  bind_outputs true [("a", true); ("b", true)] (RDict [("a", 1)]) = None /\
  bind_outputs true [("a", true); ("b", false)] (RDict [("a", 1)]) = Some [("a", Val 1); ("b", Default)] /\
  bind_outputs true [("a", true); ("b", true)] (RTuple [1; 2]) = Some [("a", Val 1); ("b", Val 2)] /\
  bind_outputs true [("a", true); ("b", true)] (RTuple [1; 2; 3]) = None /\
  bind_outputs true [("a", true)] (RTuple [1; 2; 3]) = Some [("a", Val 1003)] /\
  bind_outputs true [("a", true); ("b", true)] RNone = Some [("a", PyNone); ("b", PyNone)] /\
  bind_outputs true [] (ROther 4) = None.
Proof. repeat split; reflexivity. Qed.
