(* Model/Mount.v — pydra/utils/mount_identifier.py: parse_mount_table (after the regex),
   get_mount, on_cifs, on_same_mount. *)
From Pydra Require Import Base.Prelude Base.PyPath.
Local Open Scope string_scope.

Definition entry := (string * string)%type.      (* (mount point, fstype) as the regex captured them *)
Definition table := list entry.

(* sorted(..., key=lambda x: len(x[0]), reverse=True): stable, longest first.
   CPython's reverse=True keeps the original order of equal keys:
   fold_right inserts the last line first, so an earlier line must go in front of equal lengths. *)
Fixpoint insert_len (e : entry) (l : table) : table :=
  match l with
  | [] => [e]
  | x :: r => if Nat.leb (String.length (fst x)) (String.length (fst e))
              then e :: x :: r else x :: insert_len e r
  end.
Definition sort_len (l : table) : table := fold_right insert_len [] l.

Definition lower_ascii (c : ascii) : ascii :=
  let n := nat_of_ascii c in if (Nat.leb 65 n && Nat.leb n 90)%bool then ascii_of_nat (n + 32) else c.
Fixpoint lower (s : string) : string :=
  match s with EmptyString => EmptyString | String c r => String (lower_ascii c) (lower r) end.

Definition str_prefix (p s : string) : bool := is_prefix Ascii.eqb (la_of p) (la_of s).

(* parse_mount_table after the per-line regex: keep mounts lying (string-wise) under a cifs mount *)
Definition parse_table (matches : table) : table :=
  let info := sort_len matches in
  let cifs := map fst (filter (fun e => String.eqb (lower (snd e)) "cifs") info) in
  filter (fun m => existsb (fun p => str_prefix p (fst m)) cifs) info.

Definition default_mount : entry := ("/", "ext4").

(* get_mount: first entry p with Path(path).is_relative_to(p); returns (str(Path(p)), t) *)
Definition matches_entry (path : string) (e : entry) : bool :=
  rel_to (parse (la_of path)) (parse (la_of (fst e))).

Definition get_mount (t : table) (path : string) : entry :=
  match find (matches_entry path) t with
  | Some e => (str_of (render (parse (la_of (fst e)))), snd e)
  | None => default_mount
  end.

Definition on_cifs (t : table) (path : string) : bool := String.eqb (snd (get_mount t path)) "cifs".
Definition on_same_mount (t : table) (p1 p2 : string) : bool :=
  String.eqb (fst (get_mount t p1)) (fst (get_mount t p2)).
