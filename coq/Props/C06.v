(* C06 — a cache hit returns what executing the task now would return. *)
From Pydra Require Import Base.Prelude Base.PySort Model.Hash Spec.Hash Proofs.HashSort Proofs.HashCtx
     Proofs.HashInj Proofs.HashOrder Proofs.HashTask Proofs.HashRefuted Proofs.HashCache Proofs.HashChecksum.

(* For every blake2b H, every deterministic [run] that may depend on all aspects of a task (the hashed field
   values, the closure cells / globals hidden in its function value, the per-field metadata), and every history
   of submissions into one cache root: each submission returns what running the task now returns. *)
Definition C06_full_statement : Prop :=
  forall (H : string -> string) (O : Type) (run : taskdef -> O) (ts : list taskdef),
    fst (submit_all (ident_of H) run [] ts) = map run ts.

(* two python tasks whose function differs only in a captured closure value *)
Theorem C06_refuted_closure : ~ C06_full_statement.
Proof.
  intros S. destruct (closure_witness toyH) as [E N].
  exact (cache_stale (ident_of toyH) (fun t => t) (task_closure 1) (task_closure 100) E N
                     (S toyH taskdef (fun t => t) [task_closure 1; task_closure 100])).
Qed.
Print Assumptions C06_refuted_closure.

(* two shell tasks that differ only in the argstr of an input field *)
Theorem C06_refuted_field_metadata : ~ C06_full_statement.
Proof.
  intros S. destruct (argstr_witness toyH) as [E N].
  exact (cache_stale (ident_of toyH) (fun t => t) (task_argstr "-a") (task_argstr "-b") E N
                     (S toyH taskdef (fun t => t) [task_argstr "-a"; task_argstr "-b"])).
Qed.
Print Assumptions C06_refuted_field_metadata.

(* in general, for every H: neither metadata nor closure values reach the identity *)
Theorem C06_identity_ignores_metadata : forall H ty fields m1 m2,
    identity H {| t_type := ty; t_fields := fields; t_meta := m1 |} =
    identity H {| t_type := ty; t_fields := fields; t_meta := m2 |}.
Proof. exact identity_ignores_metadata. Qed.
Print Assumptions C06_identity_ignores_metadata.

Theorem C06_identity_ignores_closure : forall H ty meta pre post n i src h1 h2,
    identity H {| t_type := ty; t_fields := pre ++ (n, VFunc i src h1) :: post; t_meta := meta |} =
    identity H {| t_type := ty; t_fields := pre ++ (n, VFunc i src h2) :: post; t_meta := meta |}.
Proof. exact identity_ignores_closure. Qed.
Print Assumptions C06_identity_ignores_closure.

(* the strongest positive statement, for any notion of task, identity and run: over any history, if the identity
   separates the submitted tasks that compute different things, every submission returns run of the submitted
   task (invariant: every stored entry is run of a task with that identity) *)
Theorem C06_sound_if_identity_separates :
  forall (T O : Type) (ident : T -> string) (run : T -> O) (ts : list T),
    (forall t1 t2, In t1 ts -> In t2 ts -> ident t1 = ident t2 -> run t1 = run t2) ->
    fst (submit_all ident run [] ts) = map run ts.
Proof.
  intros T O ident run ts Hsep. apply (cache_sound ident run ts [] []); [intros d o Hf; discriminate|exact Hsep].
Qed.
Print Assumptions C06_sound_if_identity_separates.

(* and it is necessary: one identity for two tasks with different results makes the second submission stale *)
Theorem C06_stale_if_identity_merges :
  forall (T O : Type) (ident : T -> string) (run : T -> O) t1 t2,
    ident t1 = ident t2 -> run t1 <> run t2 -> fst (submit_all ident run [] [t1; t2]) <> map run [t1; t2].
Proof. intros T O. exact cache_stale. Qed.
Print Assumptions C06_stale_if_identity_merges.

(* the identity is a function of the field names and of the digests the field values have alone *)
Theorem C06_identity_of_digests : forall H env1 env2 ty f1 f2,
    Forall2 (fun a b : string * pyval => fst a = fst b /\ dg H (snd a) = dg H (snd b)) f1 f2 ->
    (forall kv, In kv f1 -> hashable_acyclic H env1 (snd kv)) ->
    (forall kv, In kv f2 -> hashable_acyclic H env2 (snd kv)) ->
    checksum H ty f1 = checksum H ty f2.
Proof. exact checksum_only_sees_digests. Qed.
Print Assumptions C06_identity_of_digests.

(* input values: content, Python type and nesting are separated by the value digests (C08_ser_injective) *)
Theorem C06_separates_values :
  forall H v1 v2 d, inj_dom v1 -> inj_dom v2 -> digest H v1 = Ok d -> digest H v2 = Ok d ->
                    veq v1 v2 \/ collision H (S (vdepth v1)) v1 (S (vdepth v2)) v2.
Proof. exact ser_injective. Qed.
Print Assumptions C06_separates_values.

(* array shape and dtype (repaired, formerly finding F06c): different bytes *)
Theorem C06_array_shape_dtype_separated : forall H,
    preimage H (nd_zeros "float64" [2; 3]) <> preimage H (nd_zeros "float64" [3; 2]) /\
    preimage H (nd_zeros "float64" [6]) <> preimage H (nd_zeros "int64" [6]) /\
    preimage H (nd_zeros "float64" [6]) <> preimage H (nd_zeros "float64" [2; 3]).
Proof. exact array_shape_dtype_separated. Qed.
Print Assumptions C06_array_shape_dtype_separated.

(* The Merkle argument carried through _compute_hashes + _checksum: two tasks whose hashed field values lie in the
   domain of C08_ser_injective and whose checksums are equal have the same task type and, matched by field name,
   equal values (sets as sets, dicts as maps) — or an explicit collision of H between two byte strings hashed for a
   pair of field values, or for the two outer lists of (name, hex digest) tuples. *)
Theorem C06_checksum_injective : forall H env1 env2 ty1 ty2 f1 f2 c,
    (forall kv, In kv f1 -> field_ok H env1 kv) -> (forall kv, In kv f2 -> field_ok H env2 kv) ->
    checksum H ty1 f1 = Ok c -> checksum H ty2 f2 = Ok c ->
    ty1 = ty2 /\
    ((fields_match H f1 f2 /\ fields_match H f2 f1) \/
     exists l1 l2, outer_value H f1 = Ok l1 /\ outer_value H f2 = Ok l2 /\
                   collision H (S (vdepth l1)) l1 (S (vdepth l2)) l2).
Proof. exact checksum_injective. Qed.
Print Assumptions C06_checksum_injective.

Theorem C06_identity_separates_or_collision : forall H t1 t2,
    in_domain H t1 -> in_domain H t2 -> ident_of H t1 = ident_of H t2 ->
    same_hashed_aspects t1 t2 \/ task_collision H t1 t2.
Proof. exact identity_separates_or_collision. Qed.
Print Assumptions C06_identity_separates_or_collision.

(* histories: over tasks of that domain, if run depends only on the aspects that enter the checksum (task type,
   field names and values incl. the function bytes and the Outputs class), every submission — in particular every
   cache hit — returns what executing the task now would return, or two submitted tasks exhibit a collision of H *)
Theorem C06_history_sound_or_collision : forall H (O : Type) (run : taskdef -> O) (ts : list taskdef),
    (forall t, In t ts -> in_domain H t) ->
    (forall t1 t2, same_hashed_aspects t1 t2 -> run t1 = run t2) ->
    fst (submit_all (ident_of H) run [] ts) = map run ts \/
    exists t1 t2, In t1 ts /\ In t2 ts /\ task_collision H t1 t2.
Proof. exact history_sound_or_collision. Qed.
Print Assumptions C06_history_sound_or_collision.

(* non-vacuity: a history [A; B; A] of tasks in the domain (list-valued input, function and Outputs fields) *)
Theorem C06_checksum_example : forall H t, In t [ck_task 1; ck_task 2; ck_task 1] -> in_domain H t.
Proof. exact ck_history. Qed.
Print Assumptions C06_checksum_example.
